#!/bin/bash
# Run once in /verif after a fresh restore (offline): builds the sfacts rustc driver from the
# sources in engines/sfacts and warms the dependency metadata + facts of /repo's current tree.
set -e
cd "$(dirname "$0")"
export CARGO_NET_OFFLINE=true
python3 - <<'EOF'
import sys
sys.path.insert(0, "engines")
from rules import core
core.build_driver()
d = core.ensure_facts("default")
print("facts ready:", d)
EOF
