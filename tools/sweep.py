#!/usr/bin/env python3
"""usage: tools/sweep.py [--seeds] [--fixes] [--only <name-substring>] [--checks C01,C02,...]

Validation sweep of the checkers (never part of a registered check; modifies /repo's working tree
while it runs and always restores it — do not run anything else that reads /repo meanwhile):

  --seeds  for every /verif/seeded/<name>/patch.diff: apply to /repo, run every claimed check
           (quick tier), record which exit 1 / 3, restore. Updates meta.json `detected_by_checks`
           and `applies_on_head`.
  --fixes  for every `fixed:` entry of known_findings.json: apply the reverse of that fix commit
           (re-introducing the defect), run the check of the entry's property (and of the
           properties named '(also Cxx)'), expect exit 1, restore.

Writes validation/matrix.json and validation/matrix.md (the table quoted in DESIGN.md).
"""
import json
import os
import re
import subprocess
import sys

HERE = os.path.dirname(os.path.dirname(os.path.abspath(__file__)))
REPO = "/repo"


def sh(cmd, **kw):
    return subprocess.run(cmd, shell=True, capture_output=True, text=True, **kw)


def claimed():
    m = json.load(open(os.path.join(HERE, "MANIFEST.json")))
    return sorted(c["property_id"] if "property_id" in c else c["id"] for c in m["checks"])


def run_checks(ids):
    out = {}
    if len(ids) > 6:
        # one process for all checks: facts are loaded once
        r = sh("./check ALL --tier quick", cwd=HERE)
        cur = []
        for line in r.stdout.splitlines():
            m = re.match(r"^== (C\d\d) exit=(\d+)", line)
            if m:
                if m.group(1) in ids:
                    out[m.group(1)] = {"exit": int(m.group(2)), "violated": re.findall(r"^\s+violated: (.+)$", "\n".join(cur), re.M)[:8],
                                       "other": re.findall(r"^(ANCHOR-LOST|BUILD-FAILED|CHECK-ERROR)[^\n]*", "\n".join(cur), re.M)[:1]}
                cur = []
            else:
                cur.append(line)
        for cid in ids:
            out.setdefault(cid, {"exit": 3, "violated": [], "other": ["no output"]})
        return out
    for cid in ids:
        r = sh("./check %s --tier quick" % cid, cwd=HERE)
        viol = re.findall(r"^\s+violated: (.+)$", r.stdout, re.M)
        lost = re.findall(r"^(ANCHOR-LOST|BUILD-FAILED|CHECK-ERROR)[^\n]*", r.stdout, re.M)
        out[cid] = {"exit": r.returncode, "violated": viol[:8], "other": lost[:1]}
    return out


def clean():
    return sh("git -C %s diff --quiet" % REPO).returncode == 0


def restore():
    sh("git -C %s reset -q --hard HEAD" % REPO)
    sh("git -C %s clean -fdq -- src build" % REPO)


def main():
    a = sys.argv[1:]
    only = a[a.index("--only") + 1] if "--only" in a else None
    ids = a[a.index("--checks") + 1].split(",") if "--checks" in a else claimed()
    if not clean():
        sys.exit("/repo has uncommitted changes")
    os.makedirs(os.path.join(HERE, "validation"), exist_ok=True)
    mpath = os.path.join(HERE, "validation", "matrix.json")
    matrix = json.load(open(mpath)) if os.path.exists(mpath) else {"seeds": {}, "fixes": {}}
    head = sh("git -C %s rev-parse --short HEAD" % REPO).stdout.strip()
    try:
        if "--seeds" in a:
            for name in sorted(os.listdir(os.path.join(HERE, "seeded"))):
                d = os.path.join(HERE, "seeded", name)
                patch = os.path.join(d, "patch.diff")
                if not os.path.exists(patch) or (only and only not in name):
                    continue
                meta = json.load(open(os.path.join(d, "meta.json")))
                ap = sh("git -C %s apply %s" % (REPO, patch))
                if ap.returncode != 0:
                    ap = sh("git -C %s apply -3 %s" % (REPO, patch))
                if ap.returncode != 0:
                    restore()
                    matrix["seeds"][name] = {"property": meta["property"], "applies_on_head": False, "head": head, "note": ap.stderr.strip()[:200]}
                    print(name, "DOES NOT APPLY")
                    continue
                # --fast: only the seed's own property and the checks that caught it before (no discovery of new catchers)
                res = run_checks(sorted({meta["property"]} | set(meta.get("detected_by_checks") or [])) if "--fast" in a else ids)
                restore()
                det = sorted(c for c, r in res.items() if r["exit"] == 1)
                broken = sorted(c for c, r in res.items() if r["exit"] not in (0, 1))
                matrix["seeds"][name] = {"property": meta["property"], "applies_on_head": True, "head": head, "detected_by": det,
                                         "keys": {c: res[c]["violated"] for c in det}, "no_verdict": {c: res[c]["other"] for c in broken}}
                meta["detected_by_checks"] = det
                meta["applies_on_head"] = head
                json.dump(meta, open(os.path.join(d, "meta.json"), "w"), indent=1)
                print(name, "->", det, ("no verdict: %s" % broken) if broken else "")
                json.dump(matrix, open(mpath, "w"), indent=1)
        if "--fixes" in a:
            kf = json.load(open(os.path.join(HERE, "known_findings.json")))
            for e in kf["fixed"]:
                m = re.match(r"fixed: property=(C\d\d) ([0-9a-f]{7,}) (.*)", e)
                if not m:
                    continue
                prop, commit, what = m.groups()
                if only and only not in commit and only not in prop:
                    continue
                props = sorted({prop} | set(re.findall(r"also (C\d\d)", what)) | set(re.findall(r"\[(C\d\d)[:/ ]", what)) | set(re.findall(r", (C\d\d):", what)))
                rp = sh("git -C %s diff %s~1 %s -R" % (REPO, commit, commit)).stdout
                p = "/tmp/_sweep_rev.diff"
                open(p, "w").write(rp)
                ap = sh("git -C %s apply %s" % (REPO, p))
                if ap.returncode != 0:
                    # later commits moved the context: try a three-way merge of the reverse patch
                    restore()
                    ap = sh("git -C %s apply -3 %s" % (REPO, p))
                    if ap.returncode == 0:
                        sh("git -C %s reset -q" % REPO)      # keep the change in the working tree only
                if ap.returncode != 0:
                    restore()
                    matrix["fixes"][commit] = {"property": prop, "applies_on_head": False, "head": head}
                    print(commit, prop, "reverse patch does not apply on HEAD")
                    continue
                res = run_checks([c for c in props if c in ids])
                restore()
                det = sorted(c for c, r in res.items() if r["exit"] == 1)
                matrix["fixes"][commit] = {"property": prop, "applies_on_head": True, "head": head, "checked": sorted(res), "detected_by": det,
                                           "keys": {c: res[c]["violated"] for c in det}, "what": what[:160]}
                print(commit, prop, "->", det, "" if prop in det else "NOT DETECTED by its own check")
                json.dump(matrix, open(mpath, "w"), indent=1)
    finally:
        restore()
        if os.path.exists("/tmp/_sweep_rev.diff"):
            os.remove("/tmp/_sweep_rev.diff")
    json.dump(matrix, open(mpath, "w"), indent=1)
    # markdown
    L = ["| seeded change | property | caught by (exit 1) | first violated obligation |", "|---|---|---|---|"]
    for n, r in sorted(matrix["seeds"].items()):
        if not r.get("applies_on_head"):
            L.append("| %s | %s | *patch no longer applies on HEAD* | |" % (n, r["property"]))
            continue
        det = r["detected_by"]
        first = ""
        if det:
            c = r["property"] if r["property"] in det else det[0]
            first = "`%s`" % (r["keys"][c][0] if r["keys"][c] else "")
        L.append("| %s | %s | %s | %s |" % (n, r["property"], ", ".join(det) or "**missed**", first))
    L += ["", "| fix commit (reverted) | property | caught by | first violated obligation |", "|---|---|---|---|"]
    for n, r in matrix["fixes"].items():
        if not r.get("applies_on_head"):
            L.append("| %s | %s | *reverse patch does not apply on HEAD* | |" % (n, r["property"]))
            continue
        det = r["detected_by"]
        first = ""
        if det:
            c = r["property"] if r["property"] in det else det[0]
            first = "`%s`" % (r["keys"][c][0] if r["keys"][c] else "")
        L.append("| %s | %s | %s | %s |" % (n, r["property"], ", ".join(det) or "**not caught**", first))
    open(os.path.join(HERE, "validation", "matrix.md"), "w").write("\n".join(L) + "\n")
    print("wrote validation/matrix.{json,md}")


if __name__ == "__main__":
    main()
