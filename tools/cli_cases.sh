#!/bin/bash
# usage: tools/cli_cases.sh <worktree>
# The baseline's always-failing `scryer::cli_tests` is one test made of ~93 trycmd cases, so the suite's
# pass/fail count cannot show a regression inside it. This runs that test alone in a scratch worktree
# (never /repo) and lists the failing cases; on the pinned tree exactly two fail
# (tests/scryer/cli/unix/process.md:20 and :34). Used after every `fix:` commit; not a registered check.
set -u
wt=$(readlink -f "$1")
cd "$wt" || exit 9
cargo test --offline --test scryer cli_tests > /tmp/cli_cases.$$.log 2>&1
echo "ok cases: $(grep -cE '^Testing .* ok' /tmp/cli_cases.$$.log)"
grep -E '^Testing .* failed' /tmp/cli_cases.$$.log | sed -E 's/ \.\.\. failed.*//'
rm -f /tmp/cli_cases.$$.log
