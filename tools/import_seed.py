#!/usr/bin/env python3
"""usage: tools/import_seed.py <agent_out_dir> <seed_name> <property> "<needs>" [detected_by ...]
Copies a confirmed seeded change (patch.diff, demo files, NOTES.md, verify.log) into
/verif/seeded/<seed_name>/ and writes meta.json. Requires verify.log with a VERDICT line showing
demo_with_patch!=0, demo_without_patch=0 and unexpected_failures=0."""
import json
import os
import re
import shutil
import sys

src, name, prop, needs = sys.argv[1:5]
detected = sys.argv[5:]
HERE = os.path.dirname(os.path.dirname(os.path.abspath(__file__)))
log = open(os.path.join(src, "verify.log")).read()
m = re.search(r"VERDICT .*demo_with_patch=(\d+) demo_without_patch=(\d+) suite=\[(.*)\]", log)
if not m:
    sys.exit("no verdict in verify.log")
w, wo, suite = int(m.group(1)), int(m.group(2)), m.group(3)
if w == 0 or wo != 0 or "unexpected_failures=0" not in suite:
    sys.exit("not confirmed: with=%s without=%s suite=%s" % (w, wo, suite))
dst = os.path.join(HERE, "seeded", name)
os.makedirs(dst, exist_ok=True)
for f in os.listdir(src):
    if f in ("verify_suite.log", "suite.log", "test-suite.log") or f.endswith(".log") and f != "verify.log":
        continue
    p = os.path.join(src, f)
    if os.path.isfile(p) and os.path.getsize(p) < 400000:
        shutil.copy(p, os.path.join(dst, f))
files = sorted(set(re.findall(r"^\+\+\+ b/(\S+)", open(os.path.join(src, "patch.diff")).read(), re.M)))
meta = {
    "property": prop,
    "files_changed": files,
    "needs_to_manifest": needs,
    "confirmed": {
        "how": "tools/verify_seed.sh in a scratch worktree of /repo (HEAD with the fix: commits): applied patch, cargo build --offline, "
               "demo.sh (must fail), full nextest suite with the patch, reverted, rebuilt, demo.sh (must pass)",
        "demo_exit_with_patch": w,
        "demo_exit_without_patch": wo,
        "suite_with_patch": suite.strip(),
    },
    "detected_by_checks": detected,
    "origin": "independent sub-agent given only the property text and a scratch worktree",
}
json.dump(meta, open(os.path.join(dst, "meta.json"), "w"), indent=1)
print("imported", dst, "detected_by", detected)
