#!/usr/bin/env python3
"""usage: tools/seed_prompt.py <scratch-worktree> <property id>... > prompt.txt
Prompt handed to an independent sub-agent that injects a property-breaking change (section 6.1 of DESIGN.md):
it gets the property text and its own scratch worktree, nothing from /verif."""
import json,sys
wt=sys.argv[1]; ids=sys.argv[2:]
props={json.loads(l)['id']:json.loads(l) for l in open('/verif/properties.jsonl')}
out=[]
out.append(f"""You are helping evaluate a verification project for scryer-prolog (an ISO Prolog in Rust). Your job: act as a *realistic bug injector*.
You have your own scratch git worktree of the repository at {wt} (a detached checkout; it already contains a warm `target/` build directory so `cargo build --offline` only rebuilds the scryer-prolog crate, ~1-3 min). Work ONLY inside {wt}. Do NOT read or write anything under /verif or /repo (other than that `git` internally shares the object store). No network is available: always pass `--offline` to cargo.

For EACH of the properties below (do them one after the other), produce ONE source change to scryer-prolog (Rust under src/ or build/, or Prolog under src/lib/) that:
  1. BREAKS the property (for some input / history / schedule the stated behaviour no longer holds),
  2. still COMPILES (`cargo build --offline`), and
  3. still PASSES the existing test suite. The suite command is: `cd {wt} && cargo nextest run --workspace --no-fail-fast --tool-config-file pb:/w/lib/nextest.toml --profile pb --test-threads 6 --offline` (fallback `cargo test --workspace --no-fail-fast --offline`). NOTE: 12 tests fail already on the unchanged tree in this sandbox (scryer::cli_tests and the scryer::issues::issue_* file-system tests: issue_delete_directory, issue_delete_file, issue_directory_files, issue_file_copy, issue_file_exists, issue_file_size, issue_file_time, issue_make_directory, issue_make_directory_path, issue_path_canonical, issue_rename_file); ignore those — every OTHER test (109 of them) must still pass with your change. A full run takes roughly 5-8 minutes. To save time, run the full suite once per change when you believe it is final.
  4. is REALISTIC and SUBTLE: the kind of slip a maintainer could make in a refactor/optimisation/bugfix (an off-by-one in a comparison, a dropped fallback or guard, one of several sibling code paths changed but not the others, a missing save/restore, a wrong table entry, a fast path that skips a check...). It must need something SPECIFIC to manifest — a particular interleaving, a fault at a particular point, a multi-step sequence of operations, an unusual input (boundary magnitude, rare tag/representation combination), or two cooperating sites that each look fine alone — NOT something ordinary use would expose at once. Do not add comments that announce the bug. Keep the diff small (typically 1-15 lines).
  5. comes with a DEMONSTRATION: a small Prolog program + shell script (or a Rust test / small Rust program using the library) that FAILS (non-zero exit) with your change and PASSES (exit 0) on the unchanged tree. The built binary is {wt}/target/debug/scryer-prolog (usage e.g. `scryer-prolog -f --no-add-history file.pl -g "goal,halt."` or pipe a query on stdin). IMPORTANT: always run the binary under `timeout 60 ... </dev/null` — if a goal errors before `halt` the toplevel otherwise waits on stdin forever. Verify both directions yourself (use `git stash` / `git stash pop` or `git diff > patch; git checkout -- .` to flip between states, rebuilding each time).

Deliverables, for each property <ID>, in the directory {wt}/_out/<ID>/ (create it):
  - patch.diff   : `git diff` of your change against the unchanged tree (source files only, must apply with `git apply` at the repository root),
  - demo.sh (+ any .pl/.rs files it needs, referenced relative to the script's own directory; it takes the path of the scryer-prolog binary as $1, or builds/runs what it needs) exiting 0 when the property holds and non-zero when broken,
  - NOTES.md     : which clause of the property is broken, what exactly is needed for the breakage to manifest, what you ran (build, test-suite result counts, demo results both ways).
After finishing a property, RESTORE the tree (`git checkout -- .`, leave `_out/` and `target/` in place) before starting the next one. Leave the worktree restored at the end.
If after a real effort you cannot produce a change for a property that satisfies all of the above (e.g. every candidate is caught by the test suite), say so in NOTES.md with what you tried and move on.

Additionally (valuable, but secondary): if while reading the code you notice behaviour of the UNCHANGED tree that already contradicts one of these properties (an existing defect), record it in NOTES.md under a heading "Side observations on the unchanged tree" with a minimal reproducer and what you observed when you ran it; do not fix it and keep your injected change independent of it.

Final answer: a brief summary per property: the file/function changed, one-line description, the test-suite result (passed/failed counts), demo results.

The properties (JSON records: id, title, statement, quantifier, why tests cannot settle it, code anchors):
""")
for i in ids:
    out.append(json.dumps(props[i],indent=1))
    out.append("")
print("\n".join(out))
