#!/usr/bin/env python3
"""Regenerates /verif/MANIFEST.json from the table below (claimed checks) + the not-applicable
list. Run from /verif: python3 tools/gen_manifest.py"""
import json
import os

HERE = os.path.dirname(os.path.dirname(os.path.abspath(__file__)))

TRUST = ("Trusted: rustc nightly front end/MIR construction, the sfacts fact extraction, the rule tables and "
         "recorded exception reasons in engines/rules/<id>.py. The check decides the structural clause named in "
         "level_claimed.text (a necessary condition of the property), not the run-time behaviour.")

# id -> (technique, text)
CLAIMED = {
    "C01": ("numeric-operator discipline over MIR (release semantics) + guarded-construction and guard rules over typed HIR",
            "Decides the overflow-safety shape of the integer evaluator: every raw wrapping operator and narrowing/sign-changing cast on machine integers inside the evaluator scope is on a closed, reasoned table; every checked_* has a data-dependent fallback; unchecked fixnum builders are the listed ones; the 56-bit range constants fit the encoding; every functor of the statement is evaluable in both evaluators; every integer division sits behind a zero-divisor test; non-commutative operations keep operand order in every representation pair. Does not decide that an implementation computes the right number."),
    "C02": ("classify-before-return rule (RF3) over typed HIR + guard table + operand-order rule",
            "Decides that no float-producing operation of the arithmetic modules escapes the finiteness classifier, that the classifier maps infinite/NaN to the two evaluation errors, that the undefined/zero-divisor guards named in the statement precede the operations they protect, that Number/Number keeps operand order in all 16 representation pairs, and that the table storing each float once does not identify the two zeros (decided and fails: recorded known finding). Numerical values are not decided."),
    "C07": ("exhaustiveness + sibling agreement of Call/Execute/Default twins over typed HIR; or-frame effect table",
            "Decides two machine-level necessary conditions: every instruction has exactly one handler and the twins of each builtin family run the same work, differing only in continuation (p += 1 vs p = cp) and inference counting; no handler steps to the next instruction unconditionally after a builtin that can set the fail flag or throw; choice-point frames are written and restored field for field; the Call<X> and Execute<X> arms of the 283 inlined builtins are the same code up to the continuation; and the one compiler-half clause that is decided: the condition of ->/2 and the argument of \\+/1 get a cut point of their own in both implementations of the control constructs (clause compiler and dispatch_prep_/3). The rest of the compiler half (register allocation, variable classification, disjunction chunking) is not decided."),
    "C09": ("sibling agreement of liveness tests, must-pass-through of clock ticks (MIR CFG), save/restore ordering of the call generation (typed HIR)",
            "Decides the structure of the logical-update-view protocol: all liveness tests are birth < cc && Finite(cc) <= death; every assert/retract path ticks the clock before returning; stamps come from the clock; cc is read from the clock only on a first call, saved with the choice point, and reloaded from it before the first liveness test on backtracking; of the dynamic choice instructions only the outer-entry ones take a new generation; the saved position inside a first-argument choice sequence advances from the entry executed; lines of a dynamic predicate's indexing code never move (a call iterating them remembers the line); append and prepend locate an indexed block's choice instruction the same way; a handler that finds no living clause removes the choice point that led back to it. asserta during iteration of one key shifts the saved position: decided and fails, recorded known finding. Answer sequences are not decided."),
    "C10": ("who-may-call (single binding hook) over call facts, control dependence in bind_with_occurs_check, wiring tables",
            "Decides that under the occurs-check unifiers no binding bypasses the check (the generic unifier binds only through the overridable hook, never through the raw binders or direct cell writes), that the check's flag controls the bind and is reported, that the three occurs_check modes are wired to the three unifiers, that every per-shape helper has the variable arms, that instruction handlers act on a failed occurs check before stepping and bind through the checked binder, that structure arguments are read only after the functor cell, and that an arena constant unifies only with itself or a variable. The worklist algorithm is not decided."),
    "C11": ("write/trail pairing, trail-tag round-trip, condition table, or-frame effect table over typed HIR",
            "Decides that every cell write in a trailing function is paired with a trail call of the matching kind, that the trail conditions compare with hb/b strictly, that every trail entry tag pushed is undone by an arm restoring the matching self-reference in reverse order, that bb_b_put distinguishes its three states and stores no reference into the stack, that bb_put reads its value dereferenced, that no caller skips a trail call because of what it sees in the trail, that functions writing heap/stack cells either trail or are on a reasoned table, who may call unwind_trail, and that choice points are saved/restored field for field. Which goals create choice points is not decided."),
    "C12": ("goal-order rules over the catch/throw clauses of builtins.pl (plread), effect summaries of the Rust exception primitives (typed HIR, MIR order), who-may-build-a-thrown-error over every Err(..) of type Result<_, MachineStub>",
            "Decides the control skeleton of catch/3 and throw/1 and the form of builtin errors: throw/1 stores the thrown term (an instantiation error for an unbound ball) before it unwinds; catch/3 captures the outer block before installing its own; the recovery clause restores the outer block, fetches a copy of the ball, parks it and hands it to handle_ball/3, which unifies ball and catcher in its head, commits and calls the recovery, or restores the ball and unwinds again; set_ball stores a copy, unwind_stack cuts to the innermost block and fails, the block and ball-stack primitives do what those clauses need; every error a builtin raises (266 Err(stub) sites, 65 Err(generator) sites, 371 direct throws) is built by error_form, i.e. is error(Formal, Context); every cut that prunes choice points gives the installed cleanups a chance to run, and the loops running pending cleanups go on when one fails. The rest of setup_call_cleanup/3's Prolog driver and the undoing of bindings (C11) are not decided here."),
    "C22": ("path-condition rules over the clause trees of the atom/character predicates in builtins.pl (plread); match-arm rule over the typed HIR of the Rust primitives",
            "Decides the error clause only: every call of the primitives '$atom_length', '$atom_chars', '$atom_codes', '$char_code' in atom_length/2, atom_chars/2, atom_codes/2, char_code/2, atom_concat/3, sub_atom/5 and their helpers is reached only under a succeeded type test of each argument; every throw there is error(E, PI) with E an ISO error term and PI the predicate's own indicator; the culprit of a type or domain error is the argument whose matching test failed on that path, and an instantiation error follows a var test; in the Rust primitives the arm for an arbitrary-precision integer does not unwrap its narrowing to a machine integer (a code beyond the small-integer range is a representation error, not a panic); each of the 27 classification tests of the char_type/2 primitive tests the class its atom names, the two case conversions call the conversion their functor names, and charsio.pl enumerates exactly the implemented classes. The solution sequences of the enumerating modes and the string results are not decided."),
    "C25": ("goal-order and variable-plumbing rules over the findall/forall clauses (plread) + effect summaries of the lifted-heap primitives (typed HIR)",
            "Decides the collection protocol under every all-solutions predicate: findall/3 and findall/4 remember the length of the solution store before iterating, iterate under catch/3 and on an error cut the store back to that length and re-throw; the iteration predicate calls the goal, copies the template to the store after each solution and fails back; its last clause hands over what was collected since the remembered length; forall/2 is \\+ (G, \\+ T); '$copy_to_lh' stores a copy, '$get_lh_from_offset[_diff]' copies back and cuts the store to the offset given; bagof/3 and setof/3 are the same goal sequence up to keysort/2 vs sort/2, order the pairs after the variant witnesses were made identical, and group by the free variables minus the ^-quantified ones (set difference by identity). The grouping algorithm itself (split_by_variant), countall/2 and call_nth/2 are not decided."),
    "C03": ("table agreement between the two evaluators over typed HIR (custom rustc driver)",
            "Decides completely the clause 'both evaluators are the same function of their operands': per evaluable functor the compiled instruction handler and the run-time tree walker reach the same implementation functions with the same constant arguments; key sets coincide; operand fetch is shared. Correctness of the shared implementations is C01/C02."),
    "C04": ("oracle-table and sibling-agreement rules over typed HIR (custom rustc driver)",
            "Decides that the six comparison predicates are the six correct outcome sets of one ordering function in all 24 instruction variants and in the generated name/variant tables, and that Ord/PartialEq for Number have one explicit arm per representation pair, go through f64 exactly when a float is involved, and agree arm by arm."),
    "C05": ("guarded-construction rule (RF3/RF4) over typed HIR + whole-crate call facts",
            "Decides that every arena allocation of a big integer sits in the failure branch of a small-integer range test (computed integers are canonical) or is a recorded exception, that the cross-representation consumers have arms for every integer encoding, and that a clause keyed by an integer with two spellings continues each key's choice sequence by that sequence's own length."),
    "C06": ("routing-table rule over typed HIR + MIR dominance for float interning + who-may-call",
            "Decides that first-argument index keys are compared by value: only tag classes with one bit pattern per value reach the constant hash table, floats are interned by value before allocation, lookup sites look up the cell they dispatched on, index construction/removal use the same key functions, a two-clause choice sequence follows the direction of the insertion, the try/retry kind of an entry comes from the emptiness of the sequence it is pushed onto, and the guard that merges a prepended clause into its neighbour's block compares two different clauses."),
    "C13": ("oracle-table / key-type rules over typed HIR and type facts",
            "Decides the category order, the tag->category table, the key type compared per category ((arity,name) for compounds, textual atoms), the Ordering->TermPair->Option<Ordering>->atom translations and the outcome sets of the 24 term-comparison arms. The argument traversal is not decided."),
    "C14": ("effect-summary rule over typed HIR (resolved std sort callee)",
            "Decides the builtins clause only: sort/2 sorts by the standard-order comparator then removes compare-equal neighbours; keysort/2 uses a stable std sort whose comparator reads only the keys. The Prolog collection libraries are not decided."),
    "C16": ("configuration / fallback-shape / radix-table rules over typed HIR + shared-reader reachability on the call graph",
            "Decides that the reader's float parser is never configured lossy and is the only float parser of the reader, that the machine-word integer parse falls back to the big-integer parse and is range-checked, that the radix prefixes are wired to the right radix and digit class, that a digit separator is accepted only between two digits, and that number_chars/number_codes read through the same lexer and print through the same float formatter as read_term/write. Digit-level correctness of lexical/dashu/ryu is trusted."),
    "C17": ("panic budget (RF5) over MIR call/assert facts of the reader scope against a triaged table; interprocedural must-pass-through (lexer progress) over MIR CFGs; match-arm rules over typed HIR",
            "Decides the no-panic clause (the multiset of potentially panicking constructs — unwrap/expect, panic!/assert!, Index/slice ops, integer division, overflowing multiplications — in the reader bodies reachable from the reader entry points does not exceed the triaged table) and the progress half of the resynchronisation clause (no lexical error leaves Lexer::next_token without having consumed input; a decoder error is not taken for the end of the input and its bytes are consumed; the end-of-file error is made only where the reader reported no more input). Skipping the rest of the offending clause is decided too and fails: recorded known finding. Termination of the parser proper and the terms read are not decided."),
    "C18": ("panic budget of the decoder scope, guarded-range rule, enum-dispatch sibling agreement of Stream's input methods",
            "Decides that chunk boundaries and truncated input cannot reach a new panicking construct in CharReader or a CharRead/Read impl, that every constant-bounded range used to drain/slice the decode buffer is inside a branch establishing the bound, that peek/read/put_back/consume/read forward for the same stream kinds (each feature configuration in the thorough tier), and that the consuming reads skip the invalid bytes they report (so the characters after an invalid sequence are delivered) while no peek goes through the skipping entry, and no refill of the decode buffer discards bytes that were not yet read. The decoded values are not decided."),
    "C19": ("enum-dispatch sibling agreement over `Stream`, who-may-consume rule for peek builtins, inverse-table agreement",
            "Decides the interface clauses: every stream kind is handled consistently across the input, output, line-count and past-end sibling groups; peek_char/peek_code/peek_byte call no consuming stream method; the eof_action atom tables are mutually inverse; the three places that classify a position against the length agree that only beyond the length is past the end; the character-level readers count the newlines they consume; and the end of the input after nothing but layout is end_of_file, not the end of a partial term; the position of a buffered in-memory stream does not count what its decoder has only buffered, and a stream whose position cannot be asked is not past its end. Payload round-trips and position values are not decided."),
    "C20": ("exhaustive-sibling rule over every HeapCellValueTag match; sibling agreement inside compare_pstr_slices",
            "Decides the representation clause: every tag dispatch that names the list cell also names the packed-string cell (and conversely) or is a reasoned exception, and every tail index returned by the string-segment comparison is computed from the same slice's scanned tail and cell offset; the walkers that turn a string into a list continue in both spellings; two strings are ordered by whole code points (the decoding window spans a UTF-8 sequence); a structure cell is taken for a list cell only after its functor was read; a location inside a string advances by bytes and the tail cell is found from the terminator; a NUL inside an instruction's string literal is not taken for the literal's end. Offset arithmetic elsewhere is not decided."),
    "C21": ("table agreement between the build-script crate and atom_table.rs; who-may-fabricate atoms; lookup-dominates-allocation (MIR)",
            "Decides that the inline/interned split, its length constant and its bit encoding are the same function of the text at build time and at run time, that raw atom values are fabricated only at listed decoders, that interning looks the text up before allocating, that table hash/equality and atom order go through the text, and that every caller of the inline-only text accessor also handles the atoms stored in the static and the shared table."),
    "C28": ("must-pass-through and dominance over MIR CFGs of QueryState::next / Machine::run_query; stub-frame effect table",
            "Decides the acquire/release structure of an embedded query: the ball is copied with alignment and cleared on every reporting path, the stub choice point is fully initialised (heap mark = current top) and pushed before the goal starts, the success continuation is set, the end test compares with this query's stub, Drop releases relative to that stub and forgets every setup_call_cleanup/3 block installed above it, restoring the block that was current below the lowest of them; every cell kind of an answer yields a term and anonymous variables of one answer get distinct names. Answer contents are not decided."),
    "C30": ("type-resolved escape-hatch rule over every Result<_, AllocError> expression in the crate",
            "Decides error discipline over every allocation site: no value of type Result<_, AllocError> is unwrapped, expect'ed, optioned, tested-and-dropped or discarded outside the reasoned exception table; resource errors are thrown from the pre-allocated term in one place; a failed growth leaves the capacity unchanged; the term copier puts the source term's cells back on every exit, including the allocation-failure exits (must-pass-through over its MIR CFG), and records every mark in its trail before anything that can fail; every choice point records the current heap top."),
    "C31": ("loop-structure rule over typed HIR of both dispatch loops; MIR order of swap/throw/backtrack; accessor table of the INTERRUPT static",
            "Decides the polling structure: both instruction loops poll on every outer cycle after an inner loop bounded by a wrapping u8 counter, no labelled continue skips the poll, the poll clears the flag atomically and raises through throw+backtrack, (or, if the poll only throws, every poll site tests the result and backtracks), a poll that backtracks is called only where the next thing is a dispatch on p (builtins that wait return the interrupt as their error), the poll is not taken while the block register names a popped frame, and only the signal handler sets the flag. Timing is not decided."),
    "C32": ("dominance rules over the MIR CFG of AtomTable::build_with; who-may-call for atom-table mutators",
            "Decides the lock discipline: every mutation of the shared atom table is dominated by the update lock and by the re-validation of both snapshots (allocation epoch and atom-list epoch), a detected race retries without mutating, the text is written before the set is published, the lock is released after the last publication, the inline fast path is lock-free, and nobody else mutates the table. arcu's interleaving semantics are trusted."),
    "C33": ("guarded raw write by linear arithmetic with case splits over typed HIR; section construction and reserve/size-function pairing",
            "Decides, symbolically for every fill level, that the bytes written by Heap::append/copy_pstr_within/copy_slice_to_end are covered by the dominating free_space() guard and equal the advance of the heap top; push_cell's single-cell shape; grow commits capacity only on success; sections come only from reserve; each section writer reserves exactly through its paired size function. Equality of size function and bytes written is not decided."),
    "C34": ("call-graph SCC table and recursive-type table (RF8)",
            "Decides that no native recursion proportional to term size exists outside the triaged tables: every call-graph cycle and every recursive data type (whose drop/clone glue recurses) is listed with a bound or as a finding. parser::ast::Term's glue recursion is a recorded known finding (deep/long terms overflow the native stack)."),
    "C37": ("name/implementation agreement per atom-keyed arm; Prolog fact list vs Rust arms; base64 option table",
            "Decides the algorithm-selection clause: each algorithm atom constructs the hasher/constant it names, crypto.pl's hash_algorithm/1 facts equal the implemented set, and chars_base64 options select the matching engine (or a hand-built configuration sets decode padding together with encode padding), and the constants of the UTF-8 encoder and decoder of chars_utf8bytes/2 are those of RFC 3629 and agree with each other; the two AEAD directions construct the same cipher from the same key and nonce arguments. Byte-level results of the hash and base64 crates are the libraries'."),
    "C43": ("Prolog clause tables (plread) vs Rust decoder/encoder; validators-before-'$op'; priority-0 filter in every table reader",
            "Decides the validation tables: specifier atoms agree across Prolog, Rust decoder and encoder; priority bounds are 0..1200; ',' [] {} are refused and '|' restricted in both the atom and the list form; every '$op' is preceded by the validators; priority 0 removes and every reader of the table skips priority-0 entries; current_op's direct lookup needs all arguments bound; OpDecl::submit answers Ok only after writing and writes only after both halves of the infix/postfix exclusion were tested; the list form checks the exclusion for all names first; who writes the table without submit (three loader functions do: recorded known finding). Histories are not decided."),
    "C44": ("clause-table agreement (plread) between current_prolog_flag/2, set_prolog_flag/2 and the Rust getters/setters",
            "Decides that each flag is produced the same way when given and when enumerated (binding, not comparing), that read-only flags accept exactly their own value, that Prolog atoms, Rust setter atoms and getter atoms coincide and are mutually inverse, that bad values end in flag_value domain errors, that both predicates end with the flag/type error clauses, and that the occurs_check setters install objects reporting the set value head unification honours the flag, and each value of the unknown flag reaches the branch of the undefined-procedure path that implements it."),
    "C45": ("effect summary and data flow of read_term_body / write_read_term_options over typed HIR; reachability from both readers",
            "Decides the plumbing clause only: how variables/1, variable_names/1 and singletons/1 are derived from the term just read. The first-occurrence index of every variable is its position in an insertion-ordered table filled by one preorder traversal of the term; a second sighting clears the occurs-once flag; variables/1 and variable_names/1 are both built from the variable list sorted ascending by that index, variable_names/1 leaving out only the anonymous variable; singletons/1 keeps the non-anonymous variables whose flag is still set (so _-prefixed ones are included); both readers bind the options through this function, which delivers the lists once and only after the traversal; every variable the term writer writes (named or anonymous, at the root or below) enters the dictionary the lists are made from, an anonymous one under a key made from its own cell. The traversal order of the iterator is not decided."),
    "C48": ("type-resolved escape-hatch rule over the typed HIR of the file-system primitives; path-condition rules over files.pl (plread)",
            "Decides error discipline and argument checking: none of the 13 Rust primitives behind library(files) unwraps or expects an io::Result (the file system may change between two system calls of one primitive, for any sequence of operations by other processes); every path argument of every primitive in files.pl has passed must_be(chars, _) before the call, directly or through the existence helpers, whose tests begin with that type test; the existence helpers throw existence_error for the path whose test failed and exported predicates pass their own indicator as context. Agreement of the answers with the operating system is not decided."),
    "C49": ("path-condition rules over the clause trees of between/3, numlist/3, length/2 and succ/2 (plread)",
            "Decides the argument-checking clause only: every arithmetic comparison or is/2 that reads an argument is reached only where the path has established that the argument is an integer (must_be, integer/1, can_be with nonvar, or the success of '$skip_max_list' for the length bound); succ/2 decrements only a number it has tested positive; every error helper call names the predicate it is in, a domain error is raised only for an argument known to be an integer, and length/2's error clauses come in the order domain error (after integer(N), !) then type error. The tuples enumerated, their order and termination are not decided."),
    "C50": ("sibling agreement of in-memory and stream read/write paths over typed HIR and the call graph",
            "Decides the shared-core clause: write_term and write_term_to_chars take their printer from the same constructor with the same operator table; stream and from-chars readers use the same parser entry, operator source, heap writer and option writers on success and on end of input; the names write_term_to_chars/3 fabricates for unnamed variables are distinct (one radix for letter and suffix, counter advanced past the name taken); read_term/3 unifies its term argument only after the option lists were made. Equality of results beyond sharing is not decided."),
    "C52": ("match-arm rules over the typed HIR of Machine::random_integer / Machine::set_seed; path-condition rules over random.pl (plread)",
            "Decides range construction, representation coverage and the error clause: '$random_integer' has arms for the four combinations of small and arbitrary-precision bounds, each fails when lower >= upper and draws from the half-open range built from its own lower and upper bound in that order, and unifies the value in both representations; '$set_seed' narrows no seed through an unwrap (every integer is a seed) and reseeds the generator from the integer matched; random.pl reaches the primitives only after integer/1 succeeded for each bound and Lower < Upper, and its errors name the predicate and the argument whose test failed; random/1 divides an integer below 2^k by the same 2^k, k <= 53. The values drawn, their distribution and the determinism of the rand crate are not decided."),
    "C55": ("printer/lexer character-class agreement from macro-expansion origins; special-case tables",
            "Decides that the printer's unquoted-atom decision uses the lexer's classes for first character and continuation, that the only special graphic starts are '/*' and a lone '.', that [] and {} are the only bracket atoms, and that the solo characters needing quotes are the oracle list. Spacing and operator printing are not decided."),
}

NA = {
    "C08": "equality of answer sequences of static/dynamic/meta-called execution over all programs: a value-level property of generated code; no clause fixed by code shape beyond what C07/C09 check",
    "C15": "round-trip equality of printed and re-read terms over all terms/operator tables is value-level; the only structural clause (character-class agreement) is claimed under C55",
    "C23": "value-level results of term construction/inspection builtins",
    "C24": "termination and pointer-reversal restoration on cyclic terms depend on graph shape; no sound termination analysis in reach",
    "C26": "order-insensitivity of dif/freeze/when quantifies over histories of constraint posts in Prolog libraries",
    "C27": "clp(Z) propagator semantics (8k lines of Prolog): soundness/completeness is value-level",
    "C29": "toplevel output text of toplevel.pl for all queries: run-time strings",
    "C35": "equality of machine footprint across load histories: run-time sizes",
    "C36": "text produced by format/2 (a Prolog DCG) for all directive/argument values",
    "C38": "answer sets of Prolog libraries over continuations/tabling",
    "C39": "semantics preservation of a Prolog-to-Prolog translator (DCG)",
    "C40": "inference counts at run time and monotonicity in the limit",
    "C41": "JSON parser/generator written in Prolog; round-trip equality is value-level",
    "C42": "which definition answers a call over all module layouts (loader run-time state)",
    "C46": "BDD semantics of clp(B) in Prolog",
    "C47": "lazy vs. eager parsing equality over buffer boundaries: run-time values",
    "C51": "CSV Prolog DCG round-trip",
    "C53": "graph-theoretic results of Prolog code",
    "C54": "solution-set equivalence of reified conditionals in Prolog",
}

PENDING = "check planned in DESIGN.md section 3 but not built yet"


def main():
    props = [json.loads(l) for l in open(os.path.join(HERE, "properties.jsonl"))]
    checks = []
    na = []
    for p in props:
        pid = p["id"]
        if pid in CLAIMED:
            tech, text = CLAIMED[pid]
            checks.append({
                "property_id": pid,
                "quick_cmd": "./check %s --tier quick" % pid,
                "thorough_cmd": "./check %s --tier thorough" % pid,
                "evidence_file": "evidence/%s.json" % pid,
                "replay_cmd_template": "./check %s --replay {path}" % pid,
                "engine": "rules",
                "level_claimed": {"category": "other", "text": text, "design_ref": "DESIGN.md section 3, %s" % pid},
                "level_note": TRUST,
                "technique": "static analysis: " + tech,
            })
        else:
            na.append({"property_id": pid, "reason": NA.get(pid, PENDING)})
    m = {
        "version": 1,
        "setup_cmd": "./setup.sh",
        "hooks": {
            "guard": "scryer_verif",
            "enable": "none needed: the checks analyse /repo's sources through a rustc driver (RUSTC_WORKSPACE_WRAPPER under cargo +nightly check); no instrumentation of /repo exists",
            "baseline_off_cmd": "cd /repo && cargo nextest run --workspace --no-fail-fast --tool-config-file pb:/w/lib/nextest.toml --profile pb --test-threads 8 --offline",
            "source_commits": [],
            "add_only": True,
        },
        "engines": [
            {"name": "sfacts", "path": "engines/sfacts", "serves_properties": sorted(CLAIMED),
             "kind_free_text": "rustc_private driver (nightly) dumping items, MIR, typed HIR, type facts and call edges of /repo's current tree as JSON"},
            {"name": "rules", "path": "engines/rules", "serves_properties": sorted(CLAIMED),
             "kind_free_text": "python3 rule engine: CFG/dominators, call graph, HIR queries; one module per property"},
        ],
        "checks": checks,
        "not_applicable": na,
        "notes": "Technique family: static analysis only. Every check re-extracts facts from /repo's working tree when its hash changed (cache under .cache/, rebuilt by setup.sh). Exit 2 = /repo does not type-check, exit 3 = the check lost its anchor (no verdict).",
    }
    json.dump(m, open(os.path.join(HERE, "MANIFEST.json"), "w"), indent=1)
    print("claimed %d, not applicable %d" % (len(checks), len(na)))


if __name__ == "__main__":
    main()
