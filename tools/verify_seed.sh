#!/bin/bash
# usage: tools/verify_seed.sh <worktree> <dir-with-patch.diff-and-demo.sh> [skip-suite]
# Confirms a seeded change in a scratch worktree (never /repo): the patch applies and builds, the
# demonstration fails with it, the existing test suite still passes with it (only baseline
# always-fail tests may fail), and the demonstration passes again after the patch is reverted.
# Writes <dir>/verify.log and prints a one-line verdict.
set -u
wt=$(readlink -f "$1"); d=$(readlink -f "$2"); skip=${3:-}
log=$d/verify.log
: > "$log"
cd "$wt" || exit 9
git checkout -q -- . 2>>"$log"
git apply --check "$d/patch.diff" >>"$log" 2>&1 || { echo "VERDICT $d: patch does not apply"; exit 1; }
git apply "$d/patch.diff"
cargo build --offline >>"$log" 2>&1 || { git checkout -q -- .; echo "VERDICT $d: does not build"; exit 1; }
( cd "$d" && timeout 600 bash ./demo.sh "$wt/target/debug/scryer-prolog" ) >>"$log" 2>&1
with=$?
echo "demo with patch exit=$with" >>"$log"
suite="skipped"
if [ -z "$skip" ]; then
  cargo nextest run --workspace --no-fail-fast --tool-config-file pb:/w/lib/nextest.toml --profile pb --test-threads 6 --offline > "$d/verify_suite.log" 2>&1
  # failing tests other than the baseline always-fail set?
  bad=$(grep -E "^\s+FAIL " "$d/verify_suite.log" | grep -vE "cli_tests|issue_delete_directory|issue_delete_file|issue_directory_files|issue_file_copy|issue_file_exists|issue_file_size|issue_file_time|issue_make_directory|issue_make_directory_path|issue_path_canonical|issue_rename_file" | sort -u | wc -l)
  summ=$(grep -E "Summary" "$d/verify_suite.log" | tail -1)
  suite="unexpected_failures=$bad; $summ"
  echo "suite: $suite" >>"$log"
fi
git checkout -q -- .
cargo build --offline >>"$log" 2>&1
( cd "$d" && timeout 600 bash ./demo.sh "$wt/target/debug/scryer-prolog" ) >>"$log" 2>&1
without=$?
echo "demo without patch exit=$without" >>"$log"
echo "VERDICT $d: demo_with_patch=$with demo_without_patch=$without suite=[$suite]" | tee -a "$log"
