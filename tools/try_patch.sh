#!/bin/bash
# usage: tools/try_patch.sh <patch.diff> <Cxx> [<Cyy> ...]
# Applies a patch to /repo, runs the named checks (quick tier) against it, and ALWAYS restores
# /repo afterwards. Used only to validate the checkers against seeded breakage; never part of a
# registered check.
set -u
patch=$(readlink -f "$1"); shift
cd /verif
if ! git -C /repo diff --quiet; then echo "repo has uncommitted changes"; exit 9; fi
git -C /repo apply "$patch" || { echo "patch does not apply"; exit 9; }
trap 'git -C /repo checkout -- . ; echo "[repo restored]"' EXIT
for id in "$@"; do
  ./check "$id" --tier quick > /tmp/try_$id.out 2>&1
  rc=$?
  echo "== $id exit=$rc"
  grep -E "violated:|VIOLATION|ANCHOR-LOST|BUILD-FAILED|CHECK-ERROR|KNOWN-FINDING" /tmp/try_$id.out | head -12
done
