#!/usr/bin/env python3
"""Rewrite the obligation count at the end of each `### Cxx ... — N` header of DESIGN.md section 3 from
evidence/Cxx.json (quick tier, as written by the last `./check ALL` on the unchanged tree)."""
import json
import os
import re

HERE = os.path.dirname(os.path.dirname(os.path.abspath(__file__)))
p = os.path.join(HERE, "DESIGN.md")
s = open(p).read()


def fix(m):
    pid = m.group(1)
    ev = os.path.join(HERE, "evidence", pid + ".json")
    if not os.path.exists(ev):
        return m.group(0)
    e = json.load(open(ev))
    if e.get("tier") != "quick" or e.get("violations"):
        return m.group(0)
    n = e["coverage"]["obligations"]
    return "%s — %d" % (m.group(2), n)


s2 = re.sub(r"^((?:### )(C\d\d) .*?) — \d+$", lambda m: fix(type("M", (), {"group": lambda self, i: {0: m.group(0), 1: m.group(2), 2: m.group(1)}[i]})()), s, flags=re.M)
open(p, "w").write(s2)
print("headers updated" if s2 != s else "no change")
