#!/usr/bin/env python3
"""Regenerates the RF5 panic-budget tables from /repo's current tree. Run by hand, after reading the
constructs it prints, when the tree has been reviewed (never by a registered check).
usage: python3 tools/freeze_budget.py"""
import os
import sys

HERE = os.path.dirname(os.path.dirname(os.path.abspath(__file__)))
sys.path.insert(0, os.path.join(HERE, "engines"))
from rules import core, panicbudget, scopes  # noqa: E402

DISP = {
    "unwrap": "read: pop()/last() after a push on the same path, or conversion of a value already validated by the caller",
    "panic": "read: internal invariant assertion not controlled by the input text",
    "index": "read: index guarded by the surrounding length/position test (parser stack depth, buffer position <= len)",
    "bounds": "read: constant-size array index",
    "div0": "read: divisor is a non-zero constant",
    "div-overflow": "read: divisor is a positive constant",
    "slice-op": "read: range built from positions already compared with the length",
    "int-arith": "read: multiplication/shift on a value bounded by a constant or by the buffer size",
    "refcell": "read: no re-entrant borrow on the path",
    "char-conv": "read: argument range-checked by the digit-class test",
}

F = core.Facts(core.ensure_facts())
n, t = panicbudget.freeze(F, "c17_reader", scopes.reader_scope(F), DISP,
                          "reader scope: bodies of lexer.rs/parser.rs/read.rs reachable from Parser::read_term, Lexer::next_token, next_number_token and the read.rs term writers")
print("c17_reader", n, "entries", t, "constructs")
n, t = panicbudget.freeze(F, "c18_decoder", scopes.decoder_scope(F), DISP,
                          "decoder scope: char_reader.rs and every CharRead/Read impl in streams.rs; frozen AFTER the fix: commits d5f921a (three panics removed) and ab3792d")
print("c18_decoder", n, "entries", t, "constructs")
