"""C30 — Memory exhaustion at any allocation raises a catchable error.

Decides error discipline for AllocError, over EVERY expression of type Result<_, AllocError>
in the crate (this quantifies over every allocation site, which is exactly the fault space of
the property): the value is propagated (`?`, return, tail value, argument of a constructor),
matched / if-let'ed (the step_or_resource_error!, resource_error_call_result! and
backtrack_on_resource_error! expansions are matches), or converted by a Result combinator —
never unwrapped, expect'ed, turned into an Option, tested-and-dropped or discarded. The
conversion AllocError -> Prolog exception happens only in throw_resource_error, which uses the
pre-allocated error term. Sites that run before any goal can run are on the exception table.
"""
import re

from .core import AnchorLost, hir_calls, short, walk

EXPLANATION = (
    "RF5 escape-hatch rule, type-resolved: every typed-HIR expression whose type is "
    "Result<_, machine::heap::AllocError> is classified by its consumer (parent node). Consumers "
    "that swallow or panic (unwrap, expect, ok, is_ok/is_err outside a condition, unwrap_or*, "
    "`let _ =`, statement position) are violations unless the enclosing function is on the exception "
    "table. RF4: who calls throw_resource_error / who builds resource errors."
)
ASSUMPTIONS = ["Heap/Stack growth reports failure through AllocError (their own unsafe code is C33's subject)"]

AE = re.compile(r"Result<.*machine::heap::AllocError>$")
BAD = {"unwrap", "expect", "ok", "unwrap_or", "unwrap_or_else", "unwrap_or_default", "is_ok", "is_err", "unwrap_unchecked", "err", "unwrap_err", "expect_err"}
EXCEPTIONS = {
    "machine::machine_state_impl::<impl machine::machine_state::MachineState>::new": "machine construction: runs before any goal; no handler could run",
    "machine::heap::Heap::store_resource_error": "machine construction: stores the pre-allocated resource-error term itself",
    "<offset_table::OffsetTableImpl<T> as std::default::Default>::default": "machine construction (code-index / float tables)",
    "offset_table::SerialOffsetTable::<T>::build_with": "growth of the code-index / float offset table (not the heap): unwrap on grow failure; recorded observation, needs address-space exhaustion while interning a float or a predicate",
    "offset_table::ConcurrentOffsetTable::<T>::build_with": "same, concurrent table",
    "atom_table::AtomTable::build_with": "growth of the atom table block (grow_new().unwrap()): recorded observation, not the Prolog heap",
    "machine::lib_machine::<impl machine::Machine>::run_query": "embedding API: expect() on the stub choice point / query term allocation before the goal starts; recorded observation",
}


def run(ctx, R):
    F = ctx.facts()
    R.rule("RF5 every Result<_, AllocError> expression is propagated, matched or converted — never unwrapped, optioned or dropped; RF4 resource errors raised in one place")
    counts = {}
    bad_seen = {}
    n_total = 0

    def rec(n, anc, fn):
        nonlocal n_total
        if isinstance(n, list):
            for x in n:
                rec(x, anc, fn)
            return
        if not isinstance(n, dict):
            return
        if "k" in n and n["k"] in ("Call", "MethodCall", "Path") and AE.search(n.get("ty") or ""):
            n_total += 1
            par, key = anc[-1] if anc else (None, None)
            cls = "other"
            if par is not None:
                if par["k"] == "Match" and key == "scrut":
                    cls = "match"
                elif par["k"] == "LetCond":
                    cls = "if-let"
                elif par["k"] == "MethodCall" and key == "recv":
                    if par["name"] in BAD:
                        cls = "BAD:" + par["name"]
                        if par["name"] in ("is_ok", "is_err"):
                            # a test inside a condition whose branch handles the failure is a match in disguise
                            gp = anc[-2][0] if len(anc) >= 2 else None
                            gk = anc[-2][1] if len(anc) >= 2 else None
                            if gp is not None and ((gp["k"] == "If" and gk == "cond") or (gp["k"] == "Unary" and len(anc) >= 3 and anc[-3][0]["k"] == "If")):
                                cls = "condition"
                    else:
                        cls = "combinator:" + par["name"]
                elif par["k"] == "Let":
                    cls = "DISCARD" if par["pat"]["k"] == "PWild" else "let"
                elif par["k"] == "Ret":
                    cls = "return"
                elif par["k"] == "Block" and key == "expr":
                    cls = "tail"
                elif par["k"] == "Block" and key == "stmts":
                    cls = "DISCARD"
                elif par["k"] == "Call":
                    cls = "argument"
                elif par["k"] in ("Closure", "Arm", "If", "Struct", "Tup", "AddrOf", "Break"):
                    cls = "value"
            counts[cls] = counts.get(cls, 0) + 1
            if cls.startswith("BAD") or cls == "DISCARD":
                bad_seen.setdefault((fn, cls), []).append(n["ln"])
        if "k" in n:
            for k, v in n.items():
                if isinstance(v, (dict, list)):
                    rec(v, anc + [(n, k)], fn)
        else:
            for v in n.values():
                if isinstance(v, (dict, list)):
                    rec(v, anc, fn)

    fns = [p for p, it in sorted(F.items.items()) if it["kind"] in ("Fn", "AssocFn") and it["file"].startswith("src/")
           and "::tests::" not in p and "::test::" not in p and not it["file"].endswith("mock_wam.rs")]
    for p in fns:
        rec(F.hir(p)["body"], [], p)
    R.floor("Result<_, AllocError> expressions", n_total, 400)
    R.notes.append("consumers: %s" % dict(sorted(counts.items())))
    good = sum(v for k, v in counts.items() if not (k.startswith("BAD") or k == "DISCARD"))
    R.ob("C30:alloc-results:handled-sites", good >= 400, "%d allocation results are propagated / matched / converted" % good, "crate-wide")
    used_exc = set()
    for (fn, cls), lines in sorted(bad_seen.items()):
        exc = EXCEPTIONS.get(fn)
        key = "C30:alloc-error-escape:%s:%s" % (short(fn), cls.replace("BAD:", ""))
        if exc:
            used_exc.add(fn)
            R.ob(key + ":exception", True, "%d site(s); listed: %s" % (len(lines), exc), F.where(fn))
        else:
            R.ob(key, False,
                 "%d allocation result(s) of type Result<_, AllocError> consumed by `%s` at line(s) %s: running out of memory at this allocation panics or is "
                 "silently ignored instead of raising resource_error(memory)" % (len(lines), cls.replace("BAD:", "."), lines), F.where(fn))
        R.sample({"fn": short(fn), "consumer": cls, "lines": lines, "exception": bool(exc)})
    # ---- a failed growth must leave the heap's capacity untouched, or the NEXT exhaustion is not an error but an
    # out-of-bounds write (obligations computed by the C33 rule on InnerHeap::grow)
    from . import c33
    from .core import Result
    sub = Result("C33")
    c33.run(ctx, sub)
    n_g = 0
    for k, ok, d, w in sub.obligations:
        if k.startswith("C33:grow:"):
            n_g += 1
            R.ob("C30:" + k[4:], ok, d, w)
    R.floor("grow obligations", n_g, 3)
    # ---- "after recovery, later goals compute correct results": the copier overwrites cells of the SOURCE term with
    # forwarding pointers while it works and puts them back in unwind_trail; an allocation failure half-way must not
    # return before that (RF3 must-pass-through over the MIR CFG of copier::copy_term)
    from .core import CFG, callee_of
    ct = F.find("copier::copy_term")
    cfg = CFG(F.mir(ct))
    marking = cfg.call_blocks(lambda t: re.search(r"CopyTermState::<.*>::(copy_term_impl|copy_attr_var_lists)$", callee_of(t)))
    undo = set(cfg.call_blocks(lambda t: re.search(r"CopyTermState::<.*>::unwind_trail$", callee_of(t))))
    if not marking or not undo:
        raise AnchorLost("copier::copy_term no longer calls copy_term_impl/copy_attr_var_lists and unwind_trail (found %d/%d)" % (len(marking), len(undo)))
    R.floor("copier phases that mark the source term", len(marking), 2)
    for b in marking:
        name = callee_of(cfg.blocks[b]["t"]).rsplit("::", 1)[-1]
        ok, wit = cfg.must_pass(b, undo)
        R.ob("C30:copier:source-restored-on-every-exit-after:%s" % name, ok,
             "copy_term can return (bb%s) after %s without passing through unwind_trail: when the copy runs out of memory the forwarding "
             "pointers stay in the source term, so after catch/3 has handled resource_error(memory) the original term is corrupt" % (wit, name), F.where(ct))
    # the phases that mark must themselves leave by `?`/return only (no swallowing): covered by the consumer rule above
    # ---- each mark is recorded in the copier's trail before anything that can fail: unwind_trail can only put back
    # what was pushed, so a `?` between `target[L] = mark` and `trail.push((TrailRef::..(L), old))` leaves L marked for good
    import json

    def canon(n):
        if isinstance(n, list):
            return [canon(x) for x in n]
        if not isinstance(n, dict):
            return n
        return {k: canon(v) for k, v in n.items() if k not in ("ln", "mac", "span", "adj_ty")}

    def key(e):
        return json.dumps(canon(e), sort_keys=True)

    def target_index(e):
        """L of an expression self.target[L] / self.target.stack()[L]"""
        if e.get("k") == "Index" and any(x.get("k") == "Field" and x.get("name") == "target" for x in walk(e["base"])):
            return key(e["idx"]) if "idx" in e else key(e.get("index") or e.get("i"))
        return None
    n_pairs = 0
    found = {}
    for cp_fn in sorted(p for p, it in F.items.items() if it["file"] == "src/machine/copier.rs" and it["kind"] == "AssocFn" and "CopyTermState" in p):
        body = F.hir(cp_fn)["body"]
        for blk in walk(body):
            if blk.get("k") != "Block":
                continue
            ss = list(blk.get("stmts", [])) + ([blk["expr"]] if "expr" in blk else [])
            pushes, writes = {}, {}
            for i, st in enumerate(ss):
                for x in walk(st):
                    if x.get("k") == "Closure":
                        continue
                    if x.get("k") == "MethodCall" and x["name"] == "push" and x["recv"].get("k") == "Field" and x["recv"]["name"] == "trail" and x.get("args") and x["args"][0].get("k") == "Tup":
                        loc = x["args"][0]["elems"][0]
                        if loc.get("k") == "Call" and re.search(r"copier::TrailRef::\w+$", loc.get("callee") or "") and loc.get("args"):
                            pushes.setdefault(key(loc["args"][0]), (i, x["ln"]))
                    if x.get("k") == "Assign":
                        L = target_index(x["lhs"])
                        if L:
                            writes.setdefault(L, (i, x["ln"]))
                    if x.get("k") == "Call" and re.search(r"mem::replace$", x.get("callee") or "") and x.get("args"):
                        a = x["args"][0]
                        while a.get("k") in ("AddrOf", "Unary", "DropTemps") and ("a" in a or "e" in a):
                            a = a.get("a") or a.get("e")
                        L = target_index(a)
                        if L:
                            writes.setdefault(L, (i, x["ln"]))
            for L, (pi, pln) in pushes.items():
                if L not in writes:
                    continue
                wi, wln = writes[L]
                lo, hi = min(pi, wi), max(pi, wi)
                between = ss[lo + 1:hi + 1] if lo != hi else []
                fallible = [y["ln"] for st in between for y in walk(st) if (y.get("k") == "Match" and str(y.get("src", "")).startswith("TryDesugar")) or y.get("k") == "Ret"]
                found[(cp_fn, wln, pln)] = fallible      # inner blocks are visited later and overwrite the outer verdict
    for k, ((cp_fn, wln, pln), fallible) in enumerate(sorted(found.items())):
        n_pairs += 1
        R.ob("C30:copier:mark-trailed-before-anything-fallible:%s#%d" % (short(cp_fn), k), not fallible,
             "%s overwrites a cell of the source term (line %s) and records it in the copier trail (line %s) with a `?` or return in between (line %s): if that "
             "allocation fails, unwind_trail does not know the cell and the source term stays marked after resource_error(memory) was caught"
             % (short(cp_fn), wln, pln, fallible[:2]), F.where(cp_fn))
    R.floor("copier mark/trail pairs", n_pairs, 8)
    # ---- the pre-allocated error term sits at the bottom of the heap: no choice point may record a heap mark below
    # the current top, or popping it truncates the heap over that term and the next exhaustion throws garbage
    from . import orframe
    for w in orframe.WRITERS:
        wf = F.find_impl("Machine", None, w)
        wb = F.hir(wf)["body"]
        hs = [orframe.resolve(x["rhs"], wb) for x in walk(wb) if x["k"] == "Assign" and orframe.field_chain(x["lhs"])[-2:] == ["prelude", "h"]]
        R.ob("C30:choice-point-heap-mark-is-current-top:%s" % w, len(hs) == 1 and hs[0][-2:] == ["heap", "cell_len()"],
             "%s must record OrFramePrelude.h = heap.cell_len(); found %s. A smaller mark (e.g. 0) makes backtracking to this frame truncate the heap over the "
             "pre-allocated error(resource_error(memory), []) term" % (w, [".".join(h) for h in hs]), F.where(wf))
    # ---- RF4: resource errors are thrown in one place, from the pre-allocated term ---------------------------------
    tr = F.find_impl("MachineState", None, "throw_resource_error")
    th = F.hir(tr)
    calls = [short(r) for _, r, _ in hir_calls(th["body"])]
    R.ob("C30:throw_resource_error:uses-preallocated-term", any("resource_error_offset" in c for c in calls) and not any(re.search(r"functor_writer|allocate_|push_cell|reserve", c) for c in calls),
         "throw_resource_error must build nothing on the exhausted heap; calls %s" % calls, F.where(tr))
    reent = any(n["k"] == "If" and any(x["k"] == "Field" and x["name"] == "throwing_resource_error" for x in walk(n["cond"])) for n in walk(th["body"]))
    R.ob("C30:throw_resource_error:reentrancy-guard", reent, "re-entrancy guard present (a failure while throwing is a recorded, triaged panic)", F.where(tr))
    # the three handling macros expand to a match that calls throw_resource_error
    n_handlers = sum(1 for p, cs in F.calls.items() for c in cs if (c.get("resolved") or c.get("callee")) == tr)
    R.floor("throw_resource_error call sites", n_handlers, 100)
