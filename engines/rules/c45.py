"""C45 — read_term/2's variables/1, variable_names/1 and singletons/1 (plumbing clause only).

Decides how the three option lists are derived from the term just read, not what the parser put into
the term: the first-occurrence index of every variable comes from one preorder traversal of the term
into an insertion-ordered table; a second sighting clears the "occurs once" flag; variables/1 and
variable_names/1 are both built from the variable list sorted by that index, variable_names/1 leaving
out only the anonymous variable; singletons/1 keeps the named variables whose flag is still set; and
both readers (stream and from-chars) bind the options through this one function.
"""
import re

from .core import AnchorLost, hir_calls, pat_leaves, res_name, short, walk

EXPLANATION = (
    "Effect-summary and data-flow rules over the typed HIR of MachineState::read_term_body and "
    "::write_read_term_options: resolved traversal iterator, type of the occurrence table, the "
    "contains_key/insert pattern, the sort key, and the filters of the two name lists; reachability "
    "of read_term_body from both readers on the call graph."
)
ASSUMPTIONS = ["indexmap::IndexMap iterates and indexes in insertion order; stackful_preorder_iter visits the cells of a term in depth-first left-to-right order (C23's traversal, not decided here)"]


def run(ctx, R):
    F = ctx.facts()
    R.rule("RF2 effect summary of read_term_body / write_read_term_options; RF4 both readers go through it")
    rb = F.find_impl("MachineState", None, "read_term_body")
    wo = F.find_impl("MachineState", None, "write_read_term_options")
    hb = F.hir(rb)["body"]
    ho = F.hir(wo)["body"]

    # ---- the occurrence table ------------------------------------------------------------------------------
    tables = [n for n in walk(hb) if n["k"] == "Let" and n["pat"]["k"] == "PBind" and "IndexMap<" in (n["pat"].get("ty") or "") and "bool" in (n["pat"].get("ty") or "")]
    if len(tables) != 1:
        raise AnchorLost("read_term_body: the occurrence table (an IndexMap<_, bool>) was not found (%d candidates)" % len(tables))
    tname = tables[0]["pat"]["name"]
    R.ob("C45:occurrence-table:insertion-ordered", "indexmap::IndexMap<" in tables[0]["pat"]["ty"],
         "the table that gives every variable its first-occurrence index has type %s: the index is the position in an insertion-ordered map" % tables[0]["pat"]["ty"], F.where(rb))
    loops = [n for n in walk(hb) if n["k"] in ("Loop", "ForLoop", "Match") and any(re.search(r"::stackful_preorder_iter$", r) for _, r, _ in hir_calls(n))
             and any(x["k"] == "MethodCall" and x["name"] == "insert" and res_name(x["recv"]) == tname for x in walk(n))]
    R.ob("C45:occurrence-table:filled-by-one-preorder-traversal-of-the-term-read", len(loops) >= 1,
         "the occurrence table must be filled while iterating stackful_preorder_iter over the term just written to the heap (found %d such loops)" % len(loops), F.where(rb))
    # second sighting clears the flag
    flags = []
    for n in walk(hb):
        if n["k"] == "If" and any(x["k"] == "MethodCall" and x["name"] == "contains_key" and res_name(x["recv"]) == tname for x in walk(n["cond"])):
            neg = n["cond"]["k"] == "Unary" and n["cond"].get("op") == "Not"

            def lit_of(br):
                for x in walk(br):
                    if x["k"] == "MethodCall" and x["name"] == "insert" and res_name(x["recv"]) == tname and len(x["args"]) == 2 and x["args"][1]["k"] == "Lit":
                        return x["args"][1]["lit"].get("bool")
                return None
            first, again = (lit_of(n["then"]), lit_of(n.get("else", {}))) if neg else (lit_of(n.get("else", {})), lit_of(n["then"]))
            flags.append((first, again))
    R.ob("C45:occurrence-table:second-sighting-clears-the-flag", flags == [(True, False)],
         "a variable seen for the first time must be entered with flag true and a variable seen again with false; found (first, again) = %s" % flags, F.where(rb))

    # ---- singletons/1 ----------------------------------------------------------------------------------------
    filt = [c for n in walk(hb) if n["k"] == "MethodCall" and n["name"] == "filter" for c in n["args"] if c["k"] == "Closure"]
    if len(filt) != 1:
        raise AnchorLost("read_term_body: the singleton filter closure (%d)" % len(filt))
    cb = filt[0]["body"] if "body" in filt[0] else filt[0]
    anon = any(x["k"] == "MethodCall" and x["name"] == "is_anon" for x in walk(cb))
    reads_flag = any(x["k"] == "MethodCall" and x["name"] == "get" and res_name(x["recv"]) == tname for x in walk(cb))
    other_name_tests = [x["name"] for x in walk(cb) if x["k"] == "MethodCall" and x["name"] in ("starts_with", "as_str", "to_string")]
    R.ob("C45:singletons:named-variables-seen-once", anon and reads_flag and not other_name_tests,
         "singletons/1 must keep exactly the variables that are not the anonymous `_` (is_anon: %s) and whose occurrence flag is still set (reads the table: %s); "
         "tests on the name's text (%s) would drop _-prefixed variables, which the property counts" % (anon, reads_flag, other_name_tests), F.where(rb))

    # ---- variables/1 and variable_names/1 --------------------------------------------------------------------------
    sorts = [n for n in walk(ho) if n["k"] == "MethodCall" and n["name"] in ("sort_by_key", "sort_by", "sort_unstable_by_key") and res_name(n["recv"]) == "var_list"]
    key_is_index = False
    for sc in sorts:
        for c in sc["args"]:
            if c["k"] == "Closure":
                pb = [x for x in walk(c) if x["k"] == "PBind"]
                used = {res_name(x) for x in walk(c.get("body", c)) if x["k"] == "Path"}
                # the closure takes (name, cell, index) and uses only the third component
                tup = [x for x in walk(c) if x["k"] == "PTuple" and len(x.get("pats", [])) == 3]
                body = c.get("body", c)
                while body.get("k") in ("Block", "DropTemps", "Paren") and not body.get("stmts") and (body.get("expr") or body.get("e")):
                    body = body.get("expr") or body.get("e")
                if body.get("k") == "Unary" and body.get("op") in ("Deref", "Deref(None)") or (body.get("k") == "Unary" and "Deref" in str(body.get("op"))):
                    body = body["a"]
                # the key is the index itself, ascending: not Reverse(..), not a negation, not another component
                plain = body.get("k") == "Path"
                if plain and tup and tup[0]["pats"][2]["k"] == "PBind" and res_name(body) == tup[0]["pats"][2]["name"] and sc["name"] in ("sort_by_key", "sort_unstable_by_key"):
                    key_is_index = True
    R.ob("C45:variables-and-names:sorted-by-first-occurrence-index", len(sorts) == 1 and key_is_index,
         "write_read_term_options must sort the variable list by its first-occurrence index before it builds the two lists (sorts found: %d, key is the index: %s)" % (len(sorts), key_is_index), F.where(wo))
    first_stmt_is_sort = False
    ss = ho.get("stmts", [])
    if ss:
        first_stmt_is_sort = any(x is sorts[0] for x in walk(ss[0])) if sorts else False
    R.ob("C45:variables-and-names:both-lists-built-after-the-sort", first_stmt_is_sort,
         "the sort must be the first thing write_read_term_options does, so that variables/1 and variable_names/1 are both built from the sorted list", F.where(wo))
    iters = [n for n in walk(ho) if n["k"] == "MethodCall" and n["name"] == "iter" and res_name(n["recv"]) == "var_list"]
    R.ob("C45:variables-and-names:one-source-list", len(iters) == 2,
         "variables/1 and variable_names/1 must both iterate the same sorted var_list (iterations found: %d)" % len(iters), F.where(wo))
    fm = [c for n in walk(ho) if n["k"] == "MethodCall" and n["name"] == "filter_map" for c in n["args"] if c["k"] == "Closure"]
    if len(fm) != 1:
        raise AnchorLost("write_read_term_options: the variable_names filter (%d)" % len(fm))
    names_tests = [x["name"] for x in walk(fm[0]) if x["k"] == "MethodCall" and x["name"] not in ("is_anon",)]
    R.ob("C45:variable_names:leaves-out-the-anonymous-variable-only", any(x["k"] == "MethodCall" and x["name"] == "is_anon" for x in walk(fm[0])) and not names_tests,
         "variable_names/1 must drop `_` and nothing else (other tests in the filter: %s)" % names_tests, F.where(wo))
    plain_map = [c for n in walk(ho) if n["k"] == "MethodCall" and n["name"] == "map" and n["recv"].get("k") == "MethodCall" and n["recv"]["name"] == "iter" for c in n["args"] if c["k"] == "Closure"]
    R.ob("C45:variables:every-variable-listed", len(plain_map) == 1 and not any(x["k"] in ("If", "Match") for x in walk(plain_map[0])),
         "variables/1 must list every entry of the sorted list (an unconditional map)", F.where(wo))

    # ---- both readers ----------------------------------------------------------------------------------------------
    for label, fn in (("stream", F.find_impl("MachineState", None, "read_term")), ("chars", F.find_impl("Machine", None, "read_term_from_chars"))):
        names = [r for _, r, _ in hir_calls(F.hir(fn)["body"])]
        R.ob("C45:%s-reader:binds-options-through-read_term_body" % label, rb in names,
             "%s must bind variables/variable_names/singletons through read_term_body" % short(fn), F.where(fn))
    R.sample({"occurrence_table": tname, "flags": flags, "sort_key_is_index": key_is_index})
    options_only_after_the_traversal(F, R, rb, wo, hb)
    every_variable_of_the_text_has_its_own_entry(F, R)
    every_answer_of_the_stream_reader_binds_the_options(F, R, rb, wo)


def options_only_after_the_traversal(F, R, rb, wo, hb):
    """read_term_body hands the option lists to write_read_term_options once, after the traversal that fills the occurrence
    table: a second call (a shortcut for `simple` terms) delivers lists that were not derived from the term read — a clause
    whose whole text is one variable is such a term."""
    calls = [x for x in walk(hb) if x["k"] in ("MethodCall", "Call") and (x.get("resolved") or x.get("callee")) == wo]
    loops = [x["ln"] for x in walk(hb) if x["k"] in ("Loop", "ForLoop") and any(re.search(r"::stackful_preorder_iter$", r) for _, r, _ in hir_calls(x))]
    if not loops:
        loops = [x["ln"] for x in walk(hb) if x["k"] in ("Call", "MethodCall") and re.search(r"::stackful_preorder_iter$", x.get("resolved") or x.get("callee") or "")]
    ok = len(calls) == 1 and loops and calls[0]["ln"] > min(loops)
    R.ob("C45:options:written-once-after-the-traversal", ok,
         "read_term_body calls write_read_term_options %d time(s) (lines %s; traversal at line %s): every delivery of variables/1, variable_names/1 and singletons/1 has to come after "
         "the one traversal of the term read" % (len(calls), [c["ln"] for c in calls], loops[:1]), F.where(rb))


def every_variable_of_the_text_has_its_own_entry(F, R):
    """The option lists are made from the dictionary the term writer fills (var_dict). Every arm of write_term_to_heap that
    writes a variable (named or anonymous, at the root or below it) puts it there, and an anonymous variable is keyed by the
    cell that is the variable — a key taken from anything shared by neighbouring variables (the heap length, which an
    anonymous variable does not advance) makes a run of them collide: `f(_,_).` then reports one variable."""
    tw = [p for p in F.items if re.search(r"read::TermWriter::<'a>::write_term_to_heap$|read::TermWriter<.*>::write_term_to_heap$", p)]
    if len(tw) != 1:
        raise AnchorLost("TermWriter::write_term_to_heap (%d)" % len(tw))
    body = F.hir(tw[0])["body"]
    arms = []
    for m in walk(body):
        if m["k"] != "Match":
            continue
        for arm in m["arms"]:
            for leaf in pat_leaves(arm["pat"]):
                v = [y["res"]["def"].rsplit("::", 1)[-1] for y in walk(leaf) if y.get("k") in ("PTupleStruct", "PStruct", "PPath") and re.search(r"TermRef::(AnonVar|Var)$", (y.get("res") or {}).get("def") or "")]
                if v:
                    root = any((y.get("res") or {}).get("def", "").endswith("Level::Root") for y in walk(leaf))
                    arms.append((v[0], root, arm))
    if len(arms) < 4:
        raise AnchorLost("write_term_to_heap: arms for TermRef::Var / TermRef::AnonVar (%d)" % len(arms))
    n = 0
    for v, root, arm in arms:
        ins = [x for x in walk(arm["body"]) if x["k"] == "MethodCall" and x["name"] == "insert" and any(y.get("k") == "Field" and y.get("name") == "var_dict" for y in walk(x["recv"]))]
        n += 1
        key = "C45:term-writer:%s%s" % (v, ":root" if root else "")
        R.ob(key + ":enters-the-dictionary", len(ins) >= 1,
             "write_term_to_heap, arm for %s%s (line %s): the variable is written to the heap but not entered into var_dict, so variables/1 does not report it" % (v, " at the root" if root else "", arm["ln"]), F.where(tw[0]))
        if v != "AnonVar":
            continue
        for x in ins:
            k, val = x["args"][0], x["args"][1]
            if not (k["k"] == "Call" and (k.get("ctor") or "").endswith("VarKey::AnonVar")):
                continue
            kl = {y["res"]["local"] for y in walk(k) if y["k"] == "Path" and "local" in y.get("res", {})}
            vl = {y["res"]["local"] for y in walk(val) if y["k"] == "Path" and "local" in y.get("res", {})}
            if val["k"] == "Path":
                # the value is a local computed earlier in the arm: follow one let
                for lt in walk(arm["body"]):
                    if lt["k"] == "Let" and "init" in lt and lt["pat"].get("name") in vl:
                        vl = {y["res"]["local"] for y in walk(lt["init"]) if y["k"] == "Path" and "local" in y.get("res", {})} - {"self", "term"}
            R.ob(key + ":keyed-by-its-own-cell", bool(kl) and kl <= vl,
                 "write_term_to_heap, arm for AnonVar%s (line %s): the dictionary key is made from %s and the variable's cell from %s: a key that is not the variable's own location "
                 "is shared by a run of anonymous variables (f(_,_) reports one variable)" % (" at the root" if root else "", arm["ln"], sorted(kl), sorted(vl)), F.where(tw[0]))
    R.floor("variable arms of write_term_to_heap", n, 4)


def every_answer_of_the_stream_reader_binds_the_options(F, R, rb, wo):
    """MachineState::read_term answers in three ways: a term was read (read_term_body), the end of the input was met
    (write_read_term_options with empty lists), or an error. A return of plain Ok(()) is an answer whose option lists stay
    unbound: reading again at the end of a stream opened with eof_action(eof_code) answered end_of_file and left
    variables/1, variable_names/1 and singletons/1 unbound, while the first end_of_file bound them to []."""
    rt = F.find_impl("MachineState", None, "read_term")
    body = F.hir(rt)["body"]
    bare = []
    good = 0
    for x in walk(body):
        if x["k"] != "Ret" or x.get("val") is None:
            continue
        e = x["val"]
        calls = [(y.get("resolved") or y.get("callee")) for y in walk(e) if y["k"] in ("Call", "MethodCall")]
        if rb in calls or wo in calls:
            good += 1
        elif e["k"] == "Call" and (e.get("ctor") or e.get("callee") or "").endswith("Ok"):
            bare.append(x["ln"])
    if good < 2:
        raise AnchorLost("MachineState::read_term: returns through read_term_body / write_read_term_options (%d)" % good)
    R.ob("C45:stream-reader:every-answer-binds-the-options", not bare,
         "MachineState::read_term returns plain Ok(()) at line %s: that answer (end_of_file read again from a stream with eof_action(eof_code)) leaves the option lists unbound" % bare, F.where(rt))

