"""C45 — read_term/2's variables/1, variable_names/1 and singletons/1 (plumbing clause only).

Decides how the three option lists are derived from the term just read, not what the parser put into
the term: the first-occurrence index of every variable comes from one preorder traversal of the term
into an insertion-ordered table; a second sighting clears the "occurs once" flag; variables/1 and
variable_names/1 are both built from the variable list sorted by that index, variable_names/1 leaving
out only the anonymous variable; singletons/1 keeps the named variables whose flag is still set; and
both readers (stream and from-chars) bind the options through this one function.
"""
import re

from .core import AnchorLost, hir_calls, res_name, short, walk

EXPLANATION = (
    "Effect-summary and data-flow rules over the typed HIR of MachineState::read_term_body and "
    "::write_read_term_options: resolved traversal iterator, type of the occurrence table, the "
    "contains_key/insert pattern, the sort key, and the filters of the two name lists; reachability "
    "of read_term_body from both readers on the call graph."
)
ASSUMPTIONS = ["indexmap::IndexMap iterates and indexes in insertion order; stackful_preorder_iter visits the cells of a term in depth-first left-to-right order (C23's traversal, not decided here)"]


def run(ctx, R):
    F = ctx.facts()
    R.rule("RF2 effect summary of read_term_body / write_read_term_options; RF4 both readers go through it")
    rb = F.find_impl("MachineState", None, "read_term_body")
    wo = F.find_impl("MachineState", None, "write_read_term_options")
    hb = F.hir(rb)["body"]
    ho = F.hir(wo)["body"]

    # ---- the occurrence table ------------------------------------------------------------------------------
    tables = [n for n in walk(hb) if n["k"] == "Let" and n["pat"]["k"] == "PBind" and "IndexMap<" in (n["pat"].get("ty") or "") and "bool" in (n["pat"].get("ty") or "")]
    if len(tables) != 1:
        raise AnchorLost("read_term_body: the occurrence table (an IndexMap<_, bool>) was not found (%d candidates)" % len(tables))
    tname = tables[0]["pat"]["name"]
    R.ob("C45:occurrence-table:insertion-ordered", "indexmap::IndexMap<" in tables[0]["pat"]["ty"],
         "the table that gives every variable its first-occurrence index has type %s: the index is the position in an insertion-ordered map" % tables[0]["pat"]["ty"], F.where(rb))
    loops = [n for n in walk(hb) if n["k"] in ("Loop", "ForLoop", "Match") and any(re.search(r"::stackful_preorder_iter$", r) for _, r, _ in hir_calls(n))
             and any(x["k"] == "MethodCall" and x["name"] == "insert" and res_name(x["recv"]) == tname for x in walk(n))]
    R.ob("C45:occurrence-table:filled-by-one-preorder-traversal-of-the-term-read", len(loops) >= 1,
         "the occurrence table must be filled while iterating stackful_preorder_iter over the term just written to the heap (found %d such loops)" % len(loops), F.where(rb))
    # second sighting clears the flag
    flags = []
    for n in walk(hb):
        if n["k"] == "If" and any(x["k"] == "MethodCall" and x["name"] == "contains_key" and res_name(x["recv"]) == tname for x in walk(n["cond"])):
            neg = n["cond"]["k"] == "Unary" and n["cond"].get("op") == "Not"

            def lit_of(br):
                for x in walk(br):
                    if x["k"] == "MethodCall" and x["name"] == "insert" and res_name(x["recv"]) == tname and len(x["args"]) == 2 and x["args"][1]["k"] == "Lit":
                        return x["args"][1]["lit"].get("bool")
                return None
            first, again = (lit_of(n["then"]), lit_of(n.get("else", {}))) if neg else (lit_of(n.get("else", {})), lit_of(n["then"]))
            flags.append((first, again))
    R.ob("C45:occurrence-table:second-sighting-clears-the-flag", flags == [(True, False)],
         "a variable seen for the first time must be entered with flag true and a variable seen again with false; found (first, again) = %s" % flags, F.where(rb))

    # ---- singletons/1 ----------------------------------------------------------------------------------------
    filt = [c for n in walk(hb) if n["k"] == "MethodCall" and n["name"] == "filter" for c in n["args"] if c["k"] == "Closure"]
    if len(filt) != 1:
        raise AnchorLost("read_term_body: the singleton filter closure (%d)" % len(filt))
    cb = filt[0]["body"] if "body" in filt[0] else filt[0]
    anon = any(x["k"] == "MethodCall" and x["name"] == "is_anon" for x in walk(cb))
    reads_flag = any(x["k"] == "MethodCall" and x["name"] == "get" and res_name(x["recv"]) == tname for x in walk(cb))
    other_name_tests = [x["name"] for x in walk(cb) if x["k"] == "MethodCall" and x["name"] in ("starts_with", "as_str", "to_string")]
    R.ob("C45:singletons:named-variables-seen-once", anon and reads_flag and not other_name_tests,
         "singletons/1 must keep exactly the variables that are not the anonymous `_` (is_anon: %s) and whose occurrence flag is still set (reads the table: %s); "
         "tests on the name's text (%s) would drop _-prefixed variables, which the property counts" % (anon, reads_flag, other_name_tests), F.where(rb))

    # ---- variables/1 and variable_names/1 --------------------------------------------------------------------------
    sorts = [n for n in walk(ho) if n["k"] == "MethodCall" and n["name"] in ("sort_by_key", "sort_by", "sort_unstable_by_key") and res_name(n["recv"]) == "var_list"]
    key_is_index = False
    for sc in sorts:
        for c in sc["args"]:
            if c["k"] == "Closure":
                pb = [x for x in walk(c) if x["k"] == "PBind"]
                used = {res_name(x) for x in walk(c.get("body", c)) if x["k"] == "Path"}
                # the closure takes (name, cell, index) and uses only the third component
                tup = [x for x in walk(c) if x["k"] == "PTuple" and len(x.get("pats", [])) == 3]
                body = c.get("body", c)
                while body.get("k") in ("Block", "DropTemps", "Paren") and not body.get("stmts") and (body.get("expr") or body.get("e")):
                    body = body.get("expr") or body.get("e")
                if body.get("k") == "Unary" and body.get("op") in ("Deref", "Deref(None)") or (body.get("k") == "Unary" and "Deref" in str(body.get("op"))):
                    body = body["a"]
                # the key is the index itself, ascending: not Reverse(..), not a negation, not another component
                plain = body.get("k") == "Path"
                if plain and tup and tup[0]["pats"][2]["k"] == "PBind" and res_name(body) == tup[0]["pats"][2]["name"] and sc["name"] in ("sort_by_key", "sort_unstable_by_key"):
                    key_is_index = True
    R.ob("C45:variables-and-names:sorted-by-first-occurrence-index", len(sorts) == 1 and key_is_index,
         "write_read_term_options must sort the variable list by its first-occurrence index before it builds the two lists (sorts found: %d, key is the index: %s)" % (len(sorts), key_is_index), F.where(wo))
    first_stmt_is_sort = False
    ss = ho.get("stmts", [])
    if ss:
        first_stmt_is_sort = any(x is sorts[0] for x in walk(ss[0])) if sorts else False
    R.ob("C45:variables-and-names:both-lists-built-after-the-sort", first_stmt_is_sort,
         "the sort must be the first thing write_read_term_options does, so that variables/1 and variable_names/1 are both built from the sorted list", F.where(wo))
    iters = [n for n in walk(ho) if n["k"] == "MethodCall" and n["name"] == "iter" and res_name(n["recv"]) == "var_list"]
    R.ob("C45:variables-and-names:one-source-list", len(iters) == 2,
         "variables/1 and variable_names/1 must both iterate the same sorted var_list (iterations found: %d)" % len(iters), F.where(wo))
    fm = [c for n in walk(ho) if n["k"] == "MethodCall" and n["name"] == "filter_map" for c in n["args"] if c["k"] == "Closure"]
    if len(fm) != 1:
        raise AnchorLost("write_read_term_options: the variable_names filter (%d)" % len(fm))
    names_tests = [x["name"] for x in walk(fm[0]) if x["k"] == "MethodCall" and x["name"] not in ("is_anon",)]
    R.ob("C45:variable_names:leaves-out-the-anonymous-variable-only", any(x["k"] == "MethodCall" and x["name"] == "is_anon" for x in walk(fm[0])) and not names_tests,
         "variable_names/1 must drop `_` and nothing else (other tests in the filter: %s)" % names_tests, F.where(wo))
    plain_map = [c for n in walk(ho) if n["k"] == "MethodCall" and n["name"] == "map" and n["recv"].get("k") == "MethodCall" and n["recv"]["name"] == "iter" for c in n["args"] if c["k"] == "Closure"]
    R.ob("C45:variables:every-variable-listed", len(plain_map) == 1 and not any(x["k"] in ("If", "Match") for x in walk(plain_map[0])),
         "variables/1 must list every entry of the sorted list (an unconditional map)", F.where(wo))

    # ---- both readers ----------------------------------------------------------------------------------------------
    for label, fn in (("stream", F.find_impl("MachineState", None, "read_term")), ("chars", F.find_impl("Machine", None, "read_term_from_chars"))):
        names = [r for _, r, _ in hir_calls(F.hir(fn)["body"])]
        R.ob("C45:%s-reader:binds-options-through-read_term_body" % label, rb in names,
             "%s must bind variables/variable_names/singletons through read_term_body" % short(fn), F.where(fn))
    R.sample({"occurrence_table": tname, "flags": flags, "sort_key_is_index": key_is_index})
