"""C05 — Equal integers behave identically regardless of how they were produced.

Decides: (a) every site that allocates a big integer in the arena does so only after a
"fits a small integer" test failed on that value (so computed integers are canonical), or is a
recorded exception whose consumers compare across representations; (b) the consumers that must
still compare across the two integer encodings do so by value (unify, compare, order category,
first-argument index keys).
"""
import re

from .core import AnchorLost, hir_calls, matches_in, pat_leaves, res_name, short, walk
from . import repo

EXPLANATION = (
    "RF3/RF4 over the typed HIR of every body that calls the arena allocator for dashu integers "
    "(enumerated from the whole-crate call facts): the allocation must sit in the failure branch / "
    "failure closure of a range test (Fixnum::build_with_checked, i64::try_from/try_into, "
    "i64::from_str_radix, RangeInclusive::contains), or be listed in the exception table. "
    "RF10 on the cross-representation consumers (unify_fixnum/unify_big_int arms, order_category, "
    "constant_key_alternatives). Canonicity of computed integers is what makes ==, hashing, "
    "indexing and printing independent of the computation path."
)
ASSUMPTIONS = ["Fixnum::build_with_checked fails exactly for values outside the 56-bit range (C01 checks its constants)"]

ALLOC_RX = re.compile(r"IBig as arena::AllocateInArena<dashu::integer::IBig>>::arena_allocate$")
FIT_RX = re.compile(
    r"(ast::Fixnum::build_with_checked$|<i64 as std::convert::TryFrom<.*>>::try_from$|std::convert::TryInto::try_into$|"
    r"<.* as std::convert::TryInto<i64>>::try_into$|i64::from_str_radix$|num::<impl i64>::from_str_radix$|RangeInclusive::<.*>::contains$|RangeInclusive<.*>::contains$|"
    r"ops::Range::<.*>::contains$|ops::Range<.*>::contains$|range::Range::<.*>::contains$|range::Range<.*>::contains$)"
)
FAIL_CLOSURE_METHODS = {"unwrap_or_else", "or_else", "map_err", "ok_or_else"}

# Exceptions: allocation sites that do not normalise, with the reason they are tolerated.
EXCEPTIONS = {
    "parser::parser::Parser::<'a, R>::shift_token::negate_int_rc":
        "negating a big-integer *literal* keeps it big (-(2^55) fits a fixnum): every consumer of a literal compares by value "
        "(unify_big_int, Number::cmp, constant_key_alternatives adds the fixnum key) — probed: ==, =, compare/3, indexing agree",
}


def has_fit_call(node):
    for n in walk(node):
        if n["k"] in ("Call", "MethodCall"):
            r = n.get("inst") or ""
            r2 = n.get("resolved") or n.get("callee") or ""
            if FIT_RX.search(r) or FIT_RX.search(r2):
                return True
    return False


def positive_pat(p):
    """Pattern names a success constructor (Ok/Some)."""
    for leaf in pat_leaves(p):
        rn = res_name(repo.strip_ref(leaf)) or ""
        if rn.endswith("::Ok") or rn.endswith("::Some"):
            return True
    return False


def negative_pat(p):
    for leaf in pat_leaves(p):
        lf = repo.strip_ref(leaf)
        rn = res_name(lf) or ""
        if rn.endswith("::Err") or rn.endswith("::None") or lf["k"] == "PWild":
            return True
    return False


def classify_allocs(body):
    """Yield (alloc_node, guard description or None) for each big-integer arena allocation in an
    HIR body, deciding the guard from the chain of ancestors."""
    out = []

    def rec(n, anc):
        if isinstance(n, list):
            for x in n:
                rec(x, anc)
            return
        if not isinstance(n, dict):
            return
        if n.get("k") in ("Call", "MethodCall") and ALLOC_RX.search(n.get("inst") or n.get("resolved") or ""):
            out.append((n, guard_of(anc)))
        if "k" in n:
            for key, v in n.items():
                if isinstance(v, (dict, list)):
                    rec(v, anc + [(n, key)])
        else:
            for key, v in n.items():
                if isinstance(v, (dict, list)):
                    rec(v, anc)

    def guard_of(anc):
        # walk from the innermost ancestor outwards
        for i in range(len(anc) - 1, -1, -1):
            node, key = anc[i]
            k = node["k"]
            if k == "Closure" and i > 0:
                par, pkey = anc[i - 1]
                if par["k"] == "MethodCall" and pkey == "args" and par["name"] in FAIL_CLOSURE_METHODS and has_fit_call(par["recv"]):
                    return "failure closure of %s on a range test" % par["name"]
            if k == "If" and key == "else":
                c = node["cond"]
                if c["k"] == "LetCond":
                    if positive_pat(c["pat"]) and has_fit_call(c["init"]):
                        return "else-branch of `if let Ok/Some(..) = <range test>`"
                elif has_fit_call(c):
                    return "else-branch of a range test"
            if k == "Arm" and key == "body" and i > 0:
                m, _ = anc[i - 1]
                if m["k"] == "Match" and has_fit_call(m["scrut"]) and negative_pat(node["pat"]) and not positive_pat(node["pat"]):
                    return "Err/None arm of a match on a range test"
        return None

    rec(body, [])
    return out


def run(ctx, R):
    F = ctx.facts()
    R.rule("RF3/RF4 normalising construction of big integers; RF10 cross-representation consumers")
    # --- (a) allocation sites, enumerated from the whole-crate call facts -----------------------
    owners = {}
    for p, cs in F.calls.items():
        for c in cs:
            if ALLOC_RX.search(c.get("inst") or ""):
                top = re.sub(r"(::\{closure#\d+\})+$", "", p)
                owners.setdefault(top, 0)
                owners[top] += 1
    total = sum(owners.values())
    R.floor("big-integer arena allocation sites", total, 20)
    seen = 0
    for top in sorted(owners):
        if top not in F.items:
            raise AnchorLost("owner %s of an allocation site has no item" % top)
        h = F.hir(top)
        sites = classify_allocs(h["body"])
        seen += len(sites)
        if len(sites) != owners[top]:
            raise AnchorLost("%s: %d allocation sites in MIR, %d found in HIR" % (top, owners[top], len(sites)))
        for idx, (n, guard) in enumerate(sites):
            key = "C05:bigint-alloc:%s#%d" % (short(top) if not top.startswith("<") else top, idx)
            exc = None
            for k, why in EXCEPTIONS.items():
                if top == k or (k.endswith("::") and top.startswith(k)):
                    exc = why
            if guard:
                R.ob(key + ":normalised", True, guard, "%s (line %s)" % (F.where(top), n["ln"]))
            elif exc:
                R.ob(key + ":exception", True, "not normalised; tolerated: " + exc, "%s (line %s)" % (F.where(top), n["ln"]))
            else:
                R.ob(key + ":normalised", False,
                     "a big integer is allocated without a preceding failed small-integer range test: a value that fits a fixnum "
                     "becomes a second, non-identical representation of the same integer", "%s (line %s)" % (F.where(top), n["ln"]))
            R.sample({"site": top, "line": n["ln"], "guard": guard or ("exception" if exc else None)})

    # --- (b) consumers ---------------------------------------------------------------------------
    # unify_fixnum / unify_big_int / unify_rational: explicit Number::{Fixnum,Integer,Rational} arms
    for meth in ("unify_fixnum", "unify_big_integer", "unify_big_rational"):
        cands = [p for p in F.find_all(r"unify::Unifier::%s$" % meth)] or [p for p in F.find_all(r"::%s$" % meth)]
        if len(cands) != 1:
            raise AnchorLost("%s: %s" % (meth, cands))
        fn = cands[0]
        h = F.hir(fn)
        vs = set()
        for m in matches_in(h["body"], src=None):
            for arm in m["arms"]:
                for n in walk(arm["pat"]):
                    rn = res_name(n) or ""
                    if rn.startswith("forms::Number::"):
                        vs.add(rn.rsplit("::", 1)[1])
        need = {"Fixnum", "Integer", "Rational"}
        R.ob("C05:consumer:%s:cross-representation-arms" % meth, need <= vs,
             "%s matches Number::%s; all of %s are needed to compare a cell with an equal value in another encoding" % (meth, sorted(vs), sorted(need)), F.where(fn))
    # Number::cmp / Number::eq compare the two VALUES in every pair of exact representations (a shortcut
    # such as "a big integer is always outside the fixnum range" is wrong for non-normalised cells);
    # the obligations are computed by the C04 rule and re-keyed here.
    from . import c04
    from .core import Result
    sub = Result("C04")
    c04.run(ctx, sub)
    n_pairs = 0
    for k, ok, d, w in sub.obligations:
        m = re.match(r"C04:Number::(cmp|eq):pair:(Fixnum|Integer|Rational)-(Fixnum|Integer|Rational):compares-both-values$", k)
        if m:
            n_pairs += 1
            R.ob("C05:consumer:Number::%s:%s-%s:compares-values" % m.groups(), ok, d, w)
    R.floor("exact representation pairs in Number::cmp/eq", n_pairs, 18)
    # constant_key_alternatives: fixnum spelling for Integer and integral Rational literals
    ck = F.find("indexing::constant_key_alternatives")
    h = F.hir(ck)
    lits = set()
    for m in matches_in(h["body"], src=None):
        for arm in m["arms"]:
            for n in walk(arm["pat"]):
                rn = res_name(n) or ""
                if rn.startswith("parser::ast::Literal::"):
                    lits.add(rn.rsplit("::", 1)[1])
    calls = [r for _, r, _ in hir_calls(h["body"])]
    R.ob("C05:consumer:constant_key_alternatives", {"Integer", "Rational"} <= lits and any(r.endswith("Fixnum::build_with_checked") for r in calls),
         "handles literal kinds %s, callees %s" % (sorted(lits), [short(c) for c in calls]), F.where(ck))
    # TryFrom<(HeapCellValue,&F64Table)> for Number reads all four encodings (used by compare and is/2)
    tf = [p for p in F.items if p.endswith("::try_from") and re.search(r"TryFrom<\(types::HeapCellValue, &('_ )?offset_table::F64Table\)>", F.items[p].get("trait_ref") or "")
          and F.items[p].get("self_ty") == "forms::Number"]
    if len(tf) != 1:
        raise AnchorLost("TryFrom<(HeapCellValue,&F64Table)> for Number: %s" % tf)
    h = F.hir(tf[0])
    tags, arena = set(), set()
    for m in matches_in(h["body"], src=None):
        for arm in m["arms"]:
            for n in walk(arm["pat"]):
                rn = res_name(n) or ""
                if rn.startswith("types::HeapCellValueTag::"):
                    tags.add(rn.rsplit("::", 1)[1])
                if "ArenaHeaderTag::" in rn:
                    arena.add(rn.rsplit("::", 1)[1])
    R.ob("C05:consumer:Number::try_from(cell)", {"Fixnum", "Cons", "F64Offset"} <= tags and {"Integer", "Rational"} <= arena,
         "reads tags %s / arena kinds %s" % (sorted(tags), sorted(arena)), F.where(tf[0]))
    # --- (c) the two index keys of one integer ----------------------------------------------------------
    # a clause whose first argument is an integer with two spellings is entered under both keys; each key's
    # choice sequence must be continued according to its OWN length (rule shared with C06)
    from .c06 import first_entry_flags
    first_entry_flags(F, R, prefix="C05", only="::index_constant")
