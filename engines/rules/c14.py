"""C14 — Sorting builtins (builtins clause only; the Prolog collection libraries are not decided).

Decides: sort/2 = sort by the standard-order comparator followed by removal of adjacent
compare-equal elements; keysort/2 = a *stable* sort whose comparator looks only at the keys
obtained through key_val_pair; both use the same comparison function as compare/3.
"""
import re

from .core import AnchorLost, hir_calls, res_name, walk
from . import repo

EXPLANATION = (
    "Effect-summary rules (RF2/RF4) over the typed HIR of MachineState::sort and ::keysort: which "
    "std sorting routine is called (stable vs unstable, resolved callee), what the comparator "
    "closure compares, and that de-duplication follows sorting. The library half of the property "
    "(lists/ordsets/assoc/pairs, written in Prolog) is not decided."
)
ASSUMPTIONS = ["slice::sort_by / sort_by_key / sort_by_cached_key are stable, sort_unstable* are not (std docs)"]

STABLE = re.compile(r"slice::<impl \[T\]>::(sort_by|sort_by_key|sort_by_cached_key|sort)$")
UNSTABLE = re.compile(r"slice::<impl \[T\]>::sort_unstable")
CMP = re.compile(r"MachineState>?::compare_term_test$")


def sort_calls(h):
    out = []
    for callee, res, n in hir_calls(h["body"]):
        if STABLE.search(res) or UNSTABLE.search(res) or res.endswith("Vec::<T, A>::dedup_by") or res.endswith("::dedup_by") or res.endswith("::dedup"):
            out.append((res, n))
    return out


def closure_of(call):
    for a in call.get("args", []):
        if a["k"] == "Closure":
            return a
    return None


def run(ctx, R):
    F = ctx.facts()
    R.rule("RF2/RF4: sort = sort + dedup by compare_term_test; keysort = stable sort on key component")
    st = F.find_impl("MachineState", None, "sort")
    ks = F.find_impl("MachineState", None, "keysort")

    # ---- sort/2 ----
    sc = sort_calls(F.hir(st))
    sorts = [(r, n) for r, n in sc if STABLE.search(r) or UNSTABLE.search(r)]
    dedups = [(r, n) for r, n in sc if "dedup" in r]
    if not sorts:
        raise AnchorLost("sort: no std sort call found")
    R.ob("C14:sort:one-sort-call", len(sorts) == 1, "sort calls: %s" % [r for r, _ in sorts], F.where(st))
    r, n = sorts[0]
    cl = closure_of(n)
    uses = cl is not None and any(CMP.search(x) for _, x, _ in hir_calls(cl))
    R.ob("C14:sort:comparator-is-standard-order", uses, "comparator closure calls %s" % ([x for _, x, _ in hir_calls(cl)] if cl else None), F.where(st))
    R.ob("C14:sort:dedup-present", len(dedups) == 1, "dedup calls: %s" % [r for r, _ in dedups], F.where(st))
    if dedups:
        dr, dn = dedups[0]
        dcl = closure_of(dn)
        ok = False
        if dcl is not None and any(CMP.search(x) for _, x, _ in hir_calls(dcl)):
            # the closure must be `compare(..) == Some(Equal)` (or a match on Equal)
            eq = [x for x in walk(dcl) if (res_name(x) or "").endswith("cmp::Ordering::Equal")]
            other = [x for x in walk(dcl) if re.search(r"cmp::Ordering::(Less|Greater)$", res_name(x) or "")]
            neg = [x for x in walk(dcl) if x["k"] == "Binary" and x.get("op") == "Ne"] + [x for x in walk(dcl) if x["k"] == "Unary" and x.get("op") == "Not"]
            ok = bool(eq) and not other and not neg
        R.ob("C14:sort:dedup-removes-compare-equal", ok, "dedup closure must test compare_term_test(..) == Some(Equal)", F.where(st))
        R.ob("C14:sort:dedup-after-sort", dn["ln"] > n["ln"], "sort at line %s, dedup at line %s" % (n["ln"], dn["ln"]), F.where(st))
    # receiver of sort and dedup is the same list that is written out
    recv = lambda c: res_name(c["recv"]) if c["k"] == "MethodCall" and c["recv"]["k"] == "Path" else None
    if dedups:
        R.ob("C14:sort:same-list", recv(n) is not None and recv(n) == recv(dedups[0][1]), "sorts %s, dedups %s" % (recv(n), recv(dedups[0][1])), F.where(st))
    R.sample({"fn": "sort", "sort_call": r, "dedup": [d for d, _ in dedups]})

    # ---- keysort/2 ----
    kc = sort_calls(F.hir(ks))
    ksorts = [(r, n) for r, n in kc if STABLE.search(r) or UNSTABLE.search(r)]
    if not ksorts:
        raise AnchorLost("keysort: no std sort call found")
    R.ob("C14:keysort:one-sort-call", len(ksorts) == 1, "sort calls: %s" % [r for r, _ in ksorts], F.where(ks))
    for r, n in ksorts:
        R.ob("C14:keysort:stable-sort", bool(STABLE.search(r)) and not UNSTABLE.search(r), "keysort sorts with %s" % r, F.where(ks))
    r, n = ksorts[0]
    cl = closure_of(n)
    uses = cl is not None and any(CMP.search(x) for _, x, _ in hir_calls(cl))
    R.ob("C14:keysort:comparator-is-standard-order", uses, "comparator closure calls %s" % ([x for _, x, _ in hir_calls(cl)] if cl else None), F.where(ks))
    # comparator looks only at component .0 of the pairs
    fields = set()
    if cl is not None:
        for x in walk(cl):
            if x["k"] == "Field" and x["base"]["k"] == "Path":
                fields.add(x["name"])
            if x["k"] == "Call" or x["k"] == "MethodCall":
                if CMP.search(x.get("resolved") or x.get("callee") or ""):
                    for a in x.get("args", []):
                        if a["k"] == "Path":
                            fields.add("whole:" + str(res_name(a)))
    R.ob("C14:keysort:compares-keys-only", fields == {"0"}, "comparator reads pair components %s" % sorted(fields), F.where(ks))
    # keys come from key_val_pair component 0, output is component 1
    h = F.hir(ks)
    kvp = [n2 for _, r2, n2 in hir_calls(h["body"]) if r2.endswith("::key_val_pair")]
    R.ob("C14:keysort:keys-from-key_val_pair", len(kvp) >= 1, "%d calls to key_val_pair" % len(kvp), F.where(ks))
    dedup_in_keysort = [r for r, _ in kc if "dedup" in r]
    R.ob("C14:keysort:no-dedup", not dedup_in_keysort, "keysort must keep duplicates; found %s" % dedup_in_keysort, F.where(ks))
    R.sample({"fn": "keysort", "sort_call": r, "comparator_reads": sorted(fields)})
