"""C07 — Compiled programs compute ISO SLD-resolution answers (machine-level clauses only).

Decides two necessary conditions at the level of the abstract machine: (a) every instruction
has a handler, and the Call / Execute / DefaultCall / DefaultExecute twins of one builtin do the
same work and differ only in continuation handling and inference counting; (b) choice-point
frames are saved and restored field for field. The compiler (register allocation, variable
classification, disjunction chunking) is not decided: that is a value-level property of
generated code.
"""
import re

from .core import AnchorLost, atom_of, hir_calls, res_name, short, walk
from . import repo, orframe

EXPLANATION = (
    "RF10 exhaustiveness of the instruction match of Machine::dispatch_loop against the generated "
    "Instruction enum (type facts), RF1 sibling agreement of every {Call,Execute,DefaultCall,"
    "DefaultExecute}X family (resolved callee sets from the typed HIR must coincide modulo the "
    "allowed-difference table; continuation effect `p += 1` vs `p = cp`; inference counting only in "
    "the non-Default twins), RF2 or-frame writer/restorer table."
)
ASSUMPTIONS = ["the compiler emits Execute* only in last-call position and Call* elsewhere"]

PREFIXES = ("DefaultCall", "DefaultExecute", "Call", "Execute")
# allowed differences between a Call twin and its Execute twin (resolved callees)
TWIN_RENAMES = {
    "Machine::call_n": "Machine::execute_n",
    "Machine::try_call": "Machine::try_execute",
    "Machine::call_clause": "Machine::execute_clause",
    "MachineState::call_at_index": "MachineState::execute_at_index",
}
# recorded exceptions, one line of reason each
CONTINUATION_EXCEPTIONS = {
    "ExecuteIsConsistentWithTermQueue": "advances with `p += 1` like its Call twin. '$is_consistent_with_term_queue'/4 is an internal loader predicate that "
                                        "src/loader.pl only calls inside if-then-else conditions, never as a last call, and it cannot be called from a "
                                        "user program without a live load context (it dereferences the load-state pointer); recorded observation",
}


def arm_summary(arm):
    callees = set()
    padv = set()
    icc = False
    for n in walk(arm["body"]):
        if any(m[0] == "increment_call_count" for m in n.get("mac", [])):
            icc = True
    for n in repo.walk_skip(arm["body"], repo._is_call_count_macro):
        if n["k"] in ("Call", "MethodCall") and "callee" in n:
            callees.add(short(n.get("resolved") or n["callee"]))
        if n["k"] == "AssignOp" and n["lhs"]["k"] == "Field" and n["lhs"]["name"] == "p":
            padv.add("p" + n["op"])
        if n["k"] == "Assign" and n["lhs"]["k"] == "Field" and n["lhs"]["name"] == "p":
            rhs = n["rhs"]
            padv.add("p=cp" if rhs["k"] == "Field" and rhs["name"] == "cp" else "p=other")
    return callees, padv, icc


def run(ctx, R):
    F = ctx.facts()
    R.rule("RF10 every instruction has a handler; RF1 Call/Execute/Default twins agree; RF2 or-frame table")
    m, arms, wild = repo.dispatch_arms(F)
    dl = repo.dispatch_loop(F)
    variants = repo.instruction_variants(F)
    R.floor("Instruction variants", len(variants), 600)
    missing = [v for v in variants if v not in arms]
    R.ob("C07:dispatch:every-instruction-handled", not missing, "instructions without an explicit dispatch arm: %s" % missing[:10], F.where(dl))
    R.ob("C07:dispatch:no-wildcard", not wild, "%d wildcard arm(s) in the instruction match would swallow a new instruction" % len(wild), F.where(dl))
    dup = [v for v, a in arms.items() if len(a) > 1]
    R.ob("C07:dispatch:one-arm-per-instruction", not dup, "instructions with several arms: %s" % dup[:10], F.where(dl))

    fam = {}
    for v in variants:
        mm = re.match(r"^(DefaultCall|DefaultExecute|Call|Execute)(.+)$", v)
        if mm:
            fam.setdefault(mm.group(2), {})[mm.group(1)] = v
    R.floor("builtin families", len(fam), 250)
    n_cmp = 0
    for k in sorted(fam):
        d = fam[k]
        if "Call" not in d or d["Call"] not in arms:
            R.ob("C07:twin:%s:has-Call" % k, "Call" in d, "family %s has members %s but no Call twin" % (k, sorted(d)), F.where(dl))
            continue
        base_c, base_p, base_i = arm_summary(arms[d["Call"]][0])
        where0 = "%s:%s" % (F.items[dl]["file"], arms[d["Call"]][0]["ln"])
        if base_p - {"pAddAssign"}:
            R.ob("C07:continuation:Call%s" % k, False, "Call twin sets p through %s; a Call must fall through to the next instruction (p += 1)" % sorted(base_p), where0)
        for pre in ("Execute", "DefaultCall", "DefaultExecute"):
            if pre not in d:
                continue
            v = d[pre]
            arm = arms[v][0]
            where = "%s:%s dispatch_loop arm %s" % (F.items[dl]["file"], arm["ln"], v)
            c, p, i = arm_summary(arm)
            n_cmp += 1
            # callee agreement modulo renames
            want = set(base_c)
            if "Execute" in pre:
                want = {TWIN_RENAMES.get(x, x) for x in want}
            R.ob("C07:twin:%s:same-work-as-Call%s" % (v, k), c == want,
                 "%s calls %s but Call%s calls %s: the twins must run the same builtin" % (v, sorted(c - want) or "-", k, sorted(want - c) or "-"), where)
            # continuation
            want_p = {"p=cp"} if "Execute" in pre else {"pAddAssign"}
            okp = (not p and not base_p) or (p <= want_p and bool(p) == bool(base_p))
            if not okp and v in CONTINUATION_EXCEPTIONS:
                R.ob("C07:continuation:%s:exception" % v, True, "listed: " + CONTINUATION_EXCEPTIONS[v], where)
            else:
                R.ob("C07:continuation:%s" % v, okp,
                     "%s updates p through %s; %s" % (v, sorted(p) or "nothing", "an Execute twin must continue at cp (last call)" if "Execute" in pre else "a Call twin must fall through (p += 1)"), where)
            # inference counting
            want_i = base_i if pre == "Execute" else False
            R.ob("C07:inference-count:%s" % v, i == want_i,
                 "%s %s the inference counter; Call%s %s (Default twins never count, Execute counts iff Call does)" % (v, "increments" if i else "does not increment", k, "does" if base_i else "does not"), where)
            if len(R.samples) < 8:
                R.sample({"family": k, "twin": v, "callees": sorted(c)[:6], "p": sorted(p), "counts": i})
    R.floor("twin comparisons", n_cmp, 300)

    # ---- every arm notices its builtin's failure before it steps ------------------------------------------------
    # a builtin that can set the fail flag (failed unification, thrown error) must be followed by a step that is
    # conditional on the flag (step_or_fail!, an explicit test, or a backtrack): otherwise the failure is noticed one
    # instruction late, after an enclosing if-then-else may already have cut.
    STEP_EXCEPTIONS = {
        "RunVerifyAttr": "runs the nested attribute-verification loop; its exit status, not the fail flag, decides the continuation",
    }
    memo = {}

    def may_fail(fn, depth=0):
        if fn in memo:
            return memo[fn]
        if fn not in F.items or depth > 2:
            return False
        memo[fn] = False
        try:
            h = F.hir(fn)
        except AnchorLost:
            return False
        res = False
        for n in walk(h["body"]):
            if n["k"] == "Assign" and n["lhs"]["k"] == "Field" and n["lhs"]["name"] == "fail":
                res = True
            if n["k"] in ("Call", "MethodCall"):
                r = n.get("resolved") or n.get("callee") or ""
                if re.search(r"::throw_(resource_error|exception|interrupt_exception)$|MachineState>?::unify(_atom|_fixnum|_f64|_big_int|_rational|_char)?$", r):
                    res = True
        if not res:
            for n in walk(h["body"]):
                if n["k"] in ("Call", "MethodCall"):
                    r = n.get("resolved") or n.get("callee") or ""
                    if r in F.items and r != fn and may_fail(r, depth + 1):
                        res = True
                        break
        memo[fn] = res
        return res

    n_unc = 0
    for v, a in sorted(arms.items()):
        arm = a[0]
        callees = [n.get("resolved") or n.get("callee") for n in walk(arm["body"]) if n["k"] in ("Call", "MethodCall") and "callee" in n]
        local = [c for c in callees if c in F.items and re.search(r"impl machine::Machine>::|MachineState>::|machine::Machine::", c)]
        looks_at_fail = any(x["k"] == "Field" and x["name"] == "fail" for x in walk(arm["body"])) or any(re.search(r"::backtrack$", c or "") for c in callees)
        if not local or looks_at_fail or repo.arm_effect(arm["body"]) != "advance":
            continue
        failing = [short(c) for c in local if may_fail(c)]
        if not failing:
            continue
        n_unc += 1
        where = "%s:%s dispatch_loop arm %s" % (F.items[dl]["file"], arm["ln"], v)
        if v in STEP_EXCEPTIONS:
            R.ob("C07:step-after-failing-builtin:%s:exception" % v, True, "listed: " + STEP_EXCEPTIONS[v], where)
        else:
            R.ob("C07:step-after-failing-builtin:%s" % v, False,
                 "%s steps to the next instruction unconditionally although %s can set the fail flag: the failure is noticed one instruction late "
                 "(e.g. after an enclosing `->` has cut), so neither branch of ( G -> A ; B ) runs" % (v, failing), where)
    R.notes.append("arms stepping unconditionally after a builtin that may fail: %d (all must be listed exceptions)" % n_unc)
    n = orframe.check(F, R, "C07")
    R.floor("or-frame obligations", n, 60)
    call_execute_twins(F, R, dl)


# Call*/Execute* arm pairs that are written differently on purpose; for these only the tag sets are compared
TWIN_EXCEPTIONS = {
    "CallAtomChars": "the Call arm uses step_or_fail!, the Execute arm spells the same test out",
    "CallContinuation": "one helper with a flag: call_continuation(false) / call_continuation(true)",
    "CallDynamicModuleResolution": "call_clause vs execute_clause",
    "CallFastCallN": "closure over try_call vs try_execute",
    "CallInvokeClauseAtP": "the Execute form also has to deallocate the frame of '$clause'",
    "CallN": "call_n vs execute_n",
    "CallNamed": "try_call vs try_execute on the resolved index",
    "CallSetCutPoint": "the Execute form redirects the cleaner call into an execute (set_cut_point calls call_by_index)",
}


def _canon(n):
    if isinstance(n, list):
        return [_canon(x) for x in n]
    if not isinstance(n, dict):
        return n
    k = n.get("k")
    if k == "AssignOp" and n["lhs"].get("k") == "Field" and n["lhs"].get("name") == "p":
        return "CONTINUE"
    if k == "Assign" and n["lhs"].get("k") == "Field" and n["lhs"].get("name") == "p" and any(x.get("k") == "Field" and x.get("name") == "cp" for x in walk(n["rhs"])):
        return "CONTINUE"
    return {kk: _canon(v) for kk, v in n.items() if kk not in ("ln", "mac", "span")}


def _tags(n):
    out = []
    for x in walk(n):
        r = res_name(x) or ""
        m = re.search(r"(HeapCellValueTag|ArenaHeaderTag)::(\w+)$", r)
        if m:
            out.append(m.group(2))
    return sorted(out)


def call_execute_twins(F, R, dl):
    """Every inlined builtin has two instructions, Call<X> (continue at p + 1) and Execute<X> (last call: continue at cp).
    Apart from that continuation the two arms of dispatch_loop must do the same thing: same helper, same tag tests, same
    failure handling. Which of the two the compiler emits depends only on the goal's position in the clause body."""
    import json
    from .core import matches_in, pat_leaves, pat_variant
    h = F.hir(dl)
    arms = {}
    for m in matches_in(h["body"], src=None):
        for arm in m["arms"]:
            for leaf in pat_leaves(arm["pat"]):
                v = pat_variant(leaf)
                if v and "Instruction::" in v:
                    arms.setdefault(v.rsplit("::", 1)[1], arm)
    n = 0
    for name, arm in sorted(arms.items()):
        twin = "Execute" + name[4:]
        if not name.startswith("Call") or twin not in arms:
            continue
        n += 1
        where = "%s:%s dispatch_loop arms %s / %s" % (F.items[dl]["file"], arm["ln"], name, twin)
        ta, tb = _tags(arm["body"]), _tags(arms[twin]["body"])
        if name in TWIN_EXCEPTIONS:
            R.ob("C07:call-execute-twin:%s:same-tags" % name[4:], ta == tb,
                 "%s and %s are written differently on purpose (%s) but must test the same cell tags: %s vs %s" % (name, twin, TWIN_EXCEPTIONS[name], ta, tb), where)
            continue
        same = json.dumps(_canon(arm["body"]), sort_keys=True) == json.dumps(_canon(arms[twin]["body"]), sort_keys=True)
        extra = ""
        if ta != tb:
            extra = "; cell tags only in %s: %s, only in %s: %s" % (name, sorted(set(ta) - set(tb)), twin, sorted(set(tb) - set(ta)))
        R.ob("C07:call-execute-twin:%s" % name[4:], same,
             "the arms of %s and %s differ in more than the continuation (p += 1 / p = cp)%s: the builtin behaves differently as the last goal of a clause" % (name, twin, extra), where)
    R.floor("Call/Execute instruction pairs", n, 270)
    opaque_to_cut(F, R)
    branch_intervals(F, R)
    cut_scan_descends_into_every_transparent_construct(F, R)
    local_cut_keeps_its_variable(F, R)


def opaque_to_cut(F, R):
    """ISO 7.8: the argument of \\+/1 and the condition of ->/2 are opaque to cut — a cut inside cuts back to where that
    sub-goal started. Both implementations of the control constructs must give such a sub-goal its own cut point:
    (a) the clause compiler (disjuncts.rs, classify_body_variables) by bracketing the sub-term with OverrideGlobalCutVar /
    ResetGlobalCutVarOverride after a GetCutPoint; (b) the interpreted constructs (builtins.pl, dispatch_prep_/3, used by
    call/N) by preparing the condition with a cut-point variable of its own that a get_cp/1 continuation binds."""
    import os
    from .core import matches_in, atom_of, REPO
    sys_path = os.path.dirname(os.path.dirname(os.path.abspath(__file__)))
    import sys
    if sys_path not in sys.path:
        sys.path.insert(0, sys_path)
    from plread import plread as P
    fns = [p for p in F.items if p.endswith("VariableClassifier::classify_body_variables")]
    if len(fns) != 1:
        raise AnchorLost("VariableClassifier::classify_body_variables (%d)" % len(fns))
    h = F.hir(fns[0])
    found = {}
    for m in matches_in(h["body"], src=None):
        for arm in m["arms"]:
            ats = set(a for a in (atom_of(x) for x in walk(arm["pat"]) if isinstance(x, dict)) if a)
            for name in ("->", "\\+"):
                if ats == {name}:
                    ctors = []
                    for x in walk(arm["body"]):
                        if x["k"] == "Call" and "TraversalState::" in (x.get("ctor") or ""):
                            ctors.append(x["ctor"].rsplit("::", 1)[-1])
                        elif x["k"] == "Struct" and (x.get("ty") or "").endswith("TraversalState"):
                            r = x.get("res")
                            ctors.append((r if isinstance(r, str) else (r or {}).get("def") or (r or {}).get("path") or "?").rsplit("::", 1)[-1])
                    found[name] = (arm["ln"], ctors)
    if set(found) != {"->", "\\+"}:
        raise AnchorLost("classify_body_variables: arms for ->/2 and \\+/1 not both found (%s)" % sorted(found))
    for name, (ln, ctors) in sorted(found.items()):
        ok = "OverrideGlobalCutVar" in ctors and "ResetGlobalCutVarOverride" in ctors
        R.ob("C07:opaque-to-cut:compiler:%s" % ("if-then-condition" if name == "->" else "negation"), ok,
             "the compiler's arm for %s (line %s) pushes %s: without OverrideGlobalCutVar/ResetGlobalCutVarOverride around the opaque sub-goal a cut inside it "
             "cuts the whole clause ( t :- ( (!, fail) -> a ; b ). fails instead of running b )" % (name, ln, sorted(set(ctors))), "%s (line %s)" % (F.where(fns[0]), ln))
    # (b) builtins.pl
    text = open(os.path.join(REPO, "src/lib/builtins.pl")).read()
    n = 0
    for t, line in P.read_clauses(text):
        head, body = P.head_body(t)
        if P.functor(head) != ("dispatch_prep_", 3):
            continue
        outer_b = head[2][1]
        goals = []
        stack = [body]
        while stack:
            g = stack.pop()
            if g[0] == "cmp" and g[1] in (",", ";", "->") and len(g[2]) == 2:
                stack.extend(g[2])
            else:
                goals.append(g)
        # conditions: first argument of a ->/2 in the head pattern, or of a `X = (C -> T)` unification in the body
        conds = []
        for x in [head[2][0]] + [g[2][1] for g in goals if g[0] == "cmp" and g[1] == "=" and len(g[2]) == 2]:
            for y in subterms_pl(x):
                if y[0] == "cmp" and y[1] == "->" and len(y[2]) == 2 and y[2][0][0] == "var":
                    conds.append(y[2][0])
        for c in conds:
            preps = [g for g in goals if P.functor(g) == ("dispatch_prep", 3) and g[2][0] == c]
            if not preps:
                continue
            n += 1
            bvar = preps[0][2][1]
            bound = any(y[0] == "cmp" and y[1] == "get_cp" and y[2] == [bvar] for g in goals for y in subterms_pl(g))
            R.ob("C07:opaque-to-cut:call:%s-condition" % ("if-then-else" if head[2][0][1] == ";" else "if-then"), bvar != outer_b and bound,
                 "dispatch_prep_/3 (builtins.pl line %s) prepares the condition %s with cut-point variable %s%s: a cut inside the condition of an if-then-else reached "
                 "through call/N must cut to a point taken by get_cp/1 when the condition starts, not to the caller's"
                 % (line, c[1], bvar[1], " (the caller's)" if bvar == outer_b else (" which no get_cp/1 continuation binds" if not bound else "")), "src/lib/builtins.pl (line %s)" % line)
    R.floor("conditions prepared by dispatch_prep_/3", n, 2)


def subterms_pl(t):
    yield t
    if t[0] == "cmp":
        for a in t[2]:
            yield from subterms_pl(a)


def branch_intervals(F, R):
    """The compiler numbers the arms of control constructs with intervals [n, n + delta): incr_by_delta puts the next
    sibling arm at n + delta with the same delta. The variable allocator asks has_as_subbranch whether an arm lies inside
    another to decide if a permanent variable still needs put_unsafe_value; a sibling must never count as a sub-branch, or
    the last arm passes a reference into an environment that is being deallocated. So the upper bound of the test is
    strict exactly where incr_by_delta lands."""
    def find(name):
        c = [p for p, it in F.items.items() if it["file"] == "src/forms.rs" and p.endswith("BranchNumberInner::" + name)]
        if len(c) != 1:
            raise AnchorLost("BranchNumberInner::%s (%d)" % (name, len(c)))
        return c[0]
    hs, inc = find("has_as_subbranch"), find("incr_by_delta")
    ib = F.hir(inc)["body"]
    # incr_by_delta: branch_num: self.branch_num + self.delta ; delta unchanged
    adds = [x for x in walk(ib) if x["k"] == "Binary" and x["op"] == "Add" and {y["name"] for y in walk(x) if y["k"] == "Field"} >= {"branch_num", "delta"}]
    if len(adds) != 1:
        raise AnchorLost("incr_by_delta: next sibling = branch_num + delta not recognised (%d)" % len(adds))
    hb = F.hir(hs)["body"]
    uppers = [x for x in walk(hb) if x["k"] == "Binary" and x["op"] in ("Lt", "Le", "Gt", "Ge")
              and any(y["k"] == "Binary" and y["op"] == "Add" and {z["name"] for z in walk(y) if z["k"] == "Field"} >= {"branch_num", "delta"} for y in (x["a"], x["b"]))]
    if len(uppers) != 1:
        raise AnchorLost("has_as_subbranch: the comparison with branch_num + delta (%d)" % len(uppers))
    u = uppers[0]
    sum_on_right = u["b"]["k"] == "Binary"
    strict = (u["op"] == "Lt" and sum_on_right) or (u["op"] == "Gt" and not sum_on_right)
    R.ob("C07:branch-numbers:next-sibling-is-not-a-sub-branch", strict,
         "has_as_subbranch accepts other.branch_num %s self.branch_num + self.delta, which is exactly where incr_by_delta puts the NEXT sibling arm: the last arm of a "
         "disjunction or if-then-else then counts as a sub-branch of the arm before it, the allocator drops put_unsafe_value for a variable first bound there, and the "
         "clause passes a dangling environment reference to its last call" % {"Lt": "<", "Le": "<=", "Gt": ">", "Ge": ">="}[u["op"]], F.where(hs))


def cut_scan_descends_into_every_transparent_construct(F, R):
    """A cut is local to the condition of an if-then-else (and to \\+): the compiler gives such a condition a barrier of its
    own when it contains a cut, and finds that out with `contains_cut`. The scan has to look through exactly the control
    constructs that are transparent to cut — ','/2, ';'/2 and '->'/2 — and stop at everything else (call/N, \\+, findall
    are opaque). A scan that does not look into '->'/2 misses the cut in `( ( x -> ! ; y ) -> T ; E )`, which is then
    compiled as a cut of the whole clause."""
    c = [p for p in F.items if p.endswith("disjuncts::contains_cut")]
    if len(c) != 1:
        raise AnchorLost("disjuncts::contains_cut (%d)" % len(c))
    body = F.hir(c[0])["body"]
    descends = set()
    finds = False
    for m in walk(body):
        if m["k"] != "Match":
            continue
        for arm in m["arms"]:
            atoms = {atom_of(y) for y in walk(arm["pat"]) if atom_of(y)}
            if "!" in atoms and any(x["k"] == "Ret" for x in walk(arm["body"])):
                finds = True
            if any(x["k"] == "MethodCall" and x["name"] in ("extend", "push", "push_back") for x in walk(arm["body"])):
                descends |= atoms
    R.ob("C07:cut-scan:looks-through-exactly-the-transparent-constructs", finds and descends == {",", ";", "->"},
         "contains_cut descends into %s (finds `!`: %s); the constructs transparent to cut are ','/2, ';'/2 and '->'/2: a cut under one it does not descend into gets no local "
         "barrier, one under a construct that is opaque would get a barrier it must not have" % (sorted(descends), finds), F.where(c[0]))


def local_cut_keeps_its_variable(F, R):
    """The cut variable of \\+ or of a condition is used by every explicit `!` inside the construct and once more by the
    construct's own closing cut. Code generation must not hand the variable's frame slot back at a cut: the slot is then
    given to the next permanent variable, and the later cut reads that variable's value as a choice-point index
    (`e :- \\+ (!, (m(B) -> true ; true)).` aborted in the cut instruction). The arm of compile_seq for
    QueryTerm::LocalCut does not release the variable."""
    cs = [p for p in F.items if re.search(r"codegen::CodeGenerator<.*>::compile_seq$|codegen::<impl .*CodeGenerator.*>::compile_seq$|CodeGenerator::<.*>::compile_seq$", p)]
    if len(cs) != 1:
        cs = [p for p in F.items if p.endswith("::compile_seq") and "codegen" in p]
    if len(cs) != 1:
        raise AnchorLost("CodeGenerator::compile_seq (%d)" % len(cs))
    body = F.hir(cs[0])["body"]
    arms = []
    for m in walk(body):
        if m["k"] != "Match":
            continue
        for arm in m["arms"]:
            if any(re.search(r"QueryTerm::LocalCut$", (y.get("res") or {}).get("def") or "") for y in walk(arm["pat"])):
                arms.append(arm)
    if len(arms) != 1:
        raise AnchorLost("compile_seq: arm for QueryTerm::LocalCut (%d)" % len(arms))
    frees = [x["ln"] for x in walk(arms[0]["body"]) if x["k"] == "MethodCall" and x["name"] in ("free_var", "free_perm_var", "push_free_perm")]
    emits = any(x["k"] == "MethodCall" and x["name"] == "push_back" for x in walk(arms[0]["body"]))
    R.ob("C07:local-cut:cut-variable-not-released-at-a-cut", emits and not frees,
         "compile_seq releases the cut variable's slot right after emitting a local cut (line %s): an explicit cut inside \\+ or a condition shares that variable with the "
         "construct's own later cut, which then reads whatever permanent variable took the slot" % frees, F.where(cs[0]))

