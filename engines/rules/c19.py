"""C19 — Stream I/O round-trips and reports positions consistently (interface clauses only).

Decides: every stream kind is handled consistently across the sibling methods that make up one
interface (input: peek/read/put_back/consume/read; output: write/flush; bookkeeping:
lines_read getter/adder/setter, past_end_of_stream getter/setter); the peek_* builtins never
consume input; the eof_action atom tables are mutually inverse. Payload round-trips and
position values are not decided.
"""
import re

from .core import AnchorLost, atom_of, hir_calls, matches_in, pat_leaves, res_name, short, walk
from . import streams

EXPLANATION = (
    "RF1 enum-dispatch sibling agreement over `enum Stream` (typed HIR; in every analysed feature "
    "configuration), RF4 who-may-consume rule for the peek_char/peek_code/peek_byte builtins, RF9 "
    "inverse-table agreement of the EOFAction <-> atom conversions."
)
ASSUMPTIONS = ["std Read/Write/Seek implementations of the wrapped OS objects behave as documented"]
HANDLES_CONFIGS = True   # iterates ctx.configs() itself (enum Stream differs per feature configuration)

CONSUMING = re.compile(r"::(read_char|consume|read|read_exact|read_to_end|read_to_string|read_line|read_until|seek)$")


def run(ctx, R):
    R.rule("RF1 Stream sibling groups; RF4 peeking does not consume; RF9 eof_action tables inverse")
    for cfg in ctx.configs():
        F = ctx.facts(cfg)
        tag = "" if cfg == "default" else "[%s]" % cfg
        variants = streams.stream_variants(F)
        R.floor("Stream kinds", len(variants), 12)
        groups = {
            "input-interface": {
                "peek_char": F.find_impl("Stream", "parser::char_reader::CharRead", "peek_char"),
                "read_char": F.find_impl("Stream", "parser::char_reader::CharRead", "read_char"),
                "put_back_char": F.find_impl("Stream", "parser::char_reader::CharRead", "put_back_char"),
                "consume": F.find_impl("Stream", "parser::char_reader::CharRead", "consume"),
                "read": F.find_impl("Stream", "std::io::Read", "read"),
            },
            "output-interface": {
                "write": F.find_impl("Stream", "std::io::Write", "write"),
                "flush": F.find_impl("Stream", "std::io::Write", "flush"),
            },
            "line-count": {
                "lines_read": F.find_impl("Stream", None, "lines_read"),
                "add_lines_read": F.find_impl("Stream", None, "add_lines_read"),
                "set_lines_read": F.find_impl("Stream", None, "set_lines_read"),
            },
            "past-end-flag": {
                "past_end_of_stream": F.find_impl("Stream", None, "past_end_of_stream"),
                "set_past_end_of_stream": F.find_impl("Stream", None, "set_past_end_of_stream"),
            },
        }
        for g, fns in groups.items():
            streams.sibling_group(F, R, "C19" + tag, g, fns, variants)
        if cfg != "default":
            continue
        # ---- RF4: peeking does not consume ---------------------------------------------------------------
        for b in ("peek_char", "peek_code", "peek_byte"):
            fn = F.find_impl("Machine", None, b)
            h = F.hir(fn)
            bad = []
            peeks = 0
            for n in walk(h["body"]):
                if n["k"] == "MethodCall":
                    r = n.get("resolved") or n.get("callee") or ""
                    rt = (n["recv"].get("ty") or "") + (n["recv"].get("adj_ty") or "")
                    if "streams::Stream" in rt or "CharRead" in r or "io::Read" in r:
                        if CONSUMING.search(r) and not r.endswith("::peek_char"):
                            bad.append((n["name"], n["ln"]))
                        if n["name"] in ("peek_char", "peek_byte"):
                            peeks += 1
            R.ob("C19:peek-does-not-consume:%s" % b, not bad and peeks >= 1,
                 "%s calls consuming stream methods %s (peek calls: %d): a peek must leave the next get_* unchanged" % (b, bad, peeks), F.where(fn))
        # ---- RF9: eof_action tables ----------------------------------------------------------------------
        fwd = {}
        ea = F.find_impl("EOFAction", None, "as_atom")
        for m in matches_in(F.hir(ea)["body"], src=None):
            for arm in m["arms"]:
                v = None
                for leaf in pat_leaves(arm["pat"]):
                    rn = res_name(leaf) or ""
                    if "EOFAction::" in rn:
                        v = rn.rsplit("::", 1)[1]
                at = None
                for n in walk(arm["body"]):
                    at = atom_of(n) or at
                if v:
                    fwd[v] = at
        rev_tables = []
        for p, it in F.items.items():
            if it["file"] != "src/machine/streams.rs" or it["kind"] not in ("Fn", "AssocFn"):
                continue
            for m in matches_in(F.hir(p)["body"], src=None):
                tbl = {}
                for arm in m["arms"]:
                    at = None
                    for leaf in pat_leaves(arm["pat"]):
                        at = atom_of(leaf) or at
                    v = None
                    for n in walk(arm["body"]):
                        rn = res_name(n) or ""
                        if n["k"] == "Path" and "EOFAction::" in rn:
                            v = rn.rsplit("::", 1)[1]
                    if at and v:
                        tbl[at] = v
                if len(tbl) >= 2:
                    rev_tables.append((p, m["ln"], tbl))
        R.floor("eof_action decoding tables", len(rev_tables), 2)
        R.ob("C19:eof_action:as_atom-total", set(fwd) == {"EOFCode", "Error", "Reset"} and len(set(fwd.values())) == 3, "as_atom: %s" % fwd, F.where(ea))
        for p, ln, tbl in rev_tables:
            inv = {a: v for v, a in fwd.items()}
            R.ob("C19:eof_action:decode-inverse@%s:%d" % (short(p), ln - F.items[p]["line"]), tbl == inv,
                 "stream option decoding maps %s, the inverse of as_atom is %s" % (tbl, inv), "%s (line %s)" % (F.where(p), ln))
        if cfg != "default":
            continue
        # ---- "at_end_of_stream/1 agrees with the next read returning end-of-file; end_of_stream matches the data
        # consumed": the position-vs-length classification is made in several places (file streams, in-memory cursors,
        # set_stream_position) and must be the same three-way function everywhere: position == length is AT the end
        # (the next read reports end of file once), only position > length is PAST it
        n_cls = 0
        for p, it in sorted(F.items.items()):
            if it["file"] != "src/machine/streams.rs" or it["kind"] not in ("Fn", "AssocFn"):
                continue
            ph = F.hir(p)
            for n in walk(ph["body"]):
                # (a) `*past_end_of_stream = a OP b`
                if n["k"] == "Assign" and any(x["k"] in ("Field", "Path") and (x.get("name") == "past_end_of_stream" or res_name(x) == "past_end_of_stream") for x in walk(n["lhs"])) \
                        and n["rhs"]["k"] == "Binary" and n["rhs"]["op"] in ("Lt", "Le", "Gt", "Ge", "Eq", "Ne"):
                    n_cls += 1
                    op = n["rhs"]["op"]
                    a_is_len = any(x["k"] == "MethodCall" and x["name"] == "len" for x in walk(n["rhs"]["a"]))
                    if a_is_len:
                        op = {"Lt": "Gt", "Le": "Ge", "Gt": "Lt", "Ge": "Le"}.get(op, op)
                    R.ob("C19:past-end:strictly-beyond-length:%s" % short(p), op == "Gt",
                         "%s sets past_end_of_stream from `position %s length`: a stream positioned exactly at its length is AT the end (the next read reports end of file and only then "
                         "is the stream past it); `>=` makes at_end_of_stream/1 and the end_of_stream property say `past` one read early" % (short(p), op), F.where(p))
                # (b) match position.cmp(&length) { ... => AtEndOfStream::X }
                if n["k"] == "Match" and n["scrut"]["k"] == "MethodCall" and n["scrut"]["name"] == "cmp":
                    tbl = {}
                    for arm in n["arms"]:
                        o = None
                        for leaf in pat_leaves(arm["pat"]):
                            rn = res_name(leaf) or ""
                            if "Ordering::" in rn:
                                o = rn.rsplit("::", 1)[1]
                        v = None
                        for x in walk(arm["body"]):
                            rn = res_name(x) or ""
                            if x["k"] == "Path" and "AtEndOfStream::" in rn:
                                v = rn.rsplit("::", 1)[1]
                        if o and v:
                            tbl[o] = v
                    if tbl:
                        n_cls += 1
                        len_is_recv = any(x["k"] == "MethodCall" and x["name"] == "len" for x in walk(n["scrut"]["recv"]))
                        want = {"Equal": "At", "Less": "Not", "Greater": "Past"} if not len_is_recv else {"Equal": "At", "Less": "Past", "Greater": "Not"}
                        R.ob("C19:end-classification:%s@%d" % (short(p), n["ln"] - it["line"]), tbl == want,
                             "%s classifies position against length as %s; the oracle is %s" % (short(p), tbl, want), F.where(p))
        R.floor("position-vs-length classifications", n_cls, 3)
        lines_follow_consumed_newlines(F, R, tag)
        layout_then_eof(F, R, tag)
        unknown_position_is_not_past(F, R, tag)
        buffered_position(F, R, tag)


def lines_follow_consumed_newlines(F, R, tag):
    """position(position_and_lines_read(P, L)) "matches the data consumed": L counts the newlines consumed, whoever
    consumed them. read_term adds the parser's line count; the character-level readers (get_char/2, get_code/2,
    get_n_chars/3) must add one for every '\\n' they take out of the stream."""
    n = 0
    for name in ("get_char", "get_code", "get_n_chars"):
        fn = F.find_impl("Machine", None, name)
        body = F.hir(fn)["body"]
        arms = []
        for m in matches_in(body, src=None):
            if not any(x["k"] == "MethodCall" and x["name"] == "read_char" for x in walk(m["scrut"])) and \
                    not (m["scrut"]["k"] == "Path" and any(l["k"] == "Let" and l["pat"].get("name") == res_name(m["scrut"]) and "init" in l and
                                                          any(x["k"] == "MethodCall" and x["name"] == "read_char" for x in walk(l["init"])) for l in walk(body))):
                continue
            for arm in m["arms"]:
                leaves = pat_leaves(arm["pat"])
                if any((res_name(l) or "").endswith("::Ok") for l in walk(arm["pat"]) if isinstance(l, dict)) and any(x.get("k") == "PBind" for x in walk(arm["pat"])):
                    arms.append(arm)
        if not arms:
            raise AnchorLost("%s: the arm that receives a character from read_char() was not found" % name)
        for i, arm in enumerate(arms):
            n += 1
            counts = any(x["k"] == "MethodCall" and x["name"] == "add_lines_read" for x in walk(arm["body"])) and \
                any(x["k"] == "Lit" and (x.get("lit") or {}).get("char") == "\n" for x in walk(arm["body"]))
            R.ob("C19:lines-read:%s#%d:newline-consumed-is-counted%s" % (name, i, tag), counts,
                 "%s takes a character out of the stream without adding a consumed '\\n' to lines_read: after four get_char/2 calls on \"a\\nb\\nc\\n\" the position property "
                 "is position_and_lines_read(4,0), and the line numbers of later syntax errors on that stream are off" % name, F.where(fn))
    R.floor("character-level consuming reads", n, 3)


def layout_then_eof(F, R, tag):
    """Text written with write/nl and read back with read_term ends in layout (the newline after the last end token, blank
    lines, a comment). Reading past the last term must answer end_of_file. error_after_read_term turns an end of input
    into syntax_error(incomplete_reduction) when the lexer's location has moved since the read began — but layout moves
    it too, so the decision must also rest on what the lexer saw (only layout before the end, or the start of a token)."""
    fn = [p for p in F.items if p.endswith("read::error_after_read_term")]
    if len(fn) != 1:
        raise AnchorLost("read::error_after_read_term (%d)" % len(fn))
    body = F.hir(fn[0])["body"]
    ifs = [n for n in walk(body) if n["k"] == "If" and any(x["k"] == "MethodCall" and x["name"] == "incomplete_reduction" for x in walk(n["then"]))]
    if not ifs:
        raise AnchorLost("error_after_read_term: the branch that answers incomplete_reduction")
    outer = ifs[0]
    fields = {x["name"] for n in ifs for x in walk(n["cond"]) if x["k"] == "Field"} | {x["name"] for n in ifs for x in walk(n["cond"]) if x["k"] == "MethodCall"}
    beyond_location = fields - {"location", "line", "column", "lexer", "is_unexpected_eof"}
    R.ob("C19:read_term:layout-before-end-of-input-is-end_of_file%s" % tag, bool(beyond_location),
         "error_after_read_term decides between end_of_file and syntax_error(incomplete_reduction) from the lexer's location alone (%s): after `a.` a blank line, trailing "
         "blanks or a comment make the next read raise a syntax error instead of answering end_of_file" % sorted(fields), F.where(fn[0]))


def unknown_position_is_not_past(F, R, tag):
    """A file stream opened on a pipe or FIFO (piped standard input, open/3 of a FIFO) has no position. "Where is the end"
    is then not known before the next read: position_relative_to_end must answer Not, not mark the stream past its end —
    otherwise the first at_end_of_stream test (every get_char/2 makes one) ends the stream after one character.
    And when the parser then does meet the end of the input, read_term's end handler answers end_of_file (or runs the
    eof_action) on every path: a stream that cannot tell its position must not leave the term unbound."""
    pr = F.find_impl("Stream", None, "position_relative_to_end")
    body = F.hir(pr)["body"]
    bad = []
    n_none = 0
    for n in walk(body):
        # `if let Some(position) = position { .. } else { <here> }`
        if n["k"] == "If" and any(c.get("k") == "LetCond" and any((res_name(l) or "").endswith("::Some") for l in walk(c["pat"]) if isinstance(l, dict)) and
                                  res_name(c.get("init", {})) == "position" for c in walk(n["cond"])) and "else" in n:
            n_none += 1
            marks = any(x["k"] == "Assign" and any(y.get("k") == "Path" and res_name(y) == "past_end_of_stream" for y in walk(x["lhs"])) for x in walk(n["else"]))
            past = any((res_name(x) or "").endswith("AtEndOfStream::Past") for x in walk(n["else"]) if x["k"] == "Path")
            if marks or past:
                bad.append(n["ln"])
    if n_none < 1:
        raise AnchorLost("position_relative_to_end: the branch for a file stream without a position")
    R.ob("C19:end-of-stream:unknown-position-is-not-past%s" % tag, not bad,
         "position_relative_to_end marks a file stream whose position cannot be asked (a pipe, a FIFO) as past its end (line %s): `printf abc | scryer-prolog` reads "
         "one character with get_char/1 and then end_of_file" % bad, F.where(pr))
    eh = F.find_impl("MachineState", None, "read_term_eof_handler")
    eb = F.hir(eh)["body"]

    def answers(node):
        return any((x["k"] == "MethodCall" and x["name"] == "eof_action") or
                   any(m[0] in ("unify", "unify_fn") for m in x.get("mac", [])) or
                   (x["k"] in ("Call", "MethodCall") and re.search(r"MachineState>?::unify", x.get("resolved") or x.get("callee") or "")) for x in walk(node))
    top_ifs = [s for s in eb.get("stmts", []) + ([eb["expr"]] if "expr" in eb else []) if s["k"] == "If"]
    covered = False
    for i in top_ifs:
        e = i
        all_branches = True
        while True:
            if not answers(e["then"]):
                all_branches = False
            if "else" not in e:
                all_branches = False
                break
            nxt = e["else"]
            while nxt["k"] == "Block" and not nxt.get("stmts") and "expr" in nxt:
                nxt = nxt["expr"]
            if nxt["k"] == "If":
                e = nxt
                continue
            if not answers(nxt):
                all_branches = False
            break
        covered = covered or all_branches
    R.ob("C19:read_term:end-of-input-answered-on-every-path%s" % tag, covered,
         "read_term_eof_handler has a path that neither unifies end_of_file nor runs the eof_action (taken by streams that cannot tell their position: pipes, sockets): "
         "read/2 at the end of such a stream succeeds and leaves the term unbound", F.where(eh))


def buffered_position(F, R, tag):
    """Text streams read through a CharReader, which takes a chunk (up to 8 KiB) out of the underlying reader at once. The
    position of such a stream — and whether it is at its end — is the underlying reader's position MINUS what the
    CharReader still holds (rem_buf_len). Every arm of Stream::position / position_relative_to_end that computes from an
    underlying position for a CharReader-wrapped kind must subtract it (directly or in the helper it calls)."""
    variants = {v["name"]: v for v in streams.stream_variants(F)} if isinstance(streams.stream_variants(F), list) and streams.stream_variants(F) and isinstance(streams.stream_variants(F)[0], dict) else None
    n = 0
    for fname in ("position", "position_relative_to_end"):
        fn = F.find_impl("Stream", None, fname)
        body = F.hir(fn)["body"]
        for m in matches_in(body, src=None):
            for arm in m["arms"]:
                vs = [(res_name(l) or "").rsplit("::", 1)[-1] for l in walk(arm["pat"]) if isinstance(l, dict) and "streams::Stream::" in (res_name(l) or "")]
                if not vs:
                    continue
                reads_pos = [x for x in walk(arm["body"]) if (x["k"] == "MethodCall" and x["name"] in ("position", "stream_position")) or
                             (x["k"] == "Call" and (x.get("resolved") or x.get("callee") or "").endswith("streams::cursor_position"))]
                if not reads_pos:
                    continue
                # is the payload a CharReader? look at the types mentioned in the arm
                tys = " ".join(str(x.get("ty") or "") + str(x.get("adj_ty") or "") for x in walk(arm["body"]))
                if "CharReader<" not in tys:
                    continue
                direct = any(x["k"] == "MethodCall" and x["name"] == "rem_buf_len" for x in walk(arm["body"]))
                via = False
                for x in reads_pos:
                    r = x.get("resolved") or x.get("callee") or ""
                    if r in F.items and F.items[r]["file"].startswith("src/") and any(y["k"] == "MethodCall" and y["name"] == "rem_buf_len" for y in walk(F.hir(r)["body"])):
                        via = True
                n += 1
                R.ob("C19:buffered-position:%s:%s:pending-buffer-subtracted%s" % (fname, "|".join(vs), tag), direct or via,
                     "Stream::%s computes the position of a %s stream from its underlying reader without subtracting what the CharReader has buffered: after the first "
                     "character of an in-memory user_input the stream reports position = length and end_of_stream = at, and every later read answers end_of_file"
                     % (fname, "|".join(vs)), "%s (line %s)" % (F.where(fn), arm["ln"]))
    R.floor("position computations of buffered stream kinds%s" % tag, n, 2)
