"""C33 — Heap writes never exceed the reserved capacity.

Decides, for the raw writes of `impl Heap` (push_cell, append, copy_pstr_within,
copy_slice_to_end), that the bytes written after the current top are covered by the dominating
capacity guard — symbolically, by linear arithmetic over the function's own quantities, hence
for every fill level — and that byte_len advances by exactly the bytes written. Writes through a
ReservedHeapSection are unchecked by design; for them: a section is produced only by
Heap::reserve, and each write_with client reserves through its paired size function. The
arithmetic equality of a size function and the bytes its writer emits is value-level and NOT
decided (stated limit).
"""
import itertools
import re

from .core import AnchorLost, hir_calls, res_name, short, walk

EXPLANATION = (
    "RF7 guarded raw write: the typed HIR of each raw-writing Heap method is turned into linear forms "
    "(heap_index!(x) = 8x, size_of::<HeapCellValue>() = 8 from the resolved callee, let-bound locals "
    "substituted, if-expressions case-split on their condition); for every case assignment the sum of "
    "the lengths of the raw writes inside the guarded branch must equal the guard `free_space() >= G` "
    "bound or be below it with no symbolic remainder, and the byte_len increment must equal the bytes "
    "written. RF4: who constructs ReservedHeapSection; RF3: reserve/size-function pairing of the section writers."
)
ASSUMPTIONS = ["byte_len and byte_cap are multiples of 8 (cell size); grow() returning true means byte_cap strictly increased",
               "a size function and its paired writer agree on the number of cells (value-level, not decided)"]

CELL = 8


class Lin:
    def __init__(self, c=0, t=None):
        self.c = c
        self.t = dict(t or {})

    def __add__(self, o):
        t = dict(self.t)
        for k, v in o.t.items():
            t[k] = t.get(k, 0) + v
        return Lin(self.c + o.c, {k: v for k, v in t.items() if v != 0})

    def scale(self, k):
        return Lin(self.c * k, {a: v * k for a, v in self.t.items() if v * k != 0})

    def __sub__(self, o):
        return self + o.scale(-1)

    def is_const(self):
        return not self.t

    def __repr__(self):
        parts = ["%s*%s" % (v, k) if v != 1 else k for k, v in sorted(self.t.items())]
        if self.c or not parts:
            parts.append(str(self.c))
        return " + ".join(parts)


def cond_key(c):
    """Structural key of an if-condition (used to keep case splits consistent)."""
    k = c["k"]
    if k == "Binary":
        return "%s(%s,%s)" % (c["op"], cond_key(c["a"]), cond_key(c["b"]))
    if k == "Lit":
        return str(next(iter(c["lit"].values())))
    if k == "Path":
        return res_name(c) or "?"
    if k == "MethodCall":
        return "%s.%s()" % (cond_key(c["recv"]), c["name"])
    if k == "Field":
        return cond_key(c["base"]) + "." + c["name"]
    if k == "Unary":
        return "%s(%s)" % (c.get("op"), cond_key(c["a"]))
    return k


class Env:
    def __init__(self, fn_hir):
        self.lets = {}
        for n in walk(fn_hir["body"]):
            if n["k"] == "Let" and n["pat"]["k"] == "PBind" and "init" in n:
                self.lets.setdefault(n["pat"]["name"], n["init"])
        self.assign = {}

    def lin(self, e, depth=0):
        k = e["k"]
        if depth > 30:
            return Lin(0, {"<deep>": 1})
        if k == "Lit" and "int" in e["lit"]:
            return Lin(int(e["lit"]["int"]))
        if k == "Path":
            nm = res_name(e)
            if "val" in e:
                return Lin(int(e["val"]))
            if nm in self.lets:
                init = self.lets[nm]
                if isinstance(init, Lin):
                    return init
                if init["k"] in ("Binary", "Lit", "If", "Block", "Path", "Cast", "Call"):
                    return self.lin(init, depth + 1)
                if init["k"] == "MethodCall" and init["name"] in ("len",):
                    return Lin(0, {cond_key(init): 1})
            return Lin(0, {nm or "?": 1})
        if k == "Binary":
            a, b = self.lin(e["a"], depth + 1), self.lin(e["b"], depth + 1)
            if e["op"] == "Add":
                return a + b
            if e["op"] == "Sub":
                return a - b
            if e["op"] == "Mul":
                if a.is_const():
                    return b.scale(a.c)
                if b.is_const():
                    return a.scale(b.c)
            return Lin(0, {cond_key(e): 1})
        if k == "Call":
            r = e.get("inst") or e.get("resolved") or e.get("callee") or ""
            if re.search(r"mem::size_of::<types::HeapCellValue>$", r):
                return Lin(CELL)
            return Lin(0, {cond_key(e) + ":" + short(r): 1})
        if k == "Cast":
            return self.lin(e["a"], depth + 1)
        if k == "Block" and "expr" in e and all(s["k"] == "Let" and s["pat"]["k"] == "PBind" and "init" in s for s in e["stmts"]):
            # e.g. heap_index!(x) = { let idx = x; size_of::<HeapCellValue>().checked_mul(idx).unwrap_or_else(panic) }
            saved = dict(self.lets)
            for s in e["stmts"]:
                self.lets[s["pat"]["name"]] = self.lin(s["init"], depth + 1)   # evaluated in the outer scope (shadowing)
            try:
                return self.lin(e["expr"], depth + 1)
            finally:
                self.lets = saved
        if k == "MethodCall" and e["name"] in ("unwrap_or_else", "unwrap", "expect") and e["recv"]["k"] == "MethodCall" and e["recv"]["name"] == "checked_mul":
            a, b = self.lin(e["recv"]["recv"], depth + 1), self.lin(e["recv"]["args"][0], depth + 1)
            if a.is_const():
                return b.scale(a.c)
            if b.is_const():
                return a.scale(b.c)
        if k == "If" and "else" in e:
            ck = cond_key(e["cond"])
            v = self.assign.get(ck)
            if v is None:
                return Lin(0, {"if(" + ck + ")": 1})
            return self.lin(e["then"] if v else e["else"], depth + 1)
        if k == "MethodCall":
            return Lin(0, {cond_key(e): 1})
        if k == "Field":
            return Lin(0, {cond_key(e): 1})
        return Lin(0, {k: 1})


RAW = {
    "write_bytes": ("count", 2),
    "copy_nonoverlapping": ("count", 2),
}


def raw_writes(node, env, active=True):
    """Yield (kind, Lin length) for raw writes below node that are executed under env.assign."""
    out = []
    incs = []

    def rec(n):
        if isinstance(n, list):
            for x in n:
                rec(x)
            return
        if not isinstance(n, dict):
            return
        k = n.get("k")
        if k == "If" and "cond" in n and n["cond"]["k"] != "LetCond":
            ck = cond_key(n["cond"])
            v = env.assign.get(ck)
            rec(n["cond"])
            if v is None:
                rec(n["then"])
                if "else" in n:
                    rec(n["else"])
            elif v:
                rec(n["then"])
            elif "else" in n:
                rec(n["else"])
            return
        if k == "Call":
            r = n.get("resolved") or n.get("callee") or ""
            m = re.search(r"ptr::(write_bytes|copy_nonoverlapping|write)$|intrinsics::(write_bytes|copy_nonoverlapping)$", r)
            if m:
                name = m.group(1) or m.group(2)
                if name == "write":
                    out.append(("ptr::write", Lin(CELL)))
                else:
                    out.append((name, env.lin(n["args"][2])))
        if k == "MethodCall":
            r = n.get("resolved") or n.get("callee") or ""
            if n["name"] == "write" and re.search(r"ptr::mut_ptr::<impl \*mut T>::write$", r):
                out.append(("cell_ptr.write", Lin(CELL)))
            if n["name"] == "copy_within" and "slice" in r:
                rng = n["args"][0]
                if rng["k"] == "Struct":
                    f = dict(rng["fields"])
                    out.append(("copy_within", env.lin(f["end"]) - env.lin(f["start"])))
            if n["name"] in ("copy_from_slice", "clone_from_slice") and "slice" in r:
                out.append((n["name"], Lin(0, {"len(dest slice)": 1})))
        if k == "AssignOp" and n["op"].startswith("Add") and n["lhs"]["k"] == "Field" and n["lhs"]["name"] == "byte_len":
            incs.append(env.lin(n["rhs"]))
        for key, v in n.items():
            if isinstance(v, (dict, list)):
                rec(v)

    rec(node)
    return out, incs


def run(ctx, R):
    F = ctx.facts()
    R.rule("RF7 guarded raw writes by linear arithmetic with case splits; RF4 section construction; RF3 reserve/size-function pairing")
    heap_fns = {m: F.find_impl("Heap", None, m) for m in ("push_cell", "append", "copy_pstr_within", "copy_slice_to_end", "reserve")}

    # ---- loop-guarded writers ---------------------------------------------------------------------------
    n_cases = 0
    for m in ("copy_pstr_within", "copy_slice_to_end", "append"):
        fn = heap_fns[m]
        h = F.hir(fn)
        env = Env(h)
        guards = [n for n in walk(h["body"]) if n["k"] == "If" and n["cond"]["k"] == "Binary" and n["cond"]["op"] == "Ge"
                  and n["cond"]["a"]["k"] == "MethodCall" and n["cond"]["a"]["name"] == "free_space"]
        if len(guards) != 1:
            raise AnchorLost("%s: capacity guard `free_space() >= G` not found (%d)" % (m, len(guards)))
        g = guards[0]
        # every raw write of the function is inside the guarded branch
        env.assign = {}
        all_w, _ = raw_writes(h["body"], env)
        in_w, _ = raw_writes(g["then"], env)
        R.ob("C33:%s:writes-inside-guard" % m, len(all_w) == len(in_w) and len(in_w) >= 1, "%d raw writes, %d inside the guarded branch" % (len(all_w), len(in_w)), F.where(fn))
        # the failure branch grows or reports AllocError
        el = g.get("else")
        grows = el is not None and any(x["k"] == "MethodCall" and x["name"] == "grow" for x in walk(el)) and \
            any((x.get("ctor") or res_name(x) or "").endswith("AllocError") for x in walk(el))
        R.ob("C33:%s:else-grows-or-fails" % m, grows, "when space is short the function must grow the heap or return AllocError, then re-test", F.where(fn))
        # case splits over the if-conditions inside the function (other than the guard and grow test)
        conds = sorted({cond_key(n["cond"]) for n in walk(h["body"]) if n["k"] == "If" and n is not g and n["cond"]["k"] != "LetCond"
                        and not any(x["k"] == "MethodCall" and x["name"] in ("grow", "free_space") for x in walk(n["cond"]))})
        if len(conds) > 6:
            raise AnchorLost("%s: too many conditions to split (%d)" % (m, len(conds)))
        for vals in itertools.product([True, False], repeat=len(conds)):
            env.assign = dict(zip(conds, vals))
            G = env.lin(g["cond"]["b"])
            ws, incs = raw_writes(g["then"], env)
            total = Lin(0)
            for _, l in ws:
                total = total + l
            inc = Lin(0)
            for l in incs:
                inc = inc + l
            # copy_from_slice into a from_raw_parts_mut(.., other_len) slice: its length is the slice length
            if m == "append":
                sl = [x for x in walk(g["then"]) if x["k"] == "Call" and (x.get("resolved") or "").endswith("slice::from_raw_parts_mut")]
                if len(sl) == 1:
                    total = Lin(total.c, {k: v for k, v in total.t.items() if k != "len(dest slice)"}) + env.lin(sl[0]["args"][1]).scale(total.t.get("len(dest slice)", 0))
            slack = G - total
            case = ",".join("%s=%s" % (c, v) for c, v in env.assign.items()) or "-"
            n_cases += 1
            R.ob("C33:%s:guard-covers-writes[%s]" % (m, case), slack.is_const() and slack.c >= 0,
                 "guard reserves %s bytes, raw writes put %s bytes after the heap top: slack %s must be a non-negative constant "
                 "(otherwise some fill level lets the last write cross byte_cap)" % (G, total, slack), F.where(fn))
            d = inc - total
            R.ob("C33:%s:top-advances-by-bytes-written[%s]" % (m, case), d.is_const() and d.c == 0,
                 "byte_len advances by %s, bytes written %s" % (inc, total), F.where(fn))
            R.sample({"fn": m, "case": case, "guard": repr(G), "written": repr(total), "advance": repr(inc)})
    R.floor("guard/write cases", n_cases, 4)

    # ---- grow: capacity and pointer change only when the allocation succeeded ---------------------------------
    gr = F.find_impl("InnerHeap", None, "grow")
    gh = F.hir(gr)
    commits = []

    def rec_g(n, anc):
        if isinstance(n, list):
            for x in n:
                rec_g(x, anc)
            return
        if not isinstance(n, dict):
            return
        if n.get("k") == "Assign" and n["lhs"]["k"] == "Field" and n["lhs"]["name"] in ("byte_cap", "ptr"):
            guarded = False
            for node, key in reversed(anc):
                if node["k"] == "If":
                    c = node["cond"]
                    neg = c["k"] == "Unary" and c.get("op") == "Not"
                    isnull = any(x["k"] == "MethodCall" and x["name"] == "is_null" for x in walk(c))
                    if isnull and ((neg and key == "then") or (not neg and key == "else")):
                        guarded = True
            commits.append((n["lhs"]["name"], guarded, n["ln"]))
        if "k" in n:
            for key, v in n.items():
                if isinstance(v, (dict, list)):
                    rec_g(v, anc + [(n, key)])
        else:
            for v in n.values():
                if isinstance(v, (dict, list)):
                    rec_g(v, anc)

    rec_g(gh["body"], [])
    if not commits:
        raise AnchorLost("InnerHeap::grow: no assignment to byte_cap/ptr")
    for fld, guarded, ln in commits:
        R.ob("C33:grow:%s-committed-only-on-success" % fld, guarded,
             "InnerHeap::grow assigns %s at line %s outside the `!new_ptr.is_null()` branch: after a failed (re)allocation the heap would believe in a capacity "
             "it does not own, and the writes that follow the next successful guard cross the real end of the buffer" % (fld, ln), F.where(gr))
    rets = [x for x in walk(gh["body"]) if x["k"] == "Lit" and "bool" in x["lit"]]
    R.ob("C33:grow:reports-failure", {x["lit"]["bool"] for x in rets} == {True, False}, "grow must return false when the allocation failed (callers turn that into AllocError)", F.where(gr))

    # ---- push_cell: single-cell shape -----------------------------------------------------------------------
    fn = heap_fns["push_cell"]
    h = F.hir(fn)
    env = Env(h)
    ws, incs = raw_writes(h["body"], env)
    full_test = [n for n in walk(h["body"]) if n["k"] == "If" and any(x["k"] == "Binary" and x["op"] == "Eq" and {cond_key(x["a"]).rsplit(".", 1)[-1], cond_key(x["b"]).rsplit(".", 1)[-1]} == {"byte_len", "byte_cap"} for x in walk(n["cond"]))
                 and any(x["k"] == "MethodCall" and x["name"] == "grow" for x in walk(n["cond"]))]
    ok = len(ws) == 1 and ws[0][1].is_const() and ws[0][1].c == CELL and len(incs) == 1 and incs[0].is_const() and incs[0].c == CELL and len(full_test) == 1 and \
        any(x["k"] == "Ret" for x in walk(full_test[0]["then"]))
    R.ob("C33:push_cell:single-cell-after-full-test", ok,
         "push_cell must write exactly one cell (%s) and advance by one cell (%s) after `byte_len == byte_cap && !grow()` returned an error" % ([repr(w[1]) for w in ws], [repr(i) for i in incs]), F.where(fn))

    # ---- reserve: section only when space suffices -----------------------------------------------------------
    fn = heap_fns["reserve"]
    h = F.hir(fn)
    guards = [n for n in walk(h["body"]) if n["k"] == "If" and n["cond"]["k"] == "Binary" and n["cond"]["op"] == "Ge" and n["cond"]["a"]["k"] == "MethodCall" and n["cond"]["a"]["name"] == "free_space"]
    structs = [n for n in walk(h["body"]) if n["k"] == "Struct" and (res_name(n) or "").endswith("ReservedHeapSection")]
    in_guard = guards and all(any(s is x for x in walk(guards[0]["then"])) for s in structs)
    env = Env(h)
    G = env.lin(guards[0]["cond"]["b"]) if guards else None
    # `len` is heap_index_checked!(num_cells): a checked multiplication by the cell size
    checked = any(x["k"] == "MethodCall" and x["name"] == "checked_mul" for x in walk(h["body"]))
    R.ob("C33:reserve:section-only-under-guard", bool(guards) and len(structs) == 1 and in_guard and checked,
         "reserve must hand out a section only inside `free_space() >= len` with len = num_cells * 8 computed by checked_mul (guard %s)" % G, F.where(fn))
    # RF4: who constructs a ReservedHeapSection
    makers = set()
    for p, it in F.items.items():
        if it["kind"] not in ("Fn", "AssocFn") or it["file"] != "src/machine/heap.rs" and not it["file"].startswith("src/"):
            continue
        if "::tests::" in p:
            continue
        hh = F.hir(p)
        if any(n["k"] == "Struct" and (res_name(n) or "").endswith("heap::ReservedHeapSection") for n in walk(hh["body"])):
            makers.add(p)
    R.ob("C33:section:who-may-construct", makers == {heap_fns["reserve"]}, "ReservedHeapSection is constructed in %s; only Heap::reserve may (it is the capacity check)" % sorted(short(m) for m in makers), "src/machine/heap.rs")

    # ---- RF3: reserve / size-function pairing of the section writers ------------------------------------------
    def pairing(method, size_fn, writer_name, extra_cells):
        fn = F.find_impl("Heap", None, method)
        hh = F.hir(fn)
        env2 = Env(hh)
        res = [n for n in walk(hh["body"]) if n["k"] == "MethodCall" and n["name"] == "reserve"]
        if len(res) != 1:
            raise AnchorLost("%s: reserve calls %d" % (method, len(res)))
        arg = res[0]["args"][0]
        names = {res_name(x) for x in walk(arg) if x["k"] == "Path"}
        src = set()
        for nm in names:
            if nm in env2.lets:
                src |= {short(r) for _, r, _ in hir_calls(env2.lets[nm])}
        src |= {short(r) for _, r, _ in hir_calls(arg)}
        uses_size = any(s.endswith(size_fn) for s in src)
        L = env2.lin(arg)
        writer_used = any(x["k"] in ("MethodCall", "Call") and (x.get("name") == writer_name or (x.get("resolved") or "").endswith(writer_name)) for x in walk(hh["body"]))
        direct = len(L.t) == 1 and list(L.t.values()) == [1] and size_fn in list(L.t.keys())[0]
        R.ob("C33:pairing:%s" % method, uses_size and writer_used and L.c == extra_cells and direct,
             "%s reserves %s (from %s) and writes with %s: the reservation must be exactly %s(src) plus %d cell(s). (The size function counts BYTES and "
             "reserve() takes CELLS: the 8x slack is what covers the link cells compute_pstr_size does not count for text after an embedded NUL; scaling "
             "the reservation down makes push_pstr write past the reserved section.)" % (method, L, sorted(src), writer_name, size_fn, extra_cells), F.where(fn))

    pairing("allocate_pstr", "compute_pstr_size", "push_pstr", 0)
    pairing("allocate_cstr", "compute_pstr_size", "push_pstr", 1)
    fw = [p for p, it in F.items.items() if p.endswith("heap::Heap::functor_writer") or (it.get("self_ty") == "machine::heap::Heap" and p.endswith("::functor_writer"))]
    if len(fw) != 1:
        raise AnchorLost("Heap::functor_writer: %s" % fw)
    hh = F.hir(fw[0])
    uses = {short(r) for _, r, _ in hir_calls(hh["body"])}
    R.ob("C33:pairing:functor_writer", any(u.endswith("compute_functor_byte_size") for u in uses) and any(u.endswith("ReservedHeapSection::functor_writer") for u in uses) and any(u.endswith("Heap::reserve") for u in uses),
         "Heap::functor_writer must size with compute_functor_byte_size, reserve, then write with ReservedHeapSection::functor_writer; calls %s" % sorted(uses), F.where(fw[0]))
    sl = F.find("machine::heap::sized_iter_to_heap_list")
    hh = F.hir(sl)
    env3 = Env(hh)
    res = [n for n in walk(hh["body"]) if n["k"] == "MethodCall" and n["name"] == "reserve"]
    pushes_loop = sum(1 for lp in walk(hh["body"]) if lp["k"] == "Loop" for x in walk(lp) if x["k"] == "MethodCall" and x["name"] == "push_cell")
    pushes_all = sum(1 for x in walk(hh["body"]) if x["k"] == "MethodCall" and x["name"] == "push_cell")
    arg_ok = False
    if len(res) == 1:
        a = res[0]["args"][0]
        lits = [int(x["lit"]["int"]) for x in walk(a) if x["k"] == "Lit" and "int" in x["lit"]]
        arg_ok = sorted(lits) == [1, 2] and any(x["k"] == "MethodCall" and x["name"] == "checked_mul" for x in walk(a))
    R.ob("C33:pairing:sized_iter_to_heap_list", arg_ok and pushes_loop == 2 and pushes_all == 3,
         "the list writer emits 2 cells per element and 1 terminator (%d in the loop, %d in total); it must reserve 1 + 2*size with a checked multiplication" % (pushes_loop, pushes_all), F.where(sl))
