"""scryer-prolog specific helpers shared by the rule modules (anchors located by def-path)."""
import re

from .core import AnchorLost, atom_of, hir_calls, matches_in, pat_leaves, res_name, short, walk

INSTR = "instructions::Instruction::"
_cache = {}


def strip_ref(p):
    while p["k"] == "PRef" or (p["k"] == "PBind" and "sub" in p):
        p = p["sub"]
    return p


def dispatch_loop(F):
    return F.find_impl("Machine", None, "dispatch_loop")


def dispatch_arms(F):
    """{Instruction variant name: [arm, ...]} for the instruction match of dispatch_loop."""
    key = ("dispatch_arms", id(F))
    if key in _cache:
        return _cache[key]
    dl = dispatch_loop(F)
    best = None
    for m in matches_in(F.hir(dl)["body"], src=None):
        tbl = {}
        wild = []
        for arm in m["arms"]:
            for leaf in pat_leaves(arm["pat"]):
                pv = strip_ref(leaf)
                rn = res_name(pv) or ""
                if rn.startswith(INSTR):
                    tbl.setdefault(rn[len(INSTR):], []).append(arm)
                elif pv["k"] in ("PWild", "PBind"):
                    wild.append(arm)
        if best is None or len(tbl) > len(best[1]):
            best = (m, tbl, wild)
    if best is None or len(best[1]) < 300:
        raise AnchorLost("instruction match of dispatch_loop not found")
    _cache[key] = best
    return best


def instruction_variants(F):
    return [v["name"] for v in F.enum("instructions::Instruction")["variants"]]


def ordering_set(pat):
    """Set of std::cmp::Ordering variants named by a pattern ('*' for wildcard/binding)."""
    out = set()
    for leaf in pat_leaves(pat):
        leaf = strip_ref(leaf)
        rn = res_name(leaf) or ""
        m = re.search(r"cmp::Ordering::(Less|Equal|Greater)$", rn)
        if m:
            out.add(m.group(1))
        elif leaf["k"] in ("PWild", "PBind"):
            out.add("*")
        elif leaf["k"] == "PTupleStruct" and rn.endswith("Some"):
            out |= ordering_set(leaf["pats"][0])
        elif leaf["k"] in ("PPath",) and rn.endswith("None"):
            out.add("None")
        else:
            out.add("?" + (rn or leaf["k"]))
    return out


ALL_ORD = {"Less", "Equal", "Greater"}


def walk_skip(node, skip):
    """Pre-order walk that does not descend into nodes for which skip(node) holds."""
    stack = [node]
    while stack:
        n = stack.pop()
        if isinstance(n, dict):
            if "k" in n:
                if skip(n):
                    continue
                yield n
            for v in reversed(list(n.values())):
                if isinstance(v, (dict, list)):
                    stack.append(v)
        elif isinstance(n, list):
            for v in reversed(n):
                if isinstance(v, (dict, list)):
                    stack.append(v)


def _is_call_count_macro(n):
    return any(m[0] == "increment_call_count" for m in n.get("mac", []))


def arm_effect(arm_body):
    """Classify a dispatch-arm branch: 'advance' (assigns machine_st.p and does not backtrack),
    'backtrack' (calls backtrack), 'none' or 'mixed'. The increment_call_count! expansion (which
    backtracks only when the inference limit is hit) is transparent."""
    bt = False
    adv = False
    for n in walk_skip(arm_body, _is_call_count_macro):
        if n["k"] in ("Assign", "AssignOp"):
            lhs = n["lhs"]
            if lhs["k"] == "Field" and lhs["name"] == "p":
                adv = True
        if n["k"] in ("Call", "MethodCall"):
            r = n.get("resolved") or n.get("callee") or ""
            if re.search(r"MachineState>?::backtrack$", r):
                bt = True
    if bt and not adv:
        return "backtrack"
    if adv and not bt:
        return "advance"
    if not adv and not bt:
        return "none"
    return "mixed"


def success_orderings(match_node):
    """For a `match <Ordering expr> {..}`: the set of orderings whose arm advances p, and the set
    whose arm backtracks. Wildcards stand for the orderings not named by earlier arms."""
    named = set()
    succ, fail, other = set(), set(), set()
    for arm in match_node["arms"]:
        s = ordering_set(arm["pat"])
        if "*" in s:
            s = (s - {"*"}) | (ALL_ORD - named)
        s = {x for x in s if x in ALL_ORD or x == "None"}
        cur = s - named if not s <= named else set()
        named |= s
        eff = arm_effect(arm["body"])
        if eff == "advance":
            succ |= cur
        elif eff == "backtrack":
            fail |= cur
        else:
            other |= cur
    return succ, fail, other


# ---- generic "test of an Ordering-valued call" recogniser --------------------------------------

UNIVERSE4 = {"Less", "Equal", "Greater", "None"}


def _call_to(n, rx):
    if n["k"] in ("Call", "MethodCall"):
        r = n.get("resolved") or n.get("callee") or ""
        return re.search(rx, r) is not None
    return False


def option_ordering_set(pat):
    """Outcomes (Less/Equal/Greater/None) matched by a pattern over Option<Ordering> or Ordering."""
    out = set()
    for leaf in pat_leaves(pat):
        leaf = strip_ref(leaf)
        rn = res_name(leaf) or ""
        if leaf["k"] == "PTupleStruct" and rn.endswith("::Some"):
            inner = option_ordering_set(leaf["pats"][0])
            if "*" in inner:
                inner = (inner - {"*"}) | ALL_ORD
            out |= inner - {"None"}
        elif rn.endswith("::None"):
            out.add("None")
        elif re.search(r"cmp::Ordering::(Less|Equal|Greater)$", rn):
            out.add(rn.rsplit("::", 1)[1])
        elif leaf["k"] in ("PWild", "PBind"):
            out.add("*")
        else:
            out.add("?" + (rn or leaf["k"]))
    return out


def ordering_tests(body, cmp_rx, negeq_rx=None, universe=UNIVERSE4):
    """Find the tests of an ordering call (callee matching cmp_rx) in `body` and return, per site,
    dict(kind, args, succ, fail, other): the outcome sets on which the branch advances p /
    backtracks. Recognised shapes: `match call {..}`, `if let PAT = call {..} else {..}`, and
    `if negeq_call {..} else {..}` where negeq_rx names a bool function that is true iff the
    outcome is not Equal."""
    sites = []
    for n in walk(body):
        if n["k"] == "Match" and _call_to(n["scrut"], cmp_rx):
            named = set()
            succ, fail, other = set(), set(), set()
            for arm in n["arms"]:
                s = option_ordering_set(arm["pat"])
                if "*" in s:
                    s = (s - {"*"}) | (universe - named)
                cur = {x for x in s if x in universe} - named
                named |= cur
                eff = arm_effect(arm["body"])
                (succ if eff == "advance" else fail if eff == "backtrack" else other).update(cur)
            sites.append(dict(kind="match", call=n["scrut"], succ=succ, fail=fail, other=other | (universe - named)))
        elif n["k"] == "If":
            c = n["cond"]
            neg = False
            while c["k"] == "Unary" and c.get("op") == "Not":
                neg = not neg
                c = c["a"]
            tset = None
            call = None
            if c["k"] == "LetCond" and _call_to(c["init"], cmp_rx):
                s = option_ordering_set(c["pat"])
                if "*" in s:
                    s = set(universe)
                tset = {x for x in s if x in universe}
                call = c["init"]
            elif negeq_rx and _call_to(c, negeq_rx):
                tset = universe - {"Equal"}
                call = c
            if tset is None:
                continue
            if neg:
                tset = universe - tset
            eset = universe - tset
            te = arm_effect(n["then"])
            ee = arm_effect(n["else"]) if "else" in n else "none"
            succ, fail, other = set(), set(), set()
            (succ if te == "advance" else fail if te == "backtrack" else other).update(tset)
            (succ if ee == "advance" else fail if ee == "backtrack" else other).update(eset)
            sites.append(dict(kind="if", call=call, succ=succ, fail=fail, other=other))
    return sites


# ---- operand-order preservation in (lhs, rhs) pair matches ------------------------------------------

NONCOMM_BINOPS = {"Div", "Rem", "Sub", "Shl", "Shr"}
NONCOMM_METHODS = {"checked_div", "checked_rem", "checked_sub", "rem_floor", "div_floor", "checked_shl", "checked_shr",
                   "checked_pow", "powf", "powi", "atan2", "pow", "div_rem", "div_euclid", "rem_euclid", "wrapping_sub",
                   "wrapping_shl", "wrapping_shr", "overflowing_sub", "log"}
NONCOMM_FUNCS = re.compile(r"(arithmetic::div_f|ibig_rem_floor|arithmetic::binary_pow|checked_signed_shl|arithmetic_ops::float_pow|"
                           r"arithmetic_ops::(idiv|modulus|remainder|shl|shr|int_pow|pow|sub|rdiv|int_floor_div|div))$")


def _locals(e):
    return {res_name(n) for n in walk(e) if n["k"] == "Path" and "local" in (n.get("res") or {})}


def _bound(p):
    return {n["name"] for n in walk(p) if n["k"] == "PBind"}


def operand_order_sites(fn_hir):
    """For every arm of a match over a pair built from the function's first two value parameters,
    yield (arm, node, origin_of_first_operand, origin_of_second_operand, description) for each
    non-commutative binary operation in the arm. Origins are subsets of {'L','R'}: which side of
    the pair the operand is computed from (following let-bindings inside the arm)."""
    params = [p.get("name") for p in fn_hir["params"] if p["k"] == "PBind"]
    out = []
    for m in matches_in(fn_hir["body"], src=None):
        s = m["scrut"]
        if s["k"] != "Tup" or len(s["elems"]) != 2:
            continue
        e0, e1 = s["elems"]
        n0 = res_name(e0) if e0["k"] == "Path" else None
        n1 = res_name(e1) if e1["k"] == "Path" else None
        if n0 not in params or n1 not in params or n0 == n1:
            continue
        flip = params.index(n0) > params.index(n1)
        for arm in m["arms"]:
            for leaf in pat_leaves(arm["pat"]):
                if leaf["k"] != "PTuple" or len(leaf["pats"]) != 2:
                    continue
                lb, rb = _bound(leaf["pats"][0]), _bound(leaf["pats"][1])
                if flip:
                    lb, rb = rb, lb
                origin = {}
                for x in lb:
                    origin[x] = {"L"}
                for x in rb:
                    origin.setdefault(x, set()).add("R")

                def org(e):
                    o = set()
                    for v in _locals(e):
                        o |= origin.get(v, set())
                    return o

                # let-bindings in source order
                for n in walk(arm["body"]):
                    if n["k"] == "Let" and "init" in n:
                        o = org(n["init"])
                        for b in _bound(n["pat"]):
                            origin[b] = set(o)
                for n in walk(arm["body"]):
                    a = b = None
                    desc = None
                    if n["k"] == "Binary" and n["op"] in NONCOMM_BINOPS:
                        a, b, desc = n["a"], n["b"], "operator " + n["op"]
                    elif n["k"] == "MethodCall" and n["name"] in NONCOMM_METHODS and n["args"]:
                        a, b, desc = n["recv"], n["args"][0], "method " + n["name"]
                    elif n["k"] == "Call" and NONCOMM_FUNCS.search(n.get("resolved") or n.get("callee") or "") and len(n["args"]) >= 2:
                        a, b, desc = n["args"][0], n["args"][1], "call " + (n.get("resolved") or n.get("callee")).rsplit("::", 1)[-1]
                    if a is None:
                        continue
                    out.append((arm, n, org(a), org(b), desc))
    return out


def operand_order_obligations(F, fn, R, prefix):
    """RF1: in every (lhs, rhs) arm the first operand of a non-commutative operation comes from the
    left value and the second from the right value. Returns the number of sites examined."""
    h = F.hir(fn)
    cnt = 0
    seen = {}
    for arm, n, oa, ob, desc in operand_order_sites(h):
        if not oa or not ob or oa == ob:
            continue  # constants / same-side helper computations carry no order information
        cnt += 1
        ok = oa == {"L"} and ob == {"R"}
        key = "%s:%s@%d" % (prefix, desc.split()[-1], n["ln"] - F.items[fn]["line"])
        i = seen.get(key, 0)
        seen[key] = i + 1
        if i:
            key += "#%d" % i
        R.ob(key, ok,
             "%s takes its first operand from the %s value and its second from the %s value of the matched pair"
             % (desc, "/".join(sorted(oa)), "/".join(sorted(ob))) + ("" if ok else " — operands are swapped or mixed in this representation pair"),
             "%s (line %s)" % (F.where(fn), n["ln"]))
    return cnt


def operand_use_obligations(F, fn, R, prefix):
    """RF1: in a match over the operand pair of a binary arithmetic function, every arm that names a numeric
    representation on both sides (Number::X(..), Number::Y(..)) computes from BOTH payloads: neither payload is
    discarded by the pattern (`_`) nor left unused by the body, unless the arm only builds an error. An arm that
    answers from one operand alone (e.g. "a bignum divisor always gives 0") is a value-blind shortcut.
    Returns the number of arms examined."""
    h = F.hir(fn)
    params = [p.get("name") for p in h["params"] if p["k"] == "PBind"]
    cnt = 0
    for m in matches_in(h["body"], src=None):
        s = m["scrut"]
        if s["k"] != "Tup" or len(s["elems"]) != 2:
            continue
        e0, e1 = s["elems"]
        n0 = res_name(e0) if e0["k"] == "Path" else None
        n1 = res_name(e1) if e1["k"] == "Path" else None
        if n0 not in params or n1 not in params or n0 == n1:
            continue
        for arm in m["arms"]:
            for li, leaf in enumerate(pat_leaves(arm["pat"])):
                if leaf["k"] != "PTuple" or len(leaf["pats"]) != 2:
                    continue
                sides = []
                for q in leaf["pats"]:
                    q = strip_ref(q)
                    v = pat_variant_name(q)
                    sides.append((v, q))
                if not all(v and v.startswith("Number::") for v, _ in sides):
                    continue
                body_calls = [short(r) for _, r, _ in hir_calls(arm["body"])]
                only_error = any(re.search(r"_error$", c) for c in body_calls) and not any(re.search(r"arena_from|arena_allocate|build_with", c) for c in body_calls)
                if only_error:
                    continue
                cnt += 1
                used = _locals(arm["body"])
                lost = []
                for (v, q), side in zip(sides, ("left", "right")):
                    b = _bound(q)
                    if not b:
                        lost.append("%s operand (%s) is discarded by the pattern" % (side, v))
                    elif not (b & used):
                        lost.append("%s operand (%s) is bound but never used" % (side, v))
                key = "%s:%s-%s" % (prefix, sides[0][0].split("::")[-1], sides[1][0].split("::")[-1])
                R.ob(key, not lost, "%s arm for (%s, %s) at line %s: %s — the result cannot depend on that operand's value" %
                     (short(fn), sides[0][0], sides[1][0], arm["ln"], "; ".join(lost) or "both operands used"), F.where(fn))
    return cnt


def pat_variant_name(q):
    from .core import pat_variant
    v = pat_variant(q)
    if not v:
        return None
    parts = v.split("::")
    return "::".join(parts[-2:])
