"""C48 — file-system predicates: error discipline of the primitives and the argument-checking clause.

Agreement with the operating system is a run-time relation and is not decided. What has a shape:

  * the Rust primitives behind library(files) never unwrap/expect a value of type io::Result: the file system can
    change between two system calls (another process removes the file between `exists()` and `metadata()`), so an
    unwrap there is a panic for some schedule of operations; an io error has to end in failure or a Prolog error;
  * every primitive of files.pl is reached only after each of its path arguments has passed must_be(chars, _)
    (directly, or through file_must_exist/2 / directory_must_exist/2, whose first goal is the exported predicate that
    makes that test), so an ill-typed path raises the documented type or instantiation error and never reaches
    the primitive (which fails silently on a non-string);
  * the existence helpers throw error(existence_error(Kind, Path), Context) for the path they tested, and the
    exported predicates that call them pass their own indicator as the context.
"""
import os
import re
import sys

from .core import AnchorLost, REPO, short, walk
from . import c22

sys.path.insert(0, os.path.dirname(os.path.dirname(os.path.abspath(__file__))))
from plread import plread as P  # noqa: E402

EXPLANATION = (
    "Type-resolved escape-hatch rule over the typed HIR of the file-system primitives in system_calls.rs (no "
    "unwrap/expect of an io::Result); path-condition rules over files.pl (plread): chars guard before every "
    "primitive, context and culprit of the existence errors."
)
ASSUMPTIONS = ["library(error)'s must_be(chars, X) raises instantiation_error / type_error for an unbound / ill-typed X",
               "std::fs reports what the operating system answers"]

RUST_PRIMS = ["directory_files", "file_size", "file_exists", "directory_exists", "file_time", "make_directory", "make_directory_path", "delete_file",
              "rename_file", "file_copy", "delete_directory", "working_directory", "path_canonical"]
# primitive -> positions (0-based) of its path arguments
PL_PRIMS = {"$directory_files": [0], "$file_size": [0], "$file_exists": [0], "$directory_exists": [0], "$make_directory": [0], "$make_directory_path": [0],
            "$delete_file": [0], "$rename_file": [0, 1], "$file_copy": [0, 1], "$delete_directory": [0], "$path_canonical": [0], "$file_time": [0]}
EXIST_HELPERS = {("file_must_exist", 2): ("file", "file_exists"), ("directory_must_exist", 2): ("directory", "directory_exists")}


def run(ctx, R):
    F = ctx.facts()
    R.rule("RF5 escape hatches of io::Result in the file-system primitives; RF3 chars guard before the primitives of files.pl")
    n_io = 0
    for nm in RUST_PRIMS:
        c = [p for p in F.items if re.search(r"system_calls::<impl machine::Machine>::%s$" % nm, p)]
        if len(c) != 1:
            raise AnchorLost("Machine::%s (%d)" % (nm, len(c)))
        body = F.hir(c[0])["body"]
        bad = []
        for x in walk(body):
            ty = (x.get("ty") or "")
            if "std::io::Error" in ty and ty.startswith("std::result::Result<"):
                n_io += 1
            if x["k"] == "MethodCall" and x["name"] in ("unwrap", "expect", "unwrap_unchecked", "unwrap_err"):
                rty = x["recv"].get("adj_ty") or x["recv"].get("ty") or ""
                if "std::io::Error" in rty:
                    bad.append(x["ln"])
        R.ob("C48:io-result-not-unwrapped:%s" % short(c[0]), not bad,
             "%s unwraps an io::Result (line %s): the file system can change between two system calls (a file removed by another process between the existence test and "
             "this call), and the process then panics instead of failing or raising an error" % (short(c[0]), bad), F.where(c[0]))
    R.floor("io::Result values in the file-system primitives", n_io, 10)

    # "agree with the operating system's view": the primitives that look a path up must resolve it the same way. The
    # existence tests follow symbolic links (fs::metadata), so the size and time of a path that file_exists/1 accepted
    # are those of the file it names; a sibling that looks at the link itself (symlink_metadata) answers for another object.
    looks = {}
    for nm in ("file_size", "file_exists", "directory_exists", "file_time"):
        c = [p for p in F.items if re.search(r"system_calls::<impl machine::Machine>::%s$" % nm, p)][0]
        kinds = sorted({(x.get("resolved") or x.get("callee") or "").rsplit("::", 1)[-1] for x in walk(F.hir(c)["body"])
                        if x["k"] in ("Call", "MethodCall") and re.search(r"(^|::)(symlink_metadata|metadata)$", x.get("resolved") or x.get("callee") or x.get("name") or "")})
        looks[nm] = (kinds, c)
    n_look = sum(1 for k, _ in looks.values() if k)
    R.floor("path lookups in the existence/size/time primitives", n_look, 4)
    for nm, (kinds, c) in sorted(looks.items()):
        R.ob("C48:lookup-follows-links-like-its-siblings:%s" % nm, kinds == ["metadata"],
             "%s looks its path up with %s; the sibling primitives follow symbolic links (fs::metadata): for a link to a file, file_exists/1 succeeds and this "
             "primitive answers for the link itself (its size is the length of the target's name)" % (nm, kinds or "no metadata call"), F.where(c))

    # directory_files/2 lists what the operating system lists: inside the loop over read_dir's entries, every `continue`
    # comes after the entry was pushed onto the result (no entry is skipped silently; an entry whose name is not valid
    # text ends in an error, not in a shorter list)
    df = [p for p in F.items if re.search(r"system_calls::<impl machine::Machine>::directory_files$", p)][0]
    dbody = F.hir(df)["body"]
    loops = [lp for lp in walk(dbody) if lp["k"] == "Loop" and any(x["k"] == "MethodCall" and x["name"] == "push" for x in walk(lp))]
    if len(loops) != 1:
        raise AnchorLost("directory_files: the loop over the directory entries (%d)" % len(loops))
    skipped = []
    n_cont = 0
    for blk in walk(loops[0]):
        if blk["k"] != "Block":
            continue
        stmts = list(blk.get("stmts", [])) + ([blk["expr"]] if blk.get("expr") else [])
        for i, st in enumerate(stmts):
            if st.get("k") == "Continue":
                n_cont += 1
                if not any(x["k"] == "MethodCall" and x["name"] == "push" for prev in stmts[:i] for x in walk(prev)):
                    skipped.append(st["ln"])
    R.ob("C48:directory_files:no-entry-is-skipped", not skipped and n_cont >= 1,
         "Machine::directory_files continues with the next directory entry (line %s) without having pushed the current one: the list delivered is shorter than what the operating "
         "system lists" % skipped, F.where(df))
    # file_copy/2 onto the same file: std::fs::copy opens the destination for writing (truncating it) before it reads the
    # source, so the copy is made only where source and destination have been compared
    fc = [p for p in F.items if re.search(r"system_calls::<impl machine::Machine>::file_copy$", p)][0]
    fb = F.hir(fc)["body"]
    copies = [x for x in walk(fb) if x["k"] == "Call" and re.search(r"fs::copy$", x.get("resolved") or x.get("callee") or "")]
    if len(copies) != 1:
        raise AnchorLost("Machine::file_copy: call of fs::copy (%d)" % len(copies))
    canon = [x for x in walk(fb) if x["k"] == "Call" and re.search(r"fs::canonicalize$", x.get("resolved") or x.get("callee") or "")]
    compared = any(x["k"] == "Binary" and x["op"] == "Eq" and x["ln"] < copies[0]["ln"] for x in walk(fb))
    R.ob("C48:file_copy:source-and-destination-compared-before-the-copy", len(canon) >= 2 and compared and all(c["ln"] < copies[0]["ln"] for c in canon),
         "Machine::file_copy calls fs::copy without having compared the canonical source and destination: file_copy(\"f\", \"f\") truncates f to 0 bytes", F.where(fc))
    text = open(os.path.join(REPO, "src/lib/files.pl")).read()
    clauses = {}
    for term, line in P.read_clauses(text):
        if term[0] == "error":
            continue
        h, b = P.head_body(term)
        f = P.functor(h)
        if f:
            clauses.setdefault(f, []).append((h, b, line))
    names = c22.TESTS | {"must_be", "can_be", "file_must_exist", "directory_must_exist", "file_exists", "directory_exists"}

    def chars_checked(tests):
        vs = set()
        for sign, s in tests:
            if sign != "+":
                continue
            f = P.functor(s)
            if f == ("must_be", 2) and s[2][0] == ("atom", "chars") and s[2][1][0] == "var":
                vs.add(s[2][1][1])
            if f in EXIST_HELPERS and s[2][0][0] == "var":
                vs.add(s[2][0][1])
            if f in (("file_exists", 1), ("directory_exists", 1)) and s[2][0][0] == "var":
                vs.add(s[2][0][1])
        return vs
    n_prim = 0
    for f, cls in sorted(clauses.items()):
        for ci, (h, b, line) in enumerate(cls):
            sites = []
            c22.visit(b, [], sites)
            where = "src/lib/files.pl:%d %s/%d" % (line, f[0], f[1])
            for g, cx in sites:
                gf = P.functor(g)
                if gf is None:
                    continue
                tests = c22.tests_on(cx, names)
                if gf[0] in PL_PRIMS:
                    n_prim += 1
                    ok_vars = chars_checked(tests)
                    for pos in PL_PRIMS[gf[0]]:
                        a = g[2][pos]
                        R.ob("C48:chars-guard-before-primitive:%s/%d:%s:arg%d" % (f[0], f[1], gf[0], pos + 1), a[0] == "var" and a[1] in ok_vars,
                             "%s/%d calls %s on a path where %s has not passed must_be(chars, _) (nor an existence helper that makes that test): an unbound or ill-typed path fails "
                             "silently in the primitive instead of raising the documented error" % (f[0], f[1], P.show(g), P.show(a)), where)
                if gf in EXIST_HELPERS and f not in EXIST_HELPERS:
                    ctxarg = g[2][1]
                    public = f[0] + "/" + str(f[1])
                    exported = re.search(r"\b%s/%d\b" % (re.escape(f[0]), f[1]), text.split(":- use_module")[0]) is not None
                    if exported:
                        R.ob("C48:existence-error-context:%s/%d" % f, ctxarg == ("cmp", "/", [("atom", f[0]), ("int", f[1])]),
                             "%s reports a missing file with the context %s" % (public, P.show(ctxarg)), where)
    R.floor("primitive calls in files.pl", n_prim, 12)
    for hf, (kind, test) in EXIST_HELPERS.items():
        if len(clauses.get(hf, [])) != 1:
            raise AnchorLost("files.pl: %s/%d" % hf)
        h, b, line = clauses[hf][0]
        sites = []
        c22.visit(b, [], sites)
        throws = [(g, cx) for g, cx in sites if P.functor(g) == ("throw", 1)]
        ok = len(throws) == 1
        if ok:
            g, cx = throws[0]
            e = g[2][0]
            tests = c22.tests_on(cx, names)
            ok = e == ("cmp", "error", [("cmp", "existence_error", [("atom", kind), h[2][0]]), h[2][1]]) and \
                any(sign == "-" and P.functor(s) == (test, 1) and s[2][0] == h[2][0] for sign, s in tests)
        R.ob("C48:existence-helper:%s/%d:throws-for-the-path-whose-test-failed" % hf, ok,
             "%s/%d does not throw error(existence_error(%s, Path), Context) for its own arguments exactly where %s(Path) has failed" % (hf[0], hf[1], kind, test),
             "src/lib/files.pl:%d %s/%d" % (line, hf[0], hf[1]))
        # and the test predicate itself checks the type first
        tf = (test, 1)
        if len(clauses.get(tf, [])) != 1:
            raise AnchorLost("files.pl: %s/1" % test)
        th, tb, tline = clauses[tf][0]
        gs = [c22.unq(g) for g in P.conj(tb)]
        R.ob("C48:existence-test:%s/1:type-checked-first" % test, P.functor(gs[0]) == ("must_be", 2) and gs[0][2] == [("atom", "chars"), th[2][0]],
             "%s/1 does not begin with must_be(chars, Path): the existence helpers rely on it for the type and instantiation errors" % test, "src/lib/files.pl:%d %s/1" % (tline, test))
