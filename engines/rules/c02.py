"""C02 — Float and mixed-type evaluation follows IEEE-754 with ISO checks.

Decides: no float result leaves the evaluator without passing the finiteness classifier, the
classifier maps infinite/NaN to the two evaluation errors, the "undefined"/zero-divisor guards of
the statement exist in front of the operations they protect, and mixed-representation division
keeps its operand order in every representation pair. Not the numerical values.
"""
import re

from .core import AnchorLost, hir_calls, matches_in, pat_leaves, res_name, short, walk
from . import repo

EXPLANATION = (
    "RF3 'classify before return' over the typed HIR of every function of the two arithmetic modules: "
    "each f64 operator, f64 math method and int->f64 conversion must sit inside the argument of "
    "classify_float/result_f or inside a closure handed to unary_float_fn_template (which classifies "
    "argument and result); RF10 on classify_float's FpCategory match; RF9 guard table copied from the "
    "property statement; RF1 operand-order preservation across the 16 representation pairs of "
    "Number / Number."
)
ASSUMPTIONS = ["std f64 operators and math methods are IEEE-754 binary64", "floor/ceil/round/trunc/fract/abs/neg map finite values to finite values"]

F64M = re.compile(r"(f64::<impl f64>|num::<impl f64>)::([a-z0-9_]+)$")
FINITE_PRESERVING = {"floor", "ceil", "round", "trunc", "fract", "abs", "neg", "signum", "classify", "is_sign_negative", "is_sign_positive",
                     "is_nan", "is_infinite", "is_finite", "to_bits", "from_bits", "max", "min", "copysign", "round_ties_even", "total_cmp", "clamp"}
CLASSIFIERS = ("arithmetic::classify_float", "arithmetic::result_f")
TEMPLATE = "machine::arithmetic_ops::unary_float_fn_template"
EXEMPT_FNS = re.compile(r"for forms::Number>::(cmp|eq|partial_cmp)$|<forms::Number as std::cmp::(Ord|PartialEq|PartialOrd).*>::(cmp|eq|partial_cmp)$")

# guard table (oracle: the property statement / ISO 9.3): function -> (methods that must occur in the
# guarding condition, connective, error constructor)
GUARDS = {
    "machine::arithmetic_ops::div": ({"is_zero"}, None, "zero_divisor_eval_error"),
    "machine::arithmetic_ops::rdiv": ({"is_zero"}, None, "zero_divisor_eval_error"),
    "machine::arithmetic_ops::sqrt": ({"is_negative"}, None, "undefined_eval_error"),
    "machine::arithmetic_ops::log": ({"is_zero", "is_negative"}, "Or", "undefined_eval_error"),
    "machine::arithmetic_ops::pow": ({"is_zero", "is_negative"}, "And", "undefined_eval_error"),
    "machine::arithmetic_ops::int_pow": ({"is_zero", "is_negative"}, "And", "undefined_eval_error"),
    "machine::arithmetic_ops::atan2": ({"is_zero"}, "And", "undefined_eval_error"),
}


def float_sites(F, fn):
    """(node, kind, protected) for every float-producing operation in fn's HIR."""
    out = []

    def rec(n, anc):
        if isinstance(n, list):
            for x in n:
                rec(x, anc)
            return
        if not isinstance(n, dict):
            return
        k = n.get("k")
        kind = None
        if k == "Binary" and n.get("ty") == "f64" and n["op"] in ("Add", "Sub", "Mul", "Div", "Rem"):
            kind = "operator " + n["op"]
        elif k == "MethodCall" and n.get("ty") == "f64":
            m = F64M.search(n.get("resolved") or "")
            if m and m.group(2) not in FINITE_PRESERVING:
                kind = "f64::" + m.group(2)
        elif k == "Cast" and n.get("ty") == "f64":
            kind = "cast as f64"
        elif k == "MethodCall" and n["name"] == "to_f64":
            kind = "to_f64"
        if kind:
            prot = None
            for node, key in reversed(anc):
                if node["k"] == "Call":
                    r = node.get("resolved") or node.get("callee") or ""
                    if r in CLASSIFIERS and key == "args":
                        prot = "argument of " + r.rsplit("::", 1)[1]
                        break
                if node["k"] == "Closure":
                    # closure must be an argument of unary_float_fn_template
                    idx = anc.index((node, key))
                    if idx > 0:
                        par, pkey = anc[idx - 1]
                        # allow adapters such as `.map(..)` between the closure and the template call
                    for node2, key2 in reversed(anc[:idx]):
                        if node2["k"] == "Call" and (node2.get("resolved") or "") == TEMPLATE and key2 == "args":
                            prot = "closure of unary_float_fn_template"
                            break
                    if prot:
                        break
            out.append((n, kind, prot))
        if "k" in n:
            for key, v in n.items():
                if isinstance(v, (dict, list)):
                    rec(v, anc + [(n, key)])
        else:
            for key, v in n.items():
                if isinstance(v, (dict, list)):
                    rec(v, anc)

    rec(F.hir(fn)["body"], [])
    return out


def run(ctx, R):
    F = ctx.facts()
    R.rule("RF3 classify-before-return; RF10 classify_float; RF9 guard table; RF1 operand order of Number/Number")
    zero_sign(F, R)
    fns = sorted(p for p, it in F.items.items() if it["kind"] in ("Fn", "AssocFn")
                 and (p.startswith("machine::arithmetic_ops::") or p.startswith("arithmetic::") or
                      (it.get("self_ty") == "forms::Number" and it["file"].endswith("arithmetic.rs")))
                 and "::tests::" not in p)
    R.floor("arithmetic functions scanned", len(fns), 70)
    n_sites = 0
    for fn in fns:
        if EXEMPT_FNS.search(fn):
            continue  # comparisons convert to f64 by the statement's own prescription (C04)
        for n, kind, prot in float_sites(F, fn):
            n_sites += 1
            sp = short(fn)
            if fn == "arithmetic::rnd_f":
                # rnd_f is the conversion half of result_f = classify_float(rnd_f(n)); RF4 below
                R.ob("C02:float-site:%s:%s@%d" % (sp, kind, n["ln"] - F.items[fn]["line"]), True, "conversion helper; only result_f may call it (checked)", F.where(fn))
                continue
            R.ob("C02:classified:%s:%s@%d" % (sp, kind, n["ln"] - F.items[fn]["line"]), prot is not None,
                 (prot or "float %s whose result reaches the caller without passing classify_float/result_f: an infinite or NaN value "
                  "would be returned instead of evaluation_error(float_overflow/undefined)" % kind), "%s (line %s)" % (F.where(fn), n["ln"]))
            if len(R.samples) < 10:
                R.sample({"fn": sp, "op": kind, "protected_by": prot})
    R.floor("float-producing sites", n_sites, 20)

    # rnd_f is called by result_f only (and comparisons use their own conversions)
    rf = "arithmetic::rnd_f"
    callers = sorted(p for p, cs in F.calls.items() if any((c.get("resolved") or c.get("callee")) == rf for c in cs))
    R.ob("C02:rnd_f:callers", callers == ["arithmetic::result_f"], "rnd_f (unclassified conversion) is called by %s" % callers, F.where(rf))
    rs = F.hir("arithmetic::result_f")
    R.ob("C02:result_f:classifies", any(r == "arithmetic::classify_float" for _, r, _ in hir_calls(rs["body"])), "result_f must be classify_float(rnd_f(n))", F.where("arithmetic::result_f"))

    # unary_float_fn_template: argument and result classified
    th = F.hir(TEMPLATE)
    n_res = sum(1 for _, r, _ in hir_calls(th["body"]) if r == "arithmetic::result_f")
    fparam = [p.get("name") for p in th["params"]][1]
    fcall_ok = False

    def rec(n, anc):
        nonlocal fcall_ok
        if isinstance(n, list):
            for x in n:
                rec(x, anc)
            return
        if not isinstance(n, dict):
            return
        if n.get("k") == "Call" and "f" in n and n["f"]["k"] == "Path" and res_name(n["f"]) == fparam:
            if any(a[0]["k"] == "Call" and (a[0].get("resolved") or "") == "arithmetic::result_f" and a[1] == "args" for a in anc):
                fcall_ok = True
        if n.get("k") == "Call" and "callee" in n and "FnOnce" in n.get("callee", "") or n.get("k") == "Call" and "Fn::call" in (n.get("callee") or ""):
            if any(a[0]["k"] == "Call" and (a[0].get("resolved") or "") == "arithmetic::result_f" and a[1] == "args" for a in anc):
                fcall_ok = True
        if "k" in n:
            for key, v in n.items():
                if isinstance(v, (dict, list)):
                    rec(v, anc + [(n, key)])
        else:
            for v in n.values():
                if isinstance(v, (dict, list)):
                    rec(v, anc)

    rec(th["body"], [])
    R.ob("C02:unary_float_fn_template:classifies-argument-and-result", n_res >= 2 and fcall_ok,
         "%d result_f calls; application of the float function inside result_f: %s" % (n_res, fcall_ok), F.where(TEMPLATE))

    # ---- RF10 classify_float --------------------------------------------------------------------
    cf = "arithmetic::classify_float"
    ch = F.hir(cf)
    table = {}
    for m in matches_in(ch["body"], src=None):
        for arm in m["arms"]:
            for leaf in pat_leaves(arm["pat"]):
                rn = res_name(leaf) or ""
                cat = rn.rsplit("::", 1)[1] if "FpCategory::" in rn else ("_" if leaf["k"] == "PWild" else None)
                if cat:
                    errs = {(n.get("ctor") or res_name(n) or "").rsplit("::", 1)[-1] for n in walk(arm["body"])
                            if "EvalError::" in ((n.get("ctor") or res_name(n) or ""))}
                    oks = any((n.get("ctor") or "").endswith("::Ok") for n in walk(arm["body"]))
                    table.setdefault(cat, (errs, oks))
    if "Nan" not in table or "Infinite" not in table:
        raise AnchorLost("classify_float: FpCategory arms not found: %s" % table)
    R.ob("C02:classify_float:Nan->undefined", table["Nan"][0] == {"Undefined"} and not table["Nan"][1], "NaN -> %s, Ok path: %s" % table["Nan"], F.where(cf))
    R.ob("C02:classify_float:Infinite->float_overflow", "FloatOverflow" in table["Infinite"][0], "Infinite -> %s" % (table["Infinite"][0],), F.where(cf))

    # ---- RF9 guard table ------------------------------------------------------------------------
    for fn, (meths, conn, err) in GUARDS.items():
        if fn not in F.items:
            raise AnchorLost("guard table: %s missing" % fn)
        h = F.hir(fn)
        found = False
        for n in walk(h["body"]):
            if n["k"] != "If":
                continue
            c = n["cond"]
            ms = {x["name"] for x in walk(c) if x["k"] == "MethodCall"}
            conns = {x["op"] for x in walk(c) if x["k"] == "Binary" and x["op"] in ("And", "Or")}
            has_err = any((x.get("resolved") or x.get("callee") or "").endswith(err) for x in walk(n["then"]) if x["k"] == "Call")
            neg = c["k"] == "Unary" and c.get("op") == "Not"
            if meths <= ms and has_err and not neg and (conn is None or conns == {conn}):
                found = True
        R.ob("C02:guard:%s" % short(fn), found,
             "%s must test %s%s and raise %s before computing" % (short(fn), sorted(meths), (" joined by " + conn) if conn else "", err), F.where(fn))
    # div_f: zero divisor on the float level
    dh = F.hir("arithmetic::div_f")
    ok = False
    for n in walk(dh["body"]):
        if n["k"] == "If":
            zero = any((res_name(x) or "").endswith("FpCategory::Zero") for x in walk(n["cond"]))
            err = any((res_name(x) or x.get("ctor") or "").endswith("EvalError::ZeroDivisor") for x in walk(n["then"]))
            div_in_else = any(x["k"] == "Binary" and x["op"] == "Div" for x in walk(n.get("else", {})))
            div_in_then = any(x["k"] == "Binary" and x["op"] == "Div" for x in walk(n["then"]))
            ok = zero and err and div_in_else and not div_in_then
    R.ob("C02:guard:div_f", ok, "div_f must raise ZeroDivisor for a zero divisor and divide only in the else-branch", F.where("arithmetic::div_f"))

    # ---- RF1 operand order in Number / Number -------------------------------------------------------
    dv = F.find_impl("Number", "std::ops::Div", "div")
    cnt = repo.operand_order_obligations(F, dv, R, "C02:operand-order:Number::div")
    R.floor("Number::div ordered operand sites", cnt, 16)


def zero_sign(F, R):
    """A float is stored as an offset into a table that holds each value once; the table is keyed by OrderedFloat, whose
    equality and hash make -0.0 and +0.0 the same key. Whichever zero is stored first is then the value of every later
    zero of either sign, so the result of atan2(Y, -1.0), 1/.. etc. with a zero Y bound earlier depends on the history
    of the process. The table must key by bit pattern, or give the zero a fixed sign before the lookup."""
    bw = [p for p, it in F.items.items() if p.endswith("offset_table::F64Table::build_with")]
    if len(bw) != 1:
        raise AnchorLost("F64Table::build_with (%d)" % len(bw))
    body = F.hir(bw[0])["body"]
    gets = [x for x in walk(body) if x["k"] == "MethodCall" and x["name"] == "get" and "IndexMap" in (x.get("inst") or x.get("callee") or "")]
    if not gets:
        raise AnchorLost("F64Table::build_with: lookup in the value table not found")
    keyed_by_ordered_float = all("OrderedFloat" in (x.get("inst") or "") for x in gets)
    sign_aware = any((x["k"] == "MethodCall" and x["name"] in ("to_bits", "is_sign_negative", "is_sign_positive", "copysign", "abs"))
                     or (x["k"] == "Lit" and str((x.get("lit") or {}).get("float", "")).strip("-").startswith("0")) for x in walk(body))
    R.ob("C02:float-intern:zero-sign-is-history-independent", (not keyed_by_ordered_float) or sign_aware,
         "F64Table::build_with looks a float up by OrderedFloat equality, which identifies -0.0 and +0.0, and stores whichever comes first: "
         "X is -1.0e-300 / 1.0e300, A is 1.0 - 1.0, Y is atan2(A, -1.0) gives Y = -pi, the same goals without the first give Y = +pi", F.where(bw[0]))
