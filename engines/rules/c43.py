"""C43 — op/3 and current_op/3 maintain a consistent operator table (validation tables).

Decides: the specifier atoms accepted in Prolog, decoded in Rust and printed back by current_op/3
are one set; priority bounds are 0..1200; ',', [] and {} are refused and '|' is restricted in the
single-atom AND in the list form; every '$op' call in op/3 is preceded by the three validators in
its branch; the Rust side removes on priority 0 and otherwise submits against the existing
definition (infix/postfix exclusion); because removed operators stay in the table with priority
0, every reader of the table (the parser's get_op_desc and current_op's enumerator) skips
priority-0 entries; current_op's direct lookup is used only with all three arguments bound.
Enumeration order and the histories themselves are not decided.
"""
import os
import re
import sys

from .core import AnchorLost, REPO, atom_of, hir_calls, matches_in, pat_leaves, res_name, short, walk
from . import orframe

sys.path.insert(0, os.path.dirname(os.path.dirname(os.path.abspath(__file__))))
from plread import plread as P  # noqa: E402

EXPLANATION = (
    "RF9 table agreement between src/lib/builtins.pl (op/3, op_priority/1, op_specifier/1, valid_op/1 "
    "read by plread) and the Rust decoder/encoder of operator specifiers; RF3 validators precede '$op' "
    "in every branch of op/3; RF10 on Machine::op_declaration; RF1 'priority 0 means absent' filter in "
    "every reader of the operator table; RF3 guard of the direct lookup in get_next_op_db_ref."
)
ASSUMPTIONS = ["plread parses op/3's clauses as the system's own reader does"]

SPECS = {"xfx", "xfy", "yfx", "fx", "fy", "xf", "yf"}


def atoms_in(t):
    out = set()
    if t[0] == "atom":
        out.add(t[1])
    if t[0] == "cmp":
        for a in t[2]:
            out |= atoms_in(a)
    return out


def ints_in(t):
    out = set()
    if t[0] == "int":
        out.add(t[1])
    if t[0] == "cmp":
        for a in t[2]:
            out |= ints_in(a)
    return out


def goals_named(t, name):
    out = []
    if t[0] == "cmp":
        if t[1] == name:
            out.append(t)
        for a in t[2]:
            out += goals_named(a, name)
    return out


def disjuncts(t):
    if t[0] == "cmp" and t[1] == ";" and len(t[2]) == 2:
        return disjuncts(t[2][0]) + disjuncts(t[2][1])
    return [t]


def run(ctx, R):
    F = ctx.facts()
    submit_writes(F, R)
    table_writers(F, R)
    removal_leaves_a_priority_zero_entry(F, R)
    closing_bounds(F, R)
    R.rule("RF9 specifier/priority/protected-atom tables; RF3 validators before '$op'; RF10 op_declaration; RF1 priority-0 filter; RF3 direct-lookup guard")
    text = open(os.path.join(REPO, "src/lib/builtins.pl")).read()
    cl = {}
    for t, line in P.read_clauses(text):
        if t[0] == "error":
            continue
        h, b = P.head_body(t)
        f = P.functor(h)
        if f in (("op", 3), ("op_priority", 1), ("op_specifier", 1), ("valid_op", 1), ("list_of_op_atoms", 1), ("op_", 3)):
            cl.setdefault(f, []).append((h, b, line))
    for f in (("op", 3), ("op_priority", 1), ("op_specifier", 1), ("valid_op", 1)):
        if f not in cl:
            raise AnchorLost("builtins.pl: %s/%d not found or not parsed" % f)

    # ---- specifiers -------------------------------------------------------------------------------------------
    pl_specs = set()
    for h, b, line in cl[("op_specifier", 1)]:
        for g in goals_named(b, "member"):
            items = P.list_items(g[2][1])
            if items:
                pl_specs |= {x[1] for x in items if x[0] == "atom"}
    dec = [p for p, it in F.items.items() if p.endswith("::try_from") and it.get("self_ty") == "parser::ast::OpDeclSpec" and "TryFrom<atom_table::Atom>" in (it.get("trait_ref") or "")]
    if len(dec) != 1:
        raise AnchorLost("TryFrom<Atom> for OpDeclSpec: %s" % dec)
    rs = {}
    for m in matches_in(F.hir(dec[0])["body"], src=None):
        for arm in m["arms"]:
            at = None
            for leaf in pat_leaves(arm["pat"]):
                at = atom_of(leaf) or at
            v = [(res_name(n) or "").rsplit("::", 1)[-1] for n in walk(arm["body"]) if n["k"] == "Path" and "OpDeclSpec::" in (res_name(n) or "")]
            if at and v:
                rs[at] = v[0]
    R.ob("C43:specifiers:prolog-validation", pl_specs == SPECS, "op_specifier/1 accepts %s, ISO %s" % (sorted(pl_specs), sorted(SPECS)), "src/lib/builtins.pl")
    R.ob("C43:specifiers:rust-decoder", set(rs) == SPECS and {v.lower() for v in rs.values()} == SPECS and all(a == v.lower() for a, v in rs.items()),
         "TryFrom<Atom> for OpDeclSpec decodes %s" % rs, F.where(dec[0]))
    enc = F.find_impl("OpDeclSpec", None, "get_spec", required=False) or F.find("parser::ast::OpDeclSpec::get_spec", required=False)
    if enc:
        back = {}
        for m in matches_in(F.hir(enc)["body"], src=None):
            for arm in m["arms"]:
                v = None
                for leaf in pat_leaves(arm["pat"]):
                    rn = res_name(leaf) or ""
                    if "OpDeclSpec::" in rn:
                        v = rn.rsplit("::", 1)[1]
                at = None
                for n in walk(arm["body"]):
                    at = atom_of(n) or at
                if v and at:
                    back[v] = at
        R.ob("C43:specifiers:encoder-inverse-of-decoder", back == {v: a for a, v in rs.items()}, "get_spec prints %s; decoder %s" % (back, rs), F.where(enc))

    # ---- priorities -----------------------------------------------------------------------------------------------
    pri_ints = set()
    cmp_ops = set()
    for h, b, line in cl[("op_priority", 1)]:
        for op in ("<", ">", "=<", ">="):
            for g in goals_named(b, op):
                cmp_ops.add(op)
                pri_ints |= ints_in(g)
    R.ob("C43:priority-bounds", pri_ints == {0, 1200} and cmp_ops == {"<", ">"},
         "op_priority/1 rejects Priority %s with bounds %s (ISO: Priority < 0 ; Priority > 1200)" % (sorted(cmp_ops), sorted(pri_ints)), "src/lib/builtins.pl")

    # ---- protected atoms --------------------------------------------------------------------------------------------
    prot = {}
    for h, b, line in cl[("valid_op", 1)]:
        for br in disjuncts(b) + [x for g in goals_named(b, "->") for x in [g]]:
            pass
        for g in goals_named(b, "->"):
            cond, then = g[2]
            eqs = goals_named(cond, "==")
            perr = goals_named(then, "permission_error")
            if eqs and perr:
                prot[P.show(eqs[0][2][1])] = P.show(perr[0][2][0])
    R.ob("C43:protected-atoms", set(prot) == {",", "{}", "[]"}, "valid_op/1 refuses %s (ISO: ',' cannot be modified, [] and {} cannot be created)" % prot, "src/lib/builtins.pl")

    # ---- op/3 branches --------------------------------------------------------------------------------------------------
    oph, opb, opline = cl[("op", 3)][0]
    branches = disjuncts(opb)
    n_op_calls = 0
    bar_single = bar_list = False
    for br in branches:
        calls_op = goals_named(br, "$op") or [g for g in goals_named(br, "maplist") if "op_" in P.show(g)]
        if not calls_op:
            continue
        n_op_calls += 1
        txt = P.show(br)
        validators = {"op_priority": bool(goals_named(br, "op_priority")), "op_specifier": bool(goals_named(br, "op_specifier"))}
        name_ok = bool(goals_named(br, "valid_op")) or bool(goals_named(br, "list_of_op_atoms")) or "==(Op,|)" in txt
        R.ob("C43:op/3:validators-before-$op#%d" % n_op_calls, all(validators.values()) and name_ok,
             "a branch of op/3 reaches '$op' with validators %s, operator-name check %s" % (validators, name_ok), "src/lib/builtins.pl:%d" % opline)
        is_bar_branch = "==(Op,|)" in txt
        has_bar_conditions = ints_in(br) >= {1001, 0} and {"xfx", "xfy", "yfx"} <= atoms_in(br) and bool(goals_named(br, "permission_error"))
        if is_bar_branch and not goals_named(br, "list_of_op_atoms"):
            bar_single = has_bar_conditions
        if goals_named(br, "list_of_op_atoms"):
            bar_list = has_bar_conditions and "|" in atoms_in(br)
            # "each rejected call ... leaves the table unchanged": the infix/postfix exclusion is detected by '$op' while a
            # name is being declared, so the list form must look for a clash over ALL names before it declares the first
            gs = P.conj(br[2][1]) if br[0] == "cmp" and br[1] == "->" else P.conj(br)
            i_map = next((i for i, g in enumerate(gs) if "maplist" in P.show(g) and "op_" in P.show(g)), None)
            i_clash = next((i for i, g in enumerate(gs) if "op_clash" in P.show(g) and "member" in P.show(g) and "permission_error" in P.show(g)), None)
            R.ob("C43:list-form:clash-checked-before-first-declaration", i_map is not None and i_clash is not None and i_clash < i_map,
                 "op(P, T, [A1, .., An]) declares the names one by one and the infix/postfix exclusion is only detected while a name is being declared: op(200, xf, [zza, +]) "
                 "raises permission_error(create, operator, +) after zza has been declared. The list branch must test every name for a clash before the first declaration",
                 "src/lib/builtins.pl:%d" % opline)
    R.floor("op/3 branches that declare operators", n_op_calls, 3)
    R.ob("C43:bar-restricted:single-atom-form", bar_single, "op(P, T, '|') must require an infix specifier and P >= 1001 or P == 0, else permission_error(create, operator, '|')", "src/lib/builtins.pl:%d" % opline)
    R.ob("C43:bar-restricted:list-form", bar_list,
         "op(P, T, [.., '|', ..]) must apply the same restrictions before any element is declared (otherwise op(200, xfy, ['|']) makes '|' an ordinary operator)", "src/lib/builtins.pl:%d" % opline)

    # ---- Rust: op_declaration -----------------------------------------------------------------------------------------------
    od = F.find_impl("Machine", None, "op_declaration")
    oh = F.hir(od)
    ok = False
    for n in walk(oh["body"]):
        if n["k"] == "If" and n["cond"]["k"] == "Binary" and n["cond"]["op"] == "Eq" and any(x["k"] == "MethodCall" and x["name"] == "get_prec" for x in walk(n["cond"])) \
                and n["cond"]["b"]["k"] == "Lit" and n["cond"]["b"]["lit"].get("int") == "0":
            rm = any(x["k"] == "MethodCall" and x["name"] == "remove" for x in walk(n["then"]))
            sub = any(x["k"] == "MethodCall" and x["name"] == "submit" for x in walk(n.get("else", {}))) and any((x.get("resolved") or "").endswith("parser::get_op_desc") for x in walk(n.get("else", {})) if x["k"] == "Call")
            ok = rm and sub
    R.ob("C43:op_declaration:zero-removes-else-submits", ok, "priority 0 must remove the operator; any other priority must be submitted against the existing definitions of the name (get_op_desc)", F.where(od))

    # ---- priority 0 means absent: every reader filters ---------------------------------------------------------------------------
    gd = F.find("parser::parser::get_op_desc")
    gh = F.hir(gd)
    n_merge = 0

    def rec(n, anc):
        nonlocal n_merge
        if isinstance(n, list):
            for x in n:
                rec(x, anc)
            return
        if not isinstance(n, dict):
            return
        if n.get("k") == "AssignOp" and n["op"].startswith("BitOr") and orframe.field_chain(n["lhs"])[-1:] == ["spec"]:
            rhs_const = any((res_name(x) or "").endswith("NEGATIVE_SIGN") for x in walk(n["rhs"]))
            if not rhs_const:
                n_merge += 1
                guarded = False
                for node, key in reversed(anc):
                    if node["k"] == "If" and key == "then" and node["cond"]["k"] == "Binary" and node["cond"]["op"] == "Gt" and node["cond"]["b"]["k"] == "Lit" and node["cond"]["b"]["lit"].get("int") == "0":
                        guarded = True
                R.ob("C43:priority-0-is-absent:get_op_desc#%d" % n_merge, guarded,
                     "get_op_desc merges the specifier of a table entry without testing `pri > 0`: an operator removed with op(0, ..) (kept in the table with "
                     "priority 0) would still be seen by the reader", "%s (line %s)" % (F.where(gd), n["ln"]))
        if "k" in n:
            for key, v in n.items():
                if isinstance(v, (dict, list)):
                    rec(v, anc + [(n, key)])
        else:
            for v in n.values():
                if isinstance(v, (dict, list)):
                    rec(v, anc)

    rec(gh["body"], [])
    R.floor("specifier merges in get_op_desc", n_merge, 3)
    gn = F.find_impl("Machine", None, "get_next_op_db_ref")
    bodies = F.body_and_closures(gn) + [p for p in F.items if p.startswith(gn + "::")]
    zero_tests = 0
    for p in set(bodies):
        if F.items[p]["kind"] == "Closure":
            continue
        for n in walk(F.hir(p)["body"]):
            if n["k"] == "If" and n["cond"]["k"] == "Binary" and n["cond"]["op"] == "Eq" and n["cond"]["b"]["k"] == "Lit" and n["cond"]["b"]["lit"].get("int") == "0" and "prec" in (res_name(n["cond"]["a"]) or ""):
                zero_tests += 1
    R.ob("C43:priority-0-is-absent:current_op", zero_tests >= 2, "current_op's enumerator must skip priority-0 entries in both its writer and its table scan (found %d tests)" % zero_tests, F.where(gn))
    # direct lookup only with all three arguments bound
    gnh = F.hir(gn)
    guard_ok = False
    for n in walk(gnh["body"]):
        if n["k"] == "If" and "else" in n:
            isvars = [x for x in walk(n["cond"]) if x["k"] == "MethodCall" and x["name"] == "is_var"]
            ors = [x for x in walk(n["cond"]) if x["k"] == "Binary" and x["op"] == "Or"]
            conv = [x for x in walk(n["else"]) if "cell_as_atom" in [m[0] for m in x.get("mac", [])]]
            if conv:
                guard_ok = len(isvars) >= 3 and len(ors) >= 2
    R.ob("C43:current_op:direct-lookup-needs-all-bound", guard_ok,
         "the branch that converts specifier and name cells to atoms must be reached only when priority, specifier and name are all bound; "
         "otherwise current_op(200, S, O) reads an unbound cell as an atom and fails", F.where(gn))


def submit_writes(F, R):
    """op/3 "succeeds exactly when afterwards current_op/3 holds": OpDecl::submit may return Ok only after it has written
    the declaration into the table (RF3 dominance over its MIR CFG) — a shortcut that answers Ok without writing leaves
    the previous specifier in place."""
    from .core import CFG, callee_of
    sb = [p for p, it in F.items.items() if p.endswith("OpDecl::submit") and it["file"] == "src/forms.rs"]
    if len(sb) != 1:
        raise AnchorLost("OpDecl::submit: %s" % sb)
    m = F.mir(sb[0])
    cfg = CFG(m)
    ins = set(cfg.call_blocks(lambda t: re.search(r"OpDecl::insert_into_op_dir$|IndexMap::<.*>::insert$", callee_of(t))))
    if not ins:
        raise AnchorLost("OpDecl::submit no longer calls insert_into_op_dir")
    dom = cfg.dominators()
    oks = [i for i, b in enumerate(cfg.blocks) for s in b["s"] if s["l"] == [0] and s["rv"]["k"] == "Aggregate" and s["rv"].get("variant") == "Ok"]
    if not oks:
        raise AnchorLost("OpDecl::submit: no Ok return found")
    bad = [i for i in oks if i in dom and not (dom[i] & ins)]
    # ... and the other way round: nothing is written before both halves of the exclusion have been looked at
    tests = {}
    for nm in ("is_infix", "is_postfix"):
        tests[nm] = set(cfg.call_blocks(lambda t, nm=nm: callee_of(t).endswith("::" + nm)))
    if not all(tests.values()):
        raise AnchorLost("OpDecl::submit: is_infix/is_postfix tests not found (%s)" % {k: sorted(v) for k, v in tests.items()})
    early = [i for i in sorted(ins) if i in dom and not all(dom[i] & tests[nm] for nm in tests)]
    R.ob("C43:submit:write-follows-the-infix-postfix-exclusion-test", not early,
         "OpDecl::submit writes the declaration (block(s) %s) on a path that has not passed the is_infix()/is_postfix() tests against the existing definition: "
         "op(200,xfx,n), op(0,xfx,n), op(200,xf,n), op(200,xfx,n) then leaves n both infix and postfix" % early, F.where(sb[0]))
    R.ob("C43:submit:accepted-declaration-is-written", not bad,
         "OpDecl::submit returns Ok on a path that does not write the declaration into the operator table (block(s) %s): op(700,xfx,foo), op(700,xfy,foo) then succeeds "
         "while current_op/3 and the reader still see xfx" % bad, F.where(sb[0]))


DIRECT_WRITERS_OK = {
    "OpDecl::submit": "the checked path (infix/postfix exclusion)",
    "OpDecl::remove": "priority 0: removal",
    "<'a, LS>::reset_machine": "retraction: restores the definitions a failed load had replaced",
    "Loader<'a, LS>::remove_module_op_exports": "restores the user-level table after a module's exports were shown to the parser",
}


def table_writers(F, R):
    """"an infix and a postfix definition of the same name cannot coexist": the exclusion is enforced by OpDecl::submit
    only. Whoever writes a declaration into an operator table directly (insert_into_op_dir) bypasses it."""
    tgt = [p for p in F.items if p.endswith("OpDecl::insert_into_op_dir")]
    if len(tgt) != 1:
        raise AnchorLost("OpDecl::insert_into_op_dir: %s" % tgt)
    callers = sorted({short(p) for p, cs in F.calls.items() if any((c.get("resolved") or c.get("callee")) == tgt[0] for c in cs)})
    R.floor("direct writers of the operator table", len(callers), 4)
    for c in callers:
        if c in DIRECT_WRITERS_OK:
            R.ob("C43:direct-table-write:%s:exception" % c, True, "listed: " + DIRECT_WRITERS_OK[c], "src/forms.rs")
        else:
            R.ob("C43:direct-table-write:%s" % c, False,
                 "%s writes an operator declaration into the table with insert_into_op_dir, bypassing OpDecl::submit's infix/postfix exclusion: a file directive "
                 ":- op(200, xf, +). makes + both infix and postfix (current_op(P, T, +) then lists yfx, fy and xf)" % c, "src/machine/load_state.rs")


def removal_leaves_a_priority_zero_entry(F, R):
    """op(0, Type, Name) does not delete the table entry: it stores priority 0 under the same key, and every reader of the
    table filters priority 0 (rule above). The reader depends on the entry being there: a priority-0 prefix entry for `-` is
    what lets `- 1` after op(0, fy, -) still be read as a negative number. OpDecl::remove therefore sets priority 0 and
    goes through the same insertion as a definition; it deletes nothing from the table."""
    rm = F.find_impl("OpDecl", None, "remove")
    body = F.hir(rm)["body"]
    deletes = [x["name"] for x in walk(body) if x["k"] == "MethodCall" and x["name"] in ("remove", "swap_remove", "shift_remove", "retain", "clear", "pop")]
    zero = any(x["k"] == "MethodCall" and x["name"] == "set" and x["args"] and x["args"][0]["k"] == "Lit" and x["args"][0]["lit"].get("int") == "0" for x in walk(body))
    inserts = any(x["k"] == "MethodCall" and x["name"] in ("insert_into_op_dir", "insert") for x in walk(body))
    R.ob("C43:remove:stores-priority-0-under-the-same-key", not deletes and zero and inserts,
         "OpDecl::remove %s: removal is a priority-0 entry stored through the ordinary insertion (the table's readers filter priority 0, and the reader needs the entry of a removed "
         "prefix minus to read negative literals)" % ("deletes from the table (%s)" % deletes if deletes else "does not store priority 0 through the insertion"), F.where(rm))



ARG_MAX = 999  # ISO 6.3.3.1: an argument of a compound term, and (6.3.5) an element of a list, has priority at most 999


def closing_bounds(F, R):
    """"The reader then parses according to that table": at the end of an argument (reduce_term) and of a list element
    (reduce_list) the parser reduces what is on its stack with reduce_op(K). Whether an operator of priority p is reduced
    there is decided by two cooperating sites: K at the call and the comparison of the operator's priority with that
    bound in its affirm_* function (strict for the right-associative xfy/fy, because the same function serves an incoming
    operator of equal priority, which must shift). The rule evaluates that admission test at the boundary: an operator
    of every kind at exactly ARG_MAX must be admitted at both closes, and the comma (xfy at ARG_MAX + 1) must not be."""
    cmpop = {}
    for kind in ("xfx", "yfx", "xfy", "fy", "fx"):
        p = F.find("parser::parser::affirm_" + kind)
        ops = [n["op"] for n in walk(F.hir(p)["body"]) if n["k"] == "Binary" and n["op"] in ("Lt", "Le")
               and n["a"]["k"] == "Field" and n["a"]["name"] == "priority" and (n["a"]["base"].get("res") or {}).get("local") == "d2"
               and n["b"]["k"] == "Path" and (n["b"].get("res") or {}).get("local") == "priority"]
        if len(ops) != 1:
            raise AnchorLost("affirm_%s: comparison of d2.priority with the bound: %s" % (kind, ops))
        cmpop[kind] = ops[0]

    def admitted(kind, p, k):
        return p < k if cmpop[kind] == "Lt" else p <= k

    n = 0
    for site in ("reduce_term", "reduce_list"):
        ps = F.find_all(r"parser::parser::Parser::<.*>::%s$" % site)
        if len(ps) != 1:
            raise AnchorLost("Parser::%s: %s" % (site, ps))
        ks = [c["args"][0] for c in walk(F.hir(ps[0])["body"]) if c["k"] == "MethodCall" and c["name"] == "reduce_op"]
        if len(ks) != 1 or ks[0]["k"] != "Lit":
            raise AnchorLost("Parser::%s: one reduce_op(<literal>) expected, found %d" % (site, len(ks)))
        k = int(ks[0]["lit"]["int"])
        what = {"reduce_term": "the last argument of a compound term", "reduce_list": "the last element of a list"}[site]
        for kind in sorted(cmpop):
            n += 1
            R.ob("C43:reader:%s:%s-at-%d-admitted" % (site, kind, ARG_MAX), admitted(kind, ARG_MAX, k),
                 "Parser::%s reduces with reduce_op(%d) and affirm_%s compares the operator's priority with `%s` the bound: a%s operator declared %s at %d "
                 "is %s as %s (op(%d, %s, o): the text %s)" % (
                     site, k, kind, "<" if cmpop[kind] == "Lt" else "<=", "n" if kind[0] == "x" else "", kind, ARG_MAX,
                     "reduced" if admitted(kind, ARG_MAX, k) else "NOT reduced, so the term is a syntax error", what, ARG_MAX, kind,
                     ("f(o a)" if site == "reduce_term" else "[o a]") if kind in ("fy", "fx") else ("f(a o b)" if site == "reduce_term" else "[a o b]")),
                 F.where(ps[0]))
        n += 1
        R.ob("C43:reader:%s:comma-not-reduced" % site, not admitted("xfy", ARG_MAX + 1, k),
             "Parser::%s reduces with reduce_op(%d): the comma (xfy at %d) %s" % (site, k, ARG_MAX + 1, "stays a separator" if not admitted("xfy", ARG_MAX + 1, k) else "would be reduced as an operator inside " + what),
             F.where(ps[0]))
    R.floor("closing-bound admission tests", n, 12)
