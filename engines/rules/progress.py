"""Lexer progress analysis (C17, resynchronisation clause — necessary condition).

"After a syntax error the next read continues ..." needs, at the very least, that a read which
ends in a lexical error has consumed something: a lexer that reports a character and leaves it
in the input raises the same error on every later read and never reaches the rest of the text.

Decided over the MIR CFGs of the Lexer methods reachable from Lexer::next_token:

  * an *error exit* of a function is a place where `_0` becomes `Err(..)`: an `Err` aggregate, the
    `?` desugaring (from_residual), a tail call / Result combinator whose value is returned;
  * its *origin* is found by tracing the operand back through moves and projections to the call
    that produced it: an error constructor (local error), a leaf reader call (lookahead_char /
    read_char: end of input, or invalid bytes that were consumed — rule R2), another Lexer method
    (propagated), anything else (treated as local);
  * an exit is *covered* when every CFG path from the function's entry to it passes through a
    consuming call (skip_char / read_char / consume) first;
  * a function is *exposed* when next_token can reach it through call sites that are not covered.

Obligation: no exposed function has an uncovered local error exit.
"""
import re

from .core import AnchorLost, CFG, callee_of, short

CONSUME_RX = re.compile(r"Lexer::<.*>::(skip_char|read_char)$|char_reader::CharRead::(consume|read_char)$")
LEAF_RX = re.compile(r"Lexer::<.*>::(lookahead_char|read_char)$")
CTOR_RX = re.compile(r"Lexer::<.*>::(unexpected_char|located_error|incomplete_reduction|parse_big_int_error)$|ParserError::unexpected_eof$|"
                     r"<parser::ast::ParserError as std::convert::From<.*>>::from$")
COMBINATOR_RX = re.compile(r"result::Result::<.*>::(map|map_err|and_then|or_else|or|and)$|result::Result<T, E>::(map|map_err|and_then|or_else|or|and)$")
RESIDUAL_RX = re.compile(r"FromResidual.*::from_residual$")
BRANCH_RX = re.compile(r"Try>?::branch$")


class FnInfo:
    def __init__(self, F, path):
        self.path = path
        self.mir = F.mir(path)
        self.cfg = CFG(self.mir)
        self.blocks = self.cfg.blocks
        self.consuming = {i for i, b in enumerate(self.blocks) if b["t"]["k"] == "Call" and CONSUME_RX.search(callee_of(b["t"]))}
        # definitions of whole locals
        self.defs = {}
        for i, b in enumerate(self.blocks):
            for s in b["s"]:
                if len(s["l"]) == 1:
                    self.defs.setdefault(s["l"][0], []).append(("stmt", i, s))
            t = b["t"]
            if t["k"] == "Call" and t.get("dest") and len(t["dest"]) == 1:
                self.defs.setdefault(t["dest"][0], []).append(("call", i, t))
        # calls that receive `&mut local`: the callee may store an error of its own callees into it (an out-parameter)
        self.out_param_calls = {}
        refs = {}
        for i, b in enumerate(self.blocks):
            for st in b["s"]:
                rv = st["rv"]
                if len(st["l"]) == 1 and rv.get("k") == "Ref" and rv.get("mut") and rv.get("p") and len(rv["p"]) == 1:
                    refs[st["l"][0]] = rv["p"][0]
            t = b["t"]
            if t["k"] == "Call":
                for a in t.get("args", []):
                    if isinstance(a, dict) and "p" in a and len(a["p"]) == 1 and a["p"][0] in refs:
                        self.out_param_calls.setdefault(refs[a["p"][0]], []).append(("call", callee_of(t), i))
        self.uncovered = self._uncovered(set())

    def _uncovered(self, ok_consumers):
        """Blocks reachable from the entry without passing through a consuming call. `ok_consumers`: callees
        known to have consumed whenever they return Ok — the Ok edge of a match on their result is covering."""
        cut = set()   # (switch block, successor) edges that are only taken after consumption
        if ok_consumers:
            for i, b in enumerate(self.blocks):
                t = b["t"]
                if t["k"] == "Call" and callee_of(t) in ok_consumers and t.get("dest") and len(t["dest"]) == 1 and t.get("succ"):
                    d = t["dest"][0]
                    nb = self.blocks[t["succ"][0]]
                    nt = nb["t"]
                    if nt["k"] == "SwitchInt" and nt.get("vals") and nt["vals"][0] == "0":
                        disc = [s for s in nb["s"] if s["rv"]["k"] == "Discriminant" and s["rv"].get("p") == [d]]
                        if disc and nt["discr"].get("p") == disc[-1]["l"]:
                            cut.add((t["succ"][0], nt["succ"][0]))
        seen = set()
        st = [0]
        while st:
            x = st.pop()
            if x in seen:
                continue
            seen.add(x)
            if x in self.consuming:
                continue
            st.extend(s for s in self.cfg.succ[x] if (x, s) not in cut)
        return seen

    def consumes_on_ok(self):
        """Every non-error write of the return place happens after a consuming call."""
        n = 0
        for i, b in enumerate(self.blocks):
            for s in b["s"]:
                if s["l"] == [0] and not (s["rv"]["k"] == "Aggregate" and s["rv"].get("variant") == "Err"):
                    n += 1
                    if i in self.uncovered:
                        return False
            t = b["t"]
            if t["k"] == "Call" and t.get("dest") == [0] and not RESIDUAL_RX.search(callee_of(t)):
                n += 1
                if i in self.uncovered:
                    return False
        return n > 0

    def origins(self, local, depth=0, seen=None):
        """Calls / constructions the value of `local` can come from: list of (kind, callee, block)."""
        seen = seen if seen is not None else set()
        if local in seen or depth > 12:
            return []
        seen.add(local)
        out = []
        for kind, blk, d in self.defs.get(local, []):
            if kind == "call":
                c = callee_of(d)
                if BRANCH_RX.search(c) or COMBINATOR_RX.search(c):
                    a0 = d["args"][0] if d.get("args") else None
                    if a0 and "p" in a0:
                        sub = self.origins(a0["p"][0], depth + 1, seen)
                        out += sub if sub else [("opaque", c, blk)]
                    else:
                        out.append(("opaque", c, blk))
                else:
                    out.append(("call", c, blk))
            else:
                rv = d["rv"]
                if rv["k"] in ("Use", "Cast") and isinstance(rv.get("a"), dict) and "p" in rv["a"]:
                    out += self.origins(rv["a"]["p"][0], depth + 1, seen)
                elif rv["k"] == "Aggregate":
                    ops = [o for o in rv.get("ops", []) if isinstance(o, dict) and "p" in o]
                    if rv.get("adt", "").endswith("result::Result") and ops:
                        out += self.origins(ops[0]["p"][0], depth + 1, seen)
                    elif rv.get("adt", "").endswith("option::Option") and not rv.get("ops"):
                        pass      # `None`: holds no error; what a callee stores through &mut is found below
                    else:
                        out.append(("ctor", rv.get("adt", "?"), blk))
                elif rv["k"] == "Ref" and rv.get("p"):
                    out += self.origins(rv["p"][0], depth + 1, seen)
                else:
                    out.append(("opaque", rv["k"], blk))
        out += self.out_param_calls.get(local, [])
        if not out and local <= self.mir["argc"]:
            out.append(("param", str(local), 0))
        return out

    def error_exits(self):
        """[(block, line, [(kind, callee, origin_block)])] for every place `_0` may become an Err."""
        ex = []
        for i, b in enumerate(self.blocks):
            for s in b["s"]:
                if s["l"] == [0]:
                    rv = s["rv"]
                    if rv["k"] == "Aggregate" and rv.get("adt", "").endswith("result::Result"):
                        if rv.get("variant") != "Err":
                            continue
                        ops = [o for o in rv.get("ops", []) if isinstance(o, dict) and "p" in o]
                        org = self.origins(ops[0]["p"][0]) if ops else [("ctor", "constant", i)]
                        ex.append((i, s.get("ln"), org))
                    elif rv["k"] == "Use" and isinstance(rv.get("a"), dict) and "p" in rv["a"]:
                        ex.append((i, s.get("ln"), self.origins(rv["a"]["p"][0])))
            t = b["t"]
            if t["k"] == "Call" and t.get("dest") == [0]:
                c = callee_of(t)
                if RESIDUAL_RX.search(c) or COMBINATOR_RX.search(c):
                    a0 = t["args"][0] if t.get("args") else None
                    org = self.origins(a0["p"][0]) if a0 and "p" in a0 else [("opaque", c, i)]
                    ex.append((i, t.get("ln"), org or [("opaque", c, i)]))
                else:
                    ex.append((i, t.get("ln"), [("call", c, i)]))
        return ex


def analyse(F, entry_suffix="::next_token"):
    ents = [p for p, it in F.items.items() if p.endswith(entry_suffix) and it["file"] == "src/parser/lexer.rs" and it["kind"] == "AssocFn"]
    if len(ents) != 1:
        raise AnchorLost("Lexer::next_token: %s" % ents)
    entry = ents[0]
    infos = {}

    def info(p):
        if p not in infos:
            it = F.items.get(p)
            infos[p] = FnInfo(F, p) if it and it["file"] == "src/parser/lexer.rs" and it["kind"] in ("Fn", "AssocFn") and "Result<" in (it.get("output") or "") and "ParserError" in (it.get("output") or "") else None
            fi = infos[p]
            if fi is not None:
                # callees of this function that have consumed whenever they return Ok (one level: their own direct consumption)
                okc = set()
                for b in fi.blocks:
                    t = b["t"]
                    if t["k"] == "Call":
                        c = callee_of(t)
                        if c != p and c in F.items and F.items[c]["file"] == "src/parser/lexer.rs" and c not in infos:
                            info(c)
                        ci = infos.get(c)
                        if ci is not None and ci.consumes_on_ok():
                            okc.add(c)
                if okc:
                    fi.uncovered = fi._uncovered(okc)
        return infos[p]

    local_bad = {}   # fn -> [(line, what)]
    edges = {}       # fn -> [(callee, line)] through uncovered call sites whose error is returned
    counts = {"exits": 0, "leaf": 0, "local": 0, "propagated": 0}

    def visit(p):
        if p in local_bad:
            return
        fi = info(p)
        local_bad[p] = []
        edges[p] = []
        if fi is None:
            return
        for blk, ln, orgs in fi.error_exits():
            counts["exits"] += 1
            for kind, callee, oblk in orgs:
                if kind == "call" and LEAF_RX.search(callee):
                    counts["leaf"] += 1
                    continue
                if kind == "call" and info(callee) is not None:
                    counts["propagated"] += 1
                    if oblk in fi.uncovered:
                        edges[p].append((callee, fi.blocks[oblk]["t"].get("ln")))
                        visit(callee)
                    continue
                if kind == "param":
                    continue
                counts["local"] += 1
                # a locally made error: covered when consumption precedes the exit itself
                if blk in fi.uncovered:
                    what = short(callee) if kind == "call" else callee
                    local_bad[p].append((ln, "%s (%s)" % (what, kind)))

    visit(entry)
    return entry, local_bad, edges, counts
