"""C06 — Clause selection returns exactly the clauses whose heads unify.

Decides: first-argument indexing keys are compared by *value*: every tag class that
switch_on_term routes to the constant hash table has one canonical bit pattern per value
(floats are interned by value), the lookup sites look up the very cell they dispatched on, and
index construction / removal go through the same key functions. Does not decide the ordering or
merging of the generated choice sequences.
"""
import re

from .core import AnchorLost, CFG, atom_of, callee_of, hir_calls, matches_in, pat_leaves, res_name, short, walk
from . import repo

EXPLANATION = (
    "RF9/RF10 routing table of MachineState::select_switch_on_term_index over the typed HIR (which "
    "tag classes return the constant-table pointer), RF3 dominance in the MIR of F64Table::build_with "
    "(value lookup dominates allocation, insertion post-dominates it), RF4 who-may-call for the raw "
    "float offset allocator, RF1 agreement of the lookup sites and of index construction/removal. "
    "HeapCellValue derives Hash/PartialEq on its bits, so a class may use the constant table only if "
    "equal values have equal bits."
)
ASSUMPTIONS = [
    "fixnum, cut-point and inlined/interned atom cells have one bit pattern per value (C21 covers atoms)",
    "arena pointers (big integers, rationals) have one bit pattern per allocation, not per value",
]

TAG = "types::HeapCellValueTag::"
CANON = {"Fixnum", "CutPoint", "F64Offset", "Atom"}
# recorded exception, one line of reason:
EXC_STR_ARITY0 = ("Str cell of arity 0 routed to the constant table although a Str cell is a heap pointer: "
                  "no construction of an arity-0 Str cell was found (functor/3, =../2, the reader and copy_term "
                  "all yield atom cells); recorded as observation, not armed")


def returned_locals(node, names):
    """Which of the parameter names / IndexingCodePtr::Fail an expression can evaluate to."""
    out = set()
    for n in walk(node):
        if n["k"] == "Path":
            rn = res_name(n)
            if rn in names:
                out.add(rn)
            elif (rn or "").endswith("IndexingCodePtr::Fail"):
                out.add("Fail")
    return out


def run(ctx, R):
    F = ctx.facts()
    choice_sequence_order(F, R)
    first_entry_flags(F, R)
    merge_guard_compares_two_clauses(F, R)
    R.rule("RF9/RF10 canonical-key routing; RF3/RF4 float interning; RF1 lookup sites; RF1 construction vs removal; RF10 index_term")

    # ---- R1: routing ----------------------------------------------------------------------------
    sf = F.find_impl("MachineState", None, "select_switch_on_term_index")
    h = F.hir(sf)
    pn = [p.get("name") for p in h["params"]]
    if len(pn) != 6:
        raise AnchorLost("select_switch_on_term_index: expected 6 parameters, got %s" % pn)
    _, addr, v, c, l, s = pn
    names = {v: "v", c: "c", l: "l", s: "s"}
    tms = [m for m in matches_in(h["body"], src=None) if m["scrut"].get("ty") == "types::HeapCellValueTag"]
    if len(tms) != 1:
        raise AnchorLost("select_switch_on_term_index: expected one tag match, found %d" % len(tms))
    routing = {}
    for arm in tms[0]["arms"]:
        for leaf in pat_leaves(arm["pat"]):
            rn = res_name(leaf) or ""
            tag = rn[len(TAG):] if rn.startswith(TAG) else ("_" if leaf["k"] == "PWild" else None)
            if tag:
                routing[tag] = (arm, {names.get(x, x) for x in returned_locals(arm["body"], set(names) | {"Fail"})})
    R.floor("tag classes routed", len(routing), 10)
    where = F.where(sf)
    for tag, (arm, rets) in sorted(routing.items()):
        if tag in ("Var", "StackVar", "AttrVar"):
            R.ob("C06:route:%s" % tag, rets == {"v"}, "unbound first argument must try every clause; returns %s" % sorted(rets), where)
        elif tag in ("Lis", "PStrLoc"):
            R.ob("C06:route:%s" % tag, rets == {"l"}, "list cells use the list pointer; returns %s" % sorted(rets), where)
        elif tag in CANON:
            R.ob("C06:route:%s" % tag, rets == {"c"}, "canonical constant class uses the constant table; returns %s" % sorted(rets), where)
        elif tag == "Cons":
            R.ob("C06:route:Cons:not-constant-table", "c" not in rets and "l" not in rets and "s" not in rets,
                 "arena numbers are keyed by address in the constant table (derive(Hash, PartialEq) on the cell bits): "
                 "routing them to `c` hides every clause whose first argument is an equal big integer/rational; returns %s" % sorted(rets), where)
            R.ob("C06:route:Cons:tries-all-clauses", "v" in rets, "returns %s" % sorted(rets), where)
        elif tag == "Str":
            # nested (name, arity) match: ('.',2)->l, (_,0)->c [recorded exception], else s
            inner = {}
            for m in matches_in(arm["body"], src=None):
                for a in m["arms"]:
                    for leaf in pat_leaves(a["pat"]):
                        if leaf["k"] == "PTuple" and len(leaf["pats"]) == 2:
                            at = atom_of(leaf["pats"][0])
                            ar = leaf["pats"][1]
                            arv = ar["lit"].get("int") if ar["k"] == "PLit" else "_"
                            inner[(at or "_", arv)] = {names.get(x, x) for x in returned_locals(a["body"], set(names) | {"Fail"})}
                        elif leaf["k"] == "PWild":
                            inner[("_", "_")] = {names.get(x, x) for x in returned_locals(a["body"], set(names) | {"Fail"})}
            R.ob("C06:route:Str:./2", inner.get((".", "2")) == {"l"}, "'.'/2 structure -> %s" % inner.get((".", "2")), where)
            R.ob("C06:route:Str:compound", inner.get(("_", "_")) == {"s"}, "other structures -> %s" % inner.get(("_", "_")), where)
            extra = {k: vv for k, vv in inner.items() if k not in ((".", "2"), ("_", "_"), ("_", "0"))}
            R.ob("C06:route:Str:no-other-cases", not extra, "unexpected cases %s" % extra, where)
            R.notes.append("exception C06:route:Str:arity0->c: " + EXC_STR_ARITY0)
        elif tag == "_":
            R.ob("C06:route:default", rets <= {"Fail"}, "default arm returns %s" % sorted(rets), where)
        else:
            R.ob("C06:route:%s:unknown-class" % tag, rets <= {"v", "Fail"},
                 "tag class %s is not in the canonical table and returns %s" % (tag, sorted(rets)), where)
        R.sample({"tag": tag, "returns": sorted(rets)})

    # HeapCellValue equality is bitwise (derived) — the premise of the routing rule
    for tr in ("std::hash::Hash", "std::cmp::PartialEq"):
        imps = [i for i in F.types["impls"] if i["self_ty"] == "types::HeapCellValue" and i.get("trait") == tr
                and re.search(r" as [A-Za-z:]+>$", i.get("trait_ref", ""))]
        R.ob("C06:HeapCellValue:%s-is-derived" % tr.rsplit("::", 1)[1], len(imps) == 1 and imps[0]["derived"],
             "impls %s" % [(i.get("trait_ref"), i["derived"]) for i in imps], "src/types.rs")

    # ---- R2: floats are interned by value -------------------------------------------------------
    bw = F.find_impl("F64Table", None, "build_with")
    mir = F.mir(bw)
    g = CFG(mir)
    dom = g.dominators()
    is_get = lambda t: re.search(r"indexmap::.*IndexMap<K, V, S>::get$|IndexMap::<K, V, S>::get$", callee_of(t)) is not None
    is_ins = lambda t: re.search(r"IndexMap::<K, V, S>::insert$|IndexMap<K, V, S>::insert$", callee_of(t)) is not None
    is_alloc = lambda t: re.search(r"OffsetTable.*::build_with$|OffsetTableImpl.*::build_with$", callee_of(t)) is not None and "F64Table" not in callee_of(t)
    gets = g.call_blocks(is_get)
    inss = g.call_blocks(is_ins)
    allocs = g.call_blocks(is_alloc)
    R.floor("F64Table::build_with allocations", len(allocs), 2)
    for a in allocs:
        ln = mir["blocks"][a]["t"]["ln"]
        dominated = any(x in dom.get(a, ()) for x in gets)
        R.ob("C06:f64-intern:lookup-dominates-alloc@%s" % callee_short(mir["blocks"][a]["t"]), dominated,
             "allocation of a float offset at line %s must be dominated by a lookup of the value in indirection_tbl" % ln, F.where(bw))
        ok, wit = g.must_pass(a, set(inss))
        R.ob("C06:f64-intern:insert-follows-alloc@%s" % callee_short(mir["blocks"][a]["t"]), ok,
             "a path from the allocation at line %s returns without recording the value in indirection_tbl" % ln, F.where(bw))
    # RF4: raw float-offset allocators are called from F64Table::build_with only
    callers = {}
    for p, cs in F.calls.items():
        for cfact in cs:
            tgt = cfact.get("resolved") or cfact.get("callee") or ""
            inst = cfact.get("inst") or ""
            if re.search(r"OffsetTable.*::build_with$", tgt) and "OrderedFloat<f64>" in inst:
                callers.setdefault(p, 0)
                callers[p] += 1
    R.floor("raw f64 offset allocator call sites", sum(callers.values()), 2)
    for p in sorted(callers):
        R.ob("C06:f64-intern:who-may-allocate:%s" % short(p), p == bw,
             "%s allocates a float offset without interning it by value" % p, F.where(p))

    # ---- R3: lookup sites -----------------------------------------------------------------------
    sites = [F.find_impl("Machine", None, "execute_switch_on_term"), F.find_impl("Machine", None, "next_clause_applicable")]
    for fn in sites:
        fh = F.hir(fn)
        disp = [n for _, r, n in hir_calls(fh["body"]) if r == sf]
        gets_ = [n for n in walk(fh["body"]) if n["k"] == "MethodCall" and n["name"] == "get"
                 and "IndexMap<types::HeapCellValue" in (n["recv"].get("ty", "") + n["recv"].get("adj_ty", ""))]
        sidx = [n for _, r, n in hir_calls(fh["body"]) if r.endswith("::select_switch_on_structure_index")]
        if not disp or not gets_ or not sidx:
            raise AnchorLost("%s: dispatch/lookup calls not found (%d,%d,%d)" % (fn, len(disp), len(gets_), len(sidx)))
        def loc(e):
            while e["k"] == "AddrOf":
                e = e["a"]
            return res_name(e) if e["k"] == "Path" else None
        d = {loc(n["args"][0]) for n in disp}
        k = {loc(n["args"][0]) for n in gets_}
        st = {loc(n["args"][0]) for n in sidx}
        R.ob("C06:lookup-site:%s:same-cell" % short(fn), len(d) == 1 and d == k == st and None not in d,
             "dispatches on %s, constant lookup key %s, structure lookup key %s" % (d, k, st), F.where(fn))
    # ---- R4: construction vs removal ------------------------------------------------------------
    ic = [p for p in F.find_all(r"CodeOffsets<I>::index_constant$|CodeOffsets::<I>::index_constant$")]
    if len(ic) != 1:
        raise AnchorLost("CodeOffsets::index_constant: %s" % ic)
    ich = F.hir(ic[0])
    calls = [r for _, r, _ in hir_calls(ich["body"])]
    R.ob("C06:index_constant:alternative-keys", any(r.endswith("indexing::constant_key_alternatives") for r in calls),
         "index_constant must also index the fixnum spelling of integral big integers / rationals", F.where(ic[0]))
    n_entry = sum(1 for r in calls if re.search(r"IndexMap::<K, V, S>::entry$|IndexMap<K, V, S>::entry$", r))
    R.ob("C06:index_constant:both-keys-inserted", n_entry == 2, "%d entry() insertions (primary key + alternative key)" % n_entry, F.where(ic[0]))
    conv = [r for r in calls if "HeapCellValue" in r and "From<parser::ast::Literal>" in r or r.endswith("for types::HeapCellValue>::from")]
    R.ob("C06:index_constant:key-function", len(conv) >= 1, "keys are built by %s" % sorted(set(conv)), F.where(ic[0]))
    ri = F.find("indexing::remove_index")
    rc = F.find("indexing::remove_constant_indices")
    rih = F.hir(ri)
    ok = False
    for m in matches_in(rih["body"], src=None):
        for arm in m["arms"]:
            for leaf in pat_leaves(arm["pat"]):
                lf = repo.strip_ref(leaf)
                if (res_name(lf) or "").endswith("OptArgIndexKey::Literal") and lf["k"] == "PTupleStruct":
                    binds = [repo.strip_ref(q).get("name") for q in lf["pats"]]
                    for _, r, n in hir_calls(arm["body"]):
                        if r == rc:
                            used = {res_name(x) for a in n["args"] for x in walk(a) if x["k"] == "Path"}
                            ok = binds[2] in used and binds[3] in used
    R.ob("C06:remove_index:removes-both-keys", ok, "remove_index must hand the constant and its overlapping alternative to remove_constant_indices", F.where(ri))
    mc = F.find("indexing::merge_clause_index")
    mch = F.hir(mc)
    used_overlap = False
    for m in matches_in(mch["body"], src=None):
        for arm in m["arms"]:
            for leaf in pat_leaves(arm["pat"]):
                lf = repo.strip_ref(leaf)
                if (res_name(lf) or "").endswith("OptArgIndexKey::Literal") and lf["k"] == "PTupleStruct":
                    b3 = repo.strip_ref(lf["pats"][3]).get("name")
                    used_overlap = b3 is not None and any(res_name(x) == b3 for x in walk(arm["body"]) if x["k"] == "Path")
    R.ob("C06:merge_clause_index:uses-overlapping-key", used_overlap, "merge must merge the alternative key as well", F.where(mc))

    # ---- R5: index_term covers every first-argument shape --------------------------------------
    it = [p for p in F.find_all(r"CodeOffsets.*::index_term$")]
    if len(it) != 1:
        raise AnchorLost("index_term: %s" % it)
    ith = F.hir(it[0])
    en = F.enum("parser::ast::Term")
    explicit = set()
    for m in matches_in(ith["body"], src=None):
        if "parser::ast::Term" in (m["scrut"].get("ty") or ""):
            for arm in m["arms"]:
                for leaf in pat_leaves(arm["pat"]):
                    rn = res_name(repo.strip_ref(leaf)) or ""
                    if rn.startswith("parser::ast::Term::"):
                        explicit.add(rn.rsplit("::", 1)[1])
    allv = {v_["name"] for v_ in en["variants"]}
    missing = allv - explicit - {"Var", "AnonVar"}
    R.ob("C06:index_term:all-nonvar-shapes-indexed", not missing and explicit,
         "Term variants without an explicit indexing arm: %s (explicit: %s)" % (sorted(missing), sorted(explicit)), F.where(it[0]))


    # ---- R6: the clause look-ahead never rejects a cell the real head instruction accepts -------------------
    nca = F.find_impl("Machine", None, "next_clause_applicable")
    nh = F.hir(nca)
    PAIRS = {"GetList": "get_list_instr", "GetStructure": "get_structure_instr", "GetPartialString": "get_partial_string_instr"}

    def tag_arms(node):
        """{tag: [arm bodies]} over every HeapCellValueTag match below node ('_' = wildcard)."""
        out = {}
        is_tag_match = lambda n: n["k"] == "Match" and n["scrut"].get("ty") == "types::HeapCellValueTag"
        # outermost tag matches only: the dispatch on the argument cell itself
        for mm in repo.walk_skip(node, lambda n: False):
            pass
        tops = []

        def rec(n, inside):
            if isinstance(n, list):
                for x in n:
                    rec(x, inside)
                return
            if not isinstance(n, dict):
                return
            if n.get("k") == "Match" and is_tag_match(n):
                if not inside:
                    tops.append(n)
                inside = True
            for v in n.values():
                if isinstance(v, (dict, list)):
                    rec(v, inside)

        rec(node, False)
        for mm in tops:
            for arm in mm["arms"]:
                for leaf in pat_leaves(arm["pat"]):
                    rn = res_name(leaf) or ""
                    tag = rn[len(TAG):] if rn.startswith(TAG) else ("_" if leaf["k"] == "PWild" else None)
                    if tag:
                        out.setdefault(tag, []).append(arm["body"])
        return out

    def only_rejects(body):
        e = body
        while e["k"] == "Block" and len(e["stmts"]) + (1 if "expr" in e else 0) == 1:
            e = e["stmts"][0] if e["stmts"] else e["expr"]
        if e["k"] == "Ret" and e.get("val", {}).get("k") == "Lit" and e["val"]["lit"].get("bool") is False:
            return True
        if e["k"] == "Assign" and e["lhs"]["k"] == "Field" and e["lhs"]["name"] == "fail":
            return True
        if e["k"] == "Block":
            ss = e["stmts"] + ([e["expr"]] if "expr" in e else [])
            return bool(ss) and all(only_rejects(s) or s["k"] in ("Break", "Ret") for s in ss) and any(only_rejects(s) for s in ss)
        return False

    n_la = 0
    for mm in matches_in(nh["body"], src=None):
        for arm in mm["arms"]:
            for leaf in pat_leaves(arm["pat"]):
                rn = res_name(repo.strip_ref(leaf)) or ""
                if not rn.startswith(repo.INSTR):
                    continue
                v = rn[len(repo.INSTR):]
                if v not in PAIRS:
                    continue
                la = tag_arms(arm["body"])
                if not la:
                    continue  # the catch-all arm for non-shallow levels performs no test
                hf = F.find_impl("MachineState", None, PAIRS[v])
                ha = tag_arms(F.hir(hf)["body"])
                acc_la = {t for t, bodies in la.items() if t != "_" and not all(only_rejects(b) for b in bodies)}
                acc_h = {t for t, bodies in ha.items() if t != "_" and not all(only_rejects(b) for b in bodies)}
                la_default_accepts = "_" in la and not all(only_rejects(b) for b in la["_"])
                missing = set() if la_default_accepts else acc_h - acc_la
                n_la += 1
                R.ob("C06:lookahead:%s:accepts-what-%s-accepts" % (v, PAIRS[v]), not missing,
                     "next_clause_applicable rejects cells tagged %s for %s although %s handles them: a matching clause would be skipped "
                     "(look-ahead accepts %s, instruction accepts %s)" % (sorted(missing), v, PAIRS[v], sorted(acc_la), sorted(acc_h)),
                     "%s (line %s)" % (F.where(nca), arm["ln"]))
    R.floor("look-ahead instruction cases", n_la, 3)


def callee_short(t):
    c = callee_of(t)
    m = re.search(r"([A-Za-z]+OffsetTable[A-Za-z]*)", c)
    return m.group(1) if m else short(c)


def choice_sequence_order(F, R):
    """When a second clause arrives for a first-argument key, a two-entry choice sequence is built from the clause already
    indexed and the new one. Their order is the clause order seen by calls with that key, so it must follow the direction
    of the insertion (assertz/consult: old then new; asserta: new then old) at EVERY such construction site (siblings for
    constants, structures, lists; static and dynamic)."""
    from .core import res_name
    n = 0
    for p, it in sorted(F.items.items()):
        if it["file"] != "src/indexing.rs" or it["kind"] not in ("Fn", "AssocFn"):
            continue
        ph = F.hir(p)
        lets = {x["pat"]["name"]: x["init"] for x in walk(ph["body"]) if x["k"] == "Let" and x["pat"]["k"] == "PBind" and "init" in x}
        k = 0
        for x in walk(ph["body"]):
            if x["k"] == "Call" and re.search(r"IndexingLine::(DynamicIndexedChoice|IndexedChoice)$", x.get("resolved") or x.get("callee") or "") and x.get("args"):
                a = x["args"][0]
                init = lets.get(res_name(a)) if a["k"] == "Path" else a
                if init is None:
                    continue      # passed in by the caller (an existing sequence), not built here
                while init.get("k") in ("DropTemps", "Paren", "Block") and (init.get("e") or init.get("expr")) and not init.get("stmts"):
                    init = init.get("e") or init.get("expr")
                builds_pair = any(y["k"] == "MacCall" or (y["k"] in ("Call", "MethodCall") and re.search(r"into_vec$|vec::from_elem$|box_new|Box::<.*>::new$", y.get("resolved") or y.get("callee") or "")) for y in walk(init)) or \
                    any("vec" in [m[0] for m in y.get("mac", [])] for y in walk(init))
                if not builds_pair:
                    continue
                n += 1
                follows = init.get("k") == "If" and any(y["k"] == "MethodCall" and y["name"] == "is_append" for y in walk(init["cond"])) and "else" in init
                R.ob("C06:new-choice-sequence:order-follows-insertion-direction:%s#%d" % (short(p), k), follows,
                     "%s builds a two-clause choice sequence (line %s) without looking at append_or_prepend: an asserta on a key with one clause puts the new clause AFTER the old one, "
                     "so calls with that key see the clauses in the wrong order" % (short(p), x["ln"]), F.where(p))
                k += 1
    R.floor("two-clause choice sequence constructions", n, 5)


def first_entry_flags(F, R, prefix="C06", only=None):
    """The compiler's per-key choice sequences (`index_list`, `index_constant`, `index_structure` of CodeOffsets) start with
    a `try`-kind entry and continue with `retry`-kind ones; which one is computed by `compute_index(is_initial, ..)`. The
    flag must be the emptiness of the very sequence the entry is pushed onto — in particular for the second,
    *overlapping* key of an integer that has two spellings (C05). MIR def-use: push_back(recv, v): v <- compute_index(f, ..),
    f <- is_empty(r) with root(r) == root(recv)."""
    fns = [p for p, it in F.items.items() if it["file"] == "src/indexing.rs" and it["kind"] == "AssocFn" and re.search(r"CodeOffsets(::<.*?>)?::index_(list|constant|structure)$", p)]
    if only:
        fns = [p for p in fns if p.endswith(only)]
    n = 0
    for fn in sorted(fns):
        mir = F.mir(fn)
        defs = {}
        for bi, b in enumerate(mir["blocks"]):
            for s in b["s"]:
                if len(s.get("l", [])) == 1:
                    defs.setdefault(s["l"][0], []).append(("stmt", s["rv"]))
            t = b["t"]
            if t.get("k") == "Call" and t.get("dest") and len(t["dest"].get("p", t["dest"]) if isinstance(t["dest"], dict) else t["dest"]) == 1:
                d = t["dest"]["p"][0] if isinstance(t["dest"], dict) else t["dest"][0]
                defs.setdefault(d, []).append(("call", t))

        def src(local, depth=0):
            """canonical origin of a temporary"""
            ds = defs.get(local, [])
            if len(ds) != 1 or depth > 12:
                return "local:%s" % local
            kind, x = ds[0]
            if kind == "call":
                a0 = x["args"][0] if x.get("args") else None
                inner = src(a0["p"][0], depth + 1) + "".join(str(q) for q in a0["p"][1:]) if a0 and "p" in a0 else ""
                return "call:%s(%s)" % (short(callee_of(x)), inner) if re.search(r"Indexer::(lists|constants|structures)$", callee_of(x)) else "local:%s" % local
            p = x.get("p") if x.get("k") == "Ref" else (x.get("a") or {}).get("p") if x.get("k") == "Use" else None
            if not p:
                return "local:%s" % local
            if len(p) == 1:
                return src(p[0], depth + 1)
            if p[1:] == ["*"]:
                return src(p[0], depth + 1)
            return src(p[0], depth + 1) + "".join(str(q) for q in p[1:]) if p[0] != 1 else "self" + "".join(str(q) for q in p[1:])

        def producer(arg, rx):
            """the call whose result reaches `arg` through plain moves"""
            seen = 0
            while arg and "p" in arg and len(arg["p"]) == 1 and seen < 12:
                ds = defs.get(arg["p"][0], [])
                if len(ds) != 1:
                    return None
                kind, x = ds[0]
                if kind == "call":
                    return x if re.search(rx, callee_of(x)) else None
                if x.get("k") != "Use":
                    return None
                arg = x.get("a")
                seen += 1
            return None
        k = 0
        for b in mir["blocks"]:
            t = b["t"]
            if t.get("k") != "Call" or not re.search(r"VecDeque::<.*>::push_back$", callee_of(t)):
                continue
            ci = producer(t["args"][1], r"Indexer::compute_index$")
            if ci is None:
                continue
            n += 1
            ie = producer(ci["args"][0], r"VecDeque::<.*>::is_empty$")
            recv = src(t["args"][0]["p"][0]) if "p" in t["args"][0] else "?"
            tested = src(ie["args"][0]["p"][0]) if ie is not None and "p" in ie["args"][0] else None
            R.ob("%s:first-entry-flag-from-the-sequence-pushed-to:%s@%d" % (prefix, short(fn), k), tested is not None and tested == recv,
                 "%s pushes an entry (line %s) whose try/retry kind was computed from the emptiness of %s, but the entry goes onto %s: a key whose own sequence is "
                 "non-empty gets a second `try`, or an empty one starts with `retry` (for the overlapping spelling of an integer key the call then reaches unreachable!())"
                 % (short(fn), t["ln"], tested or "something other than an is_empty() test", recv), F.where(fn))
            R.sample({"fn": short(fn), "line": t["ln"], "pushed_to": recv, "flag_from": tested})
            k += 1
    R.floor("%s: per-key choice sequence pushes" % prefix, n, 4 if not only else 2)


def merge_guard_compares_two_clauses(F, R):
    """The incremental compiler merges a new clause into an existing indexed block only when both are indexed on the same
    argument position: it compares opt_arg_index_key.arg_num() of the NEW clause with that of the block's clause. Both
    operands of such a comparison must come from different clauses (different index expressions into the skeleton) — a
    comparison of a clause with itself is always true and merges a clause keyed on another argument into the block, whose
    table is then consulted with the wrong argument's value."""
    import json
    n = 0
    for p, it in sorted(F.items.items()):
        if it["file"] != "src/machine/compile.rs" or it["kind"] not in ("Fn", "AssocFn"):
            continue
        body = F.hir(p)["body"]
        lets = {x["pat"]["name"]: x["init"] for x in walk(body) if x["k"] == "Let" and x["pat"]["k"] == "PBind" and "init" in x}

        def source(e):
            """canonical text of the skeleton index an arg_num() value was taken from"""
            if e["k"] == "Path" and res_name(e) in lets:
                e = lets[res_name(e)]
            calls = [x for x in walk(e) if x["k"] == "MethodCall" and x["name"] == "arg_num"]
            if len(calls) != 1:
                return None
            idx = [y for y in walk(calls[0]["recv"]) if y["k"] == "Index"]
            if not idx:
                return None
            i = idx[0].get("idx") or idx[0].get("index")

            def canon(z):
                if isinstance(z, list):
                    return [canon(q) for q in z]
                if not isinstance(z, dict):
                    return z
                return {k: canon(v) for k, v in z.items() if k not in ("ln", "mac", "span", "adj_ty")}
            return json.dumps(canon(i), sort_keys=True)
        for x in walk(body):
            if x["k"] == "Binary" and x["op"] in ("Eq", "Ne"):
                a, b = source(x["a"]), source(x["b"])
                if a is None or b is None:
                    continue
                n += 1
                R.ob("C06:merge-guard:compares-two-different-clauses:%s@%d" % (short(p), x["ln"] - it["line"]), a != b,
                     "%s compares the index argument position of a clause with itself (line %s): the test is always true, and an asserta/assertz of a clause indexed on "
                     "another argument merges it into the block (asserta(p(_,k)) onto p(a,1). p(b,2). p(a,3). makes p(a,Y) answer [1,3])" % (short(p), x["ln"]), F.where(p))
    R.floor("comparisons of index argument positions in the incremental compiler", n, 2)
