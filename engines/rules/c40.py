"""C40 — call_with_inference_limit/3: the install/remove discipline of the counter and the limit stack.

How many inferences a goal takes is a run-time value and is not decided. What has a shape:

  * the Prolog driver (iso_ext.pl) installs the counter before the goal is called and removes it on every way out: after
    the goal succeeded (then, on backtracking into the goal, installs it again with the budget that is left,
    `L - (Count1 - Count0)`, computed from the two counts the primitives returned), and in the clause that is reached by
    failure, error or an exceeded limit (which also puts the block register back);
  * the limit stack: a new limit is pushed only when it is tighter than the one in power (an inner call with a larger
    limit does not extend the outer budget), and a limit is popped only by the block that pushed it (an inner removal
    does not take the outer limit away);
  * the counter: the test against the limit comes before the increment, and exceeding it sets the flag, installs the
    limit's own block and unwinds; counting is suspended while the flag or a ball is up;
  * no limit value can make the primitives panic: the arbitrary-precision arm of the installer does not unwrap its
    narrowing, and the absolute limit is not computed with an addition that traps on overflow
    (call_with_inference_limit(G, 2^130, R) aborted the process; so did a limit of 2^128-1 nested in another).
"""
import os
import re
import sys

from .core import AnchorLost, REPO, short, walk
from . import c22

sys.path.insert(0, os.path.dirname(os.path.dirname(os.path.abspath(__file__))))
from plread import plread as P  # noqa: E402

EXPLANATION = (
    "Goal-order rules (plread) over call_with_inference_limit/3,/5 in iso_ext.pl; effect-summary rules over the typed "
    "HIR of CWIL::add_limit / remove_limit, MachineState::increment_call_count and Machine::install_inference_counter."
)
ASSUMPTIONS = ["'$call_with_inference_counting' runs its goal with counting on (C07's call policy, not decided here)"]


def fnames(gs):
    return [P.functor(c22.unq(g)) for g in gs]


def run(ctx, R):
    F = ctx.facts()
    R.rule("RF2 acquire/release order in the Prolog driver; RF3 guarded push/pop of the limit stack; RF5 no trapping arithmetic on a user-supplied limit")
    text = open(os.path.join(REPO, "src/lib/iso_ext.pl")).read()
    cls = {}
    for term, line in P.read_clauses(text):
        if term[0] == "error":
            continue
        h, b = P.head_body(term)
        f = P.functor(h)
        if f and f[0] == "call_with_inference_limit":
            cls.setdefault(f, []).append((h, b, line))
    if len(cls.get(("call_with_inference_limit", 3), [])) != 1 or len(cls.get(("call_with_inference_limit", 5), [])) != 2:
        raise AnchorLost("iso_ext.pl: call_with_inference_limit/3 (1 clause) and /5 (2 clauses)")
    where = "src/lib/iso_ext.pl call_with_inference_limit/5"
    h1, b1, l1 = cls[("call_with_inference_limit", 5)][0]
    h2, b2, l2 = cls[("call_with_inference_limit", 5)][1]
    g1 = [c22.unq(g) for g in P.conj(b1)]
    f1 = fnames(g1)

    def idx(name, ar):
        return f1.index((name, ar)) if (name, ar) in f1 else -1
    i_inst, i_call, i_rem = idx("$install_inference_counter", 3), idx("$call_with_inference_counting", 1), idx("$remove_inference_counter", 2)
    R.ob("C40:driver:counter-installed-before-the-goal-and-removed-after-it", 0 <= i_inst < i_call < i_rem,
         "call_with_inference_limit/5, first clause: goals %s: the counter has to be installed before '$call_with_inference_counting' and removed after it" % [x[0] for x in f1 if x], where)
    ok = False
    why = "shape not recognised"
    if 0 <= i_inst < i_call < i_rem:
        inst, rem = g1[i_inst], g1[i_rem]
        L, c0, c1 = inst[2][1], inst[2][2], rem[2][1]
        blk_same = inst[2][0] == rem[2][0]
        R.ob("C40:driver:removed-under-the-block-it-was-installed-under", blk_same and L == h1[2][1],
             "call_with_inference_limit/5 installs the counter with %s and removes it with %s (limit argument %s, head limit %s)" % (P.show(inst[2][0]), P.show(rem[2][0]), P.show(L), P.show(h1[2][1])), where)
        diffs = [g for g in g1[i_rem:] if P.functor(g) == ("is", 2)]
        want = ("cmp", "-", [L, ("cmp", "-", [c1, c0])])
        budget = diffs[0][2][0] if diffs else None
        R.ob("C40:driver:budget-left-is-limit-minus-inferences-used", bool(diffs) and diffs[0][2][1] == want,
             "call_with_inference_limit/5 computes the budget for the next solution as %s; expected %s with the two counts returned by install and remove" % (P.show(diffs[0][2][1]) if diffs else None, P.show(want)), where)
        last = g1[-1]
        if last[0] == "cmp" and last[1] == ";" and budget is not None:
            redo = [c22.unq(g) for g in P.conj(last[2][1])]
            rf = fnames(redo)
            re_inst = [g for g in redo if P.functor(g) == ("$install_inference_counter", 3)]
            ok = len(re_inst) == 1 and re_inst[0][2][0] == inst[2][0] and re_inst[0][2][1] == budget and rf[-1] in (("$fail", 0), ("fail", 0), ("false", 0))
            why = "redo branch goals %s" % [x[0] for x in rf if x]
    R.ob("C40:driver:redo-reinstalls-the-counter-with-the-budget-left", ok,
         "call_with_inference_limit/5: on backtracking into the goal the counter must be installed again under the same block with the budget left, and the branch must fail into the goal (%s)" % why, where)
    g2 = [c22.unq(g) for g in P.conj(b2)]
    f2 = fnames(g2)
    has_rem = ("$remove_inference_counter", 2) in f2
    has_reset = any(P.functor(g) == ("$reset_block", 1) and g[2][0] == h2[2][3] for g in g2)
    flag = any(g[0] == "cmp" and g[1] == ";" and any(P.functor(s) == ("$inference_limit_exceeded", 0) for s in c22.simple_goals(g)) for g in g2)
    R.ob("C40:driver:failure-clause-removes-the-counter-and-restores-the-block", has_rem and has_reset and flag,
         "call_with_inference_limit/5, second clause (failure, error, limit exceeded): goals %s: it must report an exceeded limit, remove the counter and reset the block to the caller's" % [x[0] for x in f2 if x], where)
    # /3 validates L before anything else
    h3, b3, l3 = cls[("call_with_inference_limit", 3)][0]
    g3 = [c22.unq(g) for g in P.conj(b3)]
    okv = False
    for i, g in enumerate(g3):
        sg = c22.simple_goals(g)
        fs = [P.functor(x) for x in sg]
        if ("integer", 1) in fs and ("<", 2) in fs and ("domain_error", 3) in fs and ("instantiation_error", 1) in fs and ("type_error", 3) in fs:
            tested = all(x[2][0] == h3[2][1] for x in sg if P.functor(x) in (("integer", 1), ("<", 2)))
            later = [j for j, x in enumerate(g3) if P.functor(x) == ("call_with_inference_limit", 5)]
            okv = tested and bool(later) and i < later[0]
    R.ob("C40:driver:limit-validated-before-the-counter-is-installed", okv,
         "call_with_inference_limit/3: the goal that tests integer(L) and L < 0 and raises the three documented errors must come before the call of the worker", "src/lib/iso_ext.pl:%d call_with_inference_limit/3" % l3)

    # ---- the limit stack ----------------------------------------------------------------------------------------
    add = F.find_impl("CWIL", None, "add_limit")
    rem = F.find_impl("CWIL", None, "remove_limit")
    ab = F.hir(add)["body"]
    pushes = [x for x in walk(ab) if x["k"] == "MethodCall" and x["name"] == "push" and any(y.get("name") == "limits" for y in walk(x["recv"]))]
    guarded = False
    for m in walk(ab):
        if m["k"] == "Match" and any(y["k"] == "MethodCall" and y["name"] == "last" for y in walk(m["scrut"])):
            for arm in m["arms"]:
                g = arm.get("guard")
                if g is not None and g["k"] == "Binary" and g["op"] in ("Le", "Lt") and not any(y["k"] == "MethodCall" and y["name"] == "push" for y in walk(arm["body"])):
                    # the arm that keeps the limit in power: `inner <= new`
                    bl = {y["res"]["local"] for y in walk(g["b"]) if y["k"] == "Path" and "local" in y.get("res", {})}
                    guarded = "limit" in bl
    # ... and the two sides of that comparison are in the same unit: limits on the stack are absolute counts (the user's
    # limit plus the inferences counted so far), so what is compared with the limit in power is the value that is pushed
    same_unit = False
    if len(pushes) == 1 and pushes[0]["args"] and pushes[0]["args"][0]["k"] == "Tup":
        pv = pushes[0]["args"][0]["elems"][0]
        for m in walk(ab):
            if m["k"] == "Match":
                for arm in m["arms"]:
                    g = arm.get("guard")
                    if g is not None and g["k"] == "Binary" and g["op"] in ("Le", "Lt"):
                        same_unit = pv["k"] == "Path" and g["b"]["k"] == "Path" and pv.get("res") == g["b"].get("res")
    R.ob("C40:limit-stack:limit-compared-is-the-limit-pushed", same_unit,
         "CWIL::add_limit compares the limit in power with one value and pushes another: the stack holds absolute counts (limit + inferences counted so far), so comparing the user's "
         "relative limit lets a looser inner limit be pushed over a tighter outer one", F.where(add))
    R.ob("C40:limit-stack:pushed-only-when-tighter-than-the-limit-in-power", len(pushes) == 1 and guarded,
         "CWIL::add_limit: %d push(es); the arm that leaves the stack alone must be guarded by `limit in power <= new limit` (a larger inner limit must not replace a tighter outer one)" % len(pushes), F.where(add))
    trapping = [x["name"] for x in walk(ab) if x["k"] == "MethodCall" and x["name"] in ("strict_add", "strict_sub", "strict_mul", "unwrap", "expect")]
    plain = [x["ln"] for x in walk(ab) if x["k"] in ("Binary", "AssignOp") and x.get("op") in ("Add", "Mul") and any(y["k"] == "Path" and y.get("res", {}).get("local") == "limit" for y in walk(x))]
    R.ob("C40:limit-stack:absolute-limit-computed-without-trapping", not trapping and not plain,
         "CWIL::add_limit computes the absolute limit from the user's limit with %s: a limit near 2^128 nested in a counted goal overflows and aborts the process" % (trapping or ["+ (line %s)" % plain]), F.where(add))
    rb = F.hir(rem)["body"]
    pops = [x for x in walk(rb) if x["k"] == "MethodCall" and x["name"] == "pop"]
    okp = False
    for i in walk(rb):
        if i["k"] == "If" and i["cond"]["k"] == "Binary" and i["cond"]["op"] == "Eq" and any(y["k"] == "MethodCall" and y["name"] == "pop" for y in walk(i["then"])):
            ls = {y["res"]["local"] for y in walk(i["cond"]) if y["k"] == "Path" and "local" in y.get("res", {})}
            okp = "block" in ls
    R.ob("C40:limit-stack:popped-only-by-the-block-that-pushed-it", len(pops) == 1 and okp,
         "CWIL::remove_limit pops the limit in power without comparing its block with the block of the caller: an inner call that pushed nothing removes the outer limit", F.where(rem))
    # ---- the counter ----------------------------------------------------------------------------------------------
    inc = F.find_impl("MachineState", None, "increment_call_count")
    ib = F.hir(inc)["body"]
    tests = [i for i in walk(ib) if i["k"] == "If" and i["cond"]["k"] == "Binary" and i["cond"]["op"] in ("Eq", "Ge") and any(y.get("name") == "local_count" for y in walk(i["cond"]))]
    okc = False
    if len(tests) == 1:
        t = tests[0]
        sets_flag = any(y["k"] == "Assign" and y["lhs"].get("name") == "inference_limit_exceeded" and y["rhs"].get("lit", {}).get("bool") is True for y in walk(t["then"]))
        sets_block = any(y["k"] == "Assign" and y["lhs"].get("name") == "block" and y["rhs"]["k"] == "Path" for y in walk(t["then"]))
        unwinds = any(y["k"] == "MethodCall" and y["name"] == "unwind_stack" for y in walk(t["then"]))
        incs = [y for y in walk(t.get("else") or {}) if y["k"] == "AssignOp" and y["lhs"].get("name") == "local_count"]
        no_inc_in_then = not any(y["k"] == "AssignOp" and y["lhs"].get("name") == "local_count" for y in walk(t["then"]))
        okc = sets_flag and sets_block and unwinds and len(incs) == 1 and no_inc_in_then
    R.ob("C40:counter:limit-tested-before-the-increment-and-exceeding-unwinds-to-the-limit's-block", okc,
         "increment_call_count: expected one test `local_count == limit` whose then-branch sets the exceeded flag, installs the limit's block and unwinds, and whose else-branch "
         "increments the count once", F.where(inc))
    first = None
    for x in walk(ib):
        if x["k"] == "If":
            first = x
            break
    susp = first is not None and any(y.get("name") == "inference_limit_exceeded" for y in walk(first["cond"])) and any(y["k"] == "Ret" for y in walk(first["then"]))
    R.ob("C40:counter:suspended-while-the-flag-or-a-ball-is-up", susp, "increment_call_count does not begin by returning when the limit was already exceeded (the unwinding itself would be counted)", F.where(inc))
    # ---- installer ------------------------------------------------------------------------------------------------
    ins = [p for p in F.items if re.search(r"system_calls::<impl machine::Machine>::install_inference_counter$", p)]
    if len(ins) != 1:
        raise AnchorLost("Machine::install_inference_counter")
    nb = F.hir(ins[0])["body"]
    bad = []
    n_arm = 0
    for m in walk(nb):
        if m["k"] != "Match":
            continue
        for arm in m["arms"]:
            if any(y.get("k") == "PTupleStruct" and (y.get("res", {}).get("def") or "").endswith("::Number::Integer") for y in walk(arm["pat"])):
                n_arm += 1
                bad += [y["ln"] for y in walk(arm["body"]) if y["k"] == "MethodCall" and y["name"] in ("unwrap", "expect")]
    if n_arm == 0:
        raise AnchorLost("install_inference_counter: arm for Number::Integer")
    R.ob("C40:installer:any-non-negative-limit-is-accepted", not bad,
         "install_inference_counter unwraps the narrowing of an arbitrary-precision limit (line %s): call_with_inference_limit(G, 2^130, R) aborts the process" % bad, F.where(ins[0]))
    calls_add = any(x["k"] == "MethodCall" and x["name"] == "add_limit" for x in walk(nb))
    R.ob("C40:installer:limit-goes-to-the-limit-stack", calls_add, "install_inference_counter does not hand the limit to CWIL::add_limit", F.where(ins[0]))
    # ---- the exceeded condition ends where it is reported ------------------------------------------------------------
    # increment_call_count stops counting while the flag is up (the unwinding must not be counted). The flag therefore has to
    # come down when the call whose limit was exceeded reports it, not only when the whole limit stack is empty: otherwise an
    # exceeded inner limit switches the enclosing limit off for the rest of the outer goal.
    cands = []
    for nm in ("inference_limit_exceeded", "remove_inference_counter"):
        c = [p for p in F.items if re.search(r"system_calls::<impl machine::Machine>::%s$" % nm, p)]
        if len(c) != 1:
            raise AnchorLost("Machine::%s" % nm)
        cands.append(c[0])
    cands.append(rem)
    cleared = []
    for p in cands:
        for x in walk(F.hir(p)["body"]):
            if x["k"] == "Assign" and x["lhs"].get("name") == "inference_limit_exceeded" and x["rhs"].get("lit", {}).get("bool") is False:
                cleared.append(short(p))
            if x["k"] == "Call" and re.search(r"mem::(take|replace)$", x.get("callee") or "") and any(y.get("name") == "inference_limit_exceeded" for y in walk(x)):
                cleared.append(short(p))
    R.ob("C40:counter:exceeded-condition-ends-when-it-is-reported", bool(cleared),
         "neither the primitive that reports an exceeded limit nor the removal of the limit clears CWIL::inference_limit_exceeded: the flag stays up until the limit stack is empty, and "
         "while it is up increment_call_count counts nothing — call_with_inference_limit((call_with_inference_limit(inf, 5, _), loop(100000)), 1000, R) answers R = !", F.where(cands[0]))

