"""RF5 — panic budget: the multiset of potentially panicking constructs in a set of bodies
(enumerated from the MIR call/assert facts, i.e. after macro expansion and type resolution) must
not grow beyond the triaged table committed under engines/rules/tables/. A construct is keyed by
(function, kind, callee): moving a line inside a function, renaming locals or reformatting does not
change the key; a new unwrap/expect/index/slice/panic!/unreachable!/integer division in the scope
does. The table records, per key, how many such constructs the reviewed tree contains and a
disposition for its class."""
import json
import os
import re

from .core import AnchorLost, short

HERE = os.path.dirname(os.path.abspath(__file__))

KINDS = [
    ("unwrap", re.compile(r"(option::Option|result::Result)::<.*>::(unwrap|expect|unwrap_err|expect_err|unwrap_unchecked)$")),
    ("panic", re.compile(r"(core|std)::panicking::(panic|panic_fmt|panic_explicit|unreachable_display|panic_display|assert_failed|panic_nounwind)|core::panicking::assert_failed|rt::begin_panic|panicking::begin_panic")),
    ("index", re.compile(r"ops::(Index|IndexMut)::(index|index_mut)$|ops::index::(Index|IndexMut)::(index|index_mut)$")),
    ("refcell", re.compile(r"cell::RefCell::<.*>::(borrow|borrow_mut)$")),
    ("slice-op", re.compile(r"slice::<impl \[T\]>::(split_at|split_at_mut|copy_from_slice|copy_within|swap|rotate_left|rotate_right)$|vec::Vec::<.*>::(remove|insert|swap_remove|drain|split_off)$|smallvec::SmallVec::<.*>::(drain|remove|insert|insert_from_slice)$|string::String::(remove|insert|truncate|split_off|drain)$|str::<impl str>::split_at$")),
    ("char-conv", re.compile(r"char::methods::<impl char>::from_u32_unchecked$|char::from_digit$")),
]
ASSERT_KINDS = {"BoundsCheck": "bounds", "DivisionByZero": "div0", "RemainderByZero": "div0", "Overflow(Div)": "div-overflow", "Overflow(Rem)": "div-overflow"}


def constructs(F, bodies):
    """{(function short path, kind, callee short): count} over the given bodies (closures folded
    into their parent function)."""
    out = {}
    for p in bodies:
        top = re.sub(r"(::\{closure#\d+\})+$", "", p)
        for c in F.calls.get(p, []):
            if "assert" in c:
                k = ASSERT_KINDS.get(c["assert"])
                if k:
                    key = (top, k, "")
                    out[key] = out.get(key, 0) + 1
                continue
            t = c.get("callee") or ""
            inst = c.get("inst") or t
            for kind, rx in KINDS:
                if rx.search(inst) or rx.search(t):
                    callee = re.sub(r"<.*$", "", short(t)) if kind != "index" else "Index"
                    if kind == "index":
                        a0 = c.get("a0ty", "")
                        callee = "index:" + re.sub(r"<.*", "", a0.replace("&mut ", "").replace("&", "")).rsplit("::", 1)[-1]
                    key = (top, kind, callee)
                    out[key] = out.get(key, 0) + 1
                    break
        # raw integer arithmetic that can overflow (panics in debug builds, wraps in release builds):
        # the facts are extracted with overflow checks off, so these are plain MIR BinaryOps
        try:
            mir = F.mir(p)
        except AnchorLost:
            continue
        for b in mir["blocks"]:
            for s in b["s"]:
                rv = s.get("rv")
                if rv and rv["k"] == "BinaryOp" and rv["op"] in ("Mul", "Shl", "MulUnchecked", "ShlUnchecked") and INT_RX.match(rv.get("ty", "")):
                    if "c" in rv["a"] and "c" in rv["b"]:
                        continue
                    key = (top, "int-arith", rv["op"].replace("Unchecked", "") + ":" + rv["ty"])
                    out[key] = out.get(key, 0) + 1
    return out


INT_RX = re.compile(r"^(i8|i16|i32|i64|i128|isize|u8|u16|u32|u64|u128|usize)$")


def table_path(name):
    return os.path.join(HERE, "tables", name + ".json")


def load_table(name):
    p = table_path(name)
    if not os.path.exists(p):
        raise AnchorLost("panic-budget table %s missing" % p)
    t = json.load(open(p))
    return {(e["fn"], e["kind"], e["callee"]): e for e in t["entries"]}, t


def check(F, R, prefix, name, bodies, min_constructs):
    cur = constructs(F, bodies)
    tab, meta = load_table(name)
    total = sum(cur.values())
    if total < min_constructs:
        raise AnchorLost("%s: only %d panicking constructs found in scope (floor %d)" % (name, total, min_constructs))
    R.notes.append("%s: %d bodies in scope, %d panicking constructs, %d table entries" % (name, len(bodies), total, len(tab)))
    for key in sorted(cur):
        fn, kind, callee = key
        ent = tab.get(key)
        allowed = ent["count"] if ent else 0
        n = cur[key]
        k = "%s:%s:%s:%s" % (prefix, short(fn), kind, callee)
        if n <= allowed:
            R.ob(k, True, "%d construct(s), table allows %d: %s" % (n, allowed, ent.get("disposition", "")), F.where(fn) if fn in F.items else fn)
        else:
            R.ob(k, False,
                 "%d potentially panicking construct(s) of kind %s (%s) where the triaged table allows %d: a new unwrap/expect/index/slice/"
                 "panic path in the %s scope can abort the process on malformed input" % (n, kind, callee, allowed, name), F.where(fn) if fn in F.items else fn)
        if len(R.samples) < 10:
            R.sample({"fn": short(fn), "kind": kind, "callee": callee, "count": n, "allowed": allowed})
    return total


def freeze(F, name, bodies, dispositions, note):
    """Write the table for the current tree (run by hand through tools/freeze_budget.py after review)."""
    cur = constructs(F, bodies)
    ents = []
    for (fn, kind, callee), n in sorted(cur.items()):
        ents.append({"fn": fn, "kind": kind, "callee": callee, "count": n, "disposition": dispositions.get(kind, "")})
    os.makedirs(os.path.join(HERE, "tables"), exist_ok=True)
    json.dump({"name": name, "note": note, "entries": ents}, open(table_path(name), "w"), indent=1)
    return len(ents), sum(cur.values())
