"""C10 — Unification computes most general unifiers.

Decides: (a) under the occurs-check unifiers no binding can bypass the check: inside the generic
unifier every binding goes through the overridable hook `Self::bind`; the raw binders
MachineState::bind / bind_attr_var and direct cell writes are absent there; (b) the occurs
check's result controls the binding; (c) the three occurs-check modes are wired to the three
unifiers; (d) the structural dispatch of the generic unifier has the variable arms in every helper.
Not the worklist algorithm's correctness.
"""
import re

from .core import AnchorLost, CFG, callee_of, hir_calls, matches_in, pat_leaves, res_name, short, walk
from . import repo, orframe

EXPLANATION = (
    "RF4 single-binding-hook rule over the call facts and typed HIR of every default method of trait "
    "machine::unify::Unifier (no call to the raw binders, no direct heap/stack cell assignment), RF3 "
    "control dependence of the bind on the occurs-check flag in the MIR of bind_with_occurs_check, RF4 "
    "wiring table of the three occurs-check modes, RF10 variable arms of the per-shape helpers."
)
ASSUMPTIONS = ["stackful_preorder_iter visits every cell of the term bound to the variable"]

TAG = "types::HeapCellValueTag::"
VAR_TAGS = {"AttrVar", "Var", "StackVar"}


def run(ctx, R):
    F = ctx.facts()
    R.rule("RF4 single binding hook in trait Unifier; RF3 check controls bind; RF4 mode wiring; RF10 variable arms")
    raw_bind = F.find_impl("MachineState", None, "bind")
    raw_bind_attr = F.find_impl("MachineState", None, "bind_attr_var")
    hook = "machine::unify::Unifier::bind"
    if hook not in F.items and not any(p == hook for p in F.items):
        # required trait method without body: locate default methods through in_trait
        pass
    defaults = sorted(p for p, it in F.items.items() if it.get("in_trait") == "machine::unify::Unifier" and it["kind"] == "AssocFn")
    R.floor("Unifier default methods", len(defaults), 12)
    n_hook_calls = 0
    for p in defaults:
        bodies = F.body_and_closures(p)
        raw = []
        hooks = 0
        for b in bodies:
            for c in F.calls.get(b, []):
                t = c.get("resolved") or c.get("callee") or ""
                if t in (raw_bind, raw_bind_attr):
                    raw.append((short(t), c.get("ln")))
                if (c.get("callee") or "") == hook:
                    hooks += 1
        n_hook_calls += hooks
        R.ob("C10:single-binding-hook:%s" % short(p), not raw,
             "generic unifier method binds through the raw binder %s instead of Self::bind: under unify_with_occurs_check / the occurs_check "
             "flag this binding is made without the occurs check" % raw, F.where(p))
        h = F.hir(p)
        writes = []
        for n in walk(h["body"]):
            if n["k"] == "Assign":
                ch = orframe.field_chain(n["lhs"])
                if ch and ch[-1] == "[]" and len(ch) >= 2 and ch[-2] in ("heap", "stack") and not (n["lhs"]["idx"]["k"] == "Lit" and n["lhs"]["idx"]["lit"].get("int") == "0"):
                    writes.append(n["ln"])
        R.ob("C10:no-direct-cell-write:%s" % short(p), not writes,
             "generic unifier method assigns heap/stack cells directly at lines %s (only the scratch cell heap[0] may be written)" % writes, F.where(p))
    R.floor("Self::bind call sites in the generic unifier", n_hook_calls, 20)

    # ---- hook implementations ------------------------------------------------------------------------
    impls = {it.get("self_ty"): p for p, it in F.items.items() if it.get("trait") == "machine::unify::Unifier" and p.endswith("::bind")}
    want = {"DefaultUnifier": {raw_bind}, "CompositeUnifierForOccursCheck<U>": {"machine::unify::bind_with_occurs_check"},
            "CompositeUnifierForOccursCheckWithError<U>": {"machine::unify::bind_with_occurs_check"}}
    seen = 0
    for st, p in sorted(impls.items()):
        key = re.sub(r"machine::unify::|<'a>", "", st or "")
        if key not in want:
            R.ob("C10:hook-impl:%s" % key, False, "unknown Unifier implementation %s: not in the wiring table" % st, F.where(p))
            continue
        seen += 1
        calls = {c.get("resolved") or c.get("callee") for c in F.calls.get(p, []) if "callee" in c}
        local = {c for c in calls if c in F.items and (c in (raw_bind, raw_bind_attr) or c.endswith("bind_with_occurs_check"))}
        R.ob("C10:hook-impl:%s" % key, local == want[key], "%s::bind binds through %s (table: %s)" % (key, sorted(map(short, local)), sorted(map(short, want[key]))), F.where(p))
    R.floor("Unifier implementations", seen, 3)
    # WithError: a positive check result must reach throw_exception
    pe = impls.get("machine::unify::CompositeUnifierForOccursCheckWithError<U>")
    if pe:
        h = F.hir(pe)
        ok = False
        for n in walk(h["body"]):
            if n["k"] == "If" and any(r.endswith("bind_with_occurs_check") for _, r, _ in hir_calls(n["cond"])) and not (n["cond"]["k"] == "Unary"):
                ok = any(r.endswith("::throw_exception") for _, r, _ in hir_calls(n["then"]))
        R.ob("C10:occurs-check-error:raises", ok, "a positive occurs check must raise in the `error` mode", F.where(pe))

    # ---- RF3: the flag controls the bind ----------------------------------------------------------------
    bw = "machine::unify::bind_with_occurs_check"
    h = F.hir(bw)
    flag = None
    for n in walk(h["body"]):
        if n["k"] == "Let" and n["pat"]["k"] == "PBind" and n.get("init", {}).get("k") == "Lit" and n["init"]["lit"].get("bool") is False:
            flag = n["pat"]["name"]
    if flag is None:
        raise AnchorLost("bind_with_occurs_check: flag local not found")
    set_true = [n for n in walk(h["body"]) if n["k"] == "Assign" and n["lhs"]["k"] == "Path" and res_name(n["lhs"]) == flag and n["rhs"]["k"] == "Lit" and n["rhs"]["lit"].get("bool") is True]
    # the assignment sits under `if r == inner_r` inside the traversal loop
    trav = any(r.endswith("heap_iter::stackful_preorder_iter") for _, r, _ in hir_calls(h["body"]))
    guarded_binds = 0
    unguarded = []

    def rec(n, anc):
        nonlocal guarded_binds
        if isinstance(n, list):
            for x in n:
                rec(x, anc)
            return
        if not isinstance(n, dict):
            return
        if n.get("k") == "Call" and (n.get("callee") or "") == hook:
            conds = []
            for node, key in anc:
                if node["k"] == "If":
                    c = node["cond"]
                    if c["k"] == "Path" and res_name(c) == flag:
                        conds.append("flag-then" if key == "then" else "flag-else")
                    elif c["k"] == "Unary" and c.get("op") == "Not" and c["a"]["k"] == "Path" and res_name(c["a"]) == flag:
                        conds.append("flag-else" if key == "then" else "flag-then")
                    elif c["k"] == "LetCond" and any((res_name(x) or "").endswith("RefTag::StackCell") for x in walk(c["pat"])):
                        conds.append("stack-cell-shortcut")
            if "flag-else" in conds and "flag-then" not in conds:
                guarded_binds += 1
            elif "stack-cell-shortcut" in conds:
                pass  # a stack variable cannot occur in a heap term: recorded exception
            else:
                unguarded.append(n["ln"])
        if "k" in n:
            for key, v in n.items():
                if isinstance(v, (dict, list)):
                    rec(v, anc + [(n, key)])
        else:
            for v in n.values():
                if isinstance(v, (dict, list)):
                    rec(v, anc)

    rec(h["body"], [])
    R.ob("C10:occurs-check:traverses-term", trav and len(set_true) == 1, "the check must traverse the bound term and set the flag when it meets the variable", F.where(bw))
    # ... for every value that can contain the variable: only an atomic constant may skip the traversal. A Var-tagged value
    # is not dereferenced by every caller (unify_value in write mode passes the register's cell as it is), so it may stand
    # for the structure being built.
    skips = []
    for n in walk(h["body"]):
        if n["k"] == "If" and any(x["k"] in ("Call", "MethodCall") and re.search(r"(stackful_preorder_iter|eager_stackful_preorder_iter|PreOrderHeapIter)", (x.get("resolved") or x.get("callee") or "") + (x.get("inst") or "")) for x in walk(n["then"])):
            tests = sorted({x["name"] for x in walk(n["cond"]) if x["k"] == "MethodCall"})
            skips.append(tests)
    if len(skips) != 1:
        raise AnchorLost("bind_with_occurs_check: the branch that traverses the value (%d)" % len(skips))
    R.ob("C10:occurs-check:only-constants-skip-the-traversal", skips[0] == ["is_constant"],
         "bind_with_occurs_check decides whether to traverse the value with %s: besides atomic constants nothing may skip the check — a variable cell that was not "
         "dereferenced by the caller can be bound to the structure under construction (p(f(X), X, g(X)) called as p(f(_), Y, W) with Y aliased to W builds a cyclic term "
         "under occurs_check = true)" % skips[0], F.where(bw))
    R.ob("C10:occurs-check:controls-bind", guarded_binds == 1 and not unguarded,
         "the heap-variable bind must be in the branch where the occurs flag is false (guarded %d, unguarded at lines %s)" % (guarded_binds, unguarded), F.where(bw))
    ret_flag = False
    b = h["body"]
    if b["k"] == "Block" and "expr" in b and b["expr"]["k"] == "Path" and res_name(b["expr"]) == flag:
        ret_flag = True
    R.ob("C10:occurs-check:reports-result", ret_flag, "bind_with_occurs_check must return the flag", F.where(bw))

    # ---- RF4: mode wiring --------------------------------------------------------------------------------
    WIRING = {"Nsto": ("unify", "bind"), "Sto": ("unify_with_occurs_check", "bind_with_occurs_check_wrapper"),
              "StoError": ("unify_with_occurs_check_with_error", "bind_with_occurs_check_with_error_wrapper")}
    for st, (u, b_) in WIRING.items():
        for meth, want_callee in (("unify", u), ("bind", b_)):
            p = F.find_impl(st, "machine::machine_state::OccursCheckImpl", meth)
            callees = {short(c.get("resolved") or c.get("callee") or "") for c in F.calls.get(p, []) if "callee" in c}
            R.ob("C10:mode-wiring:%s::%s" % (st, meth), callees == {"MachineState::" + want_callee},
                 "%s::%s calls %s (table: MachineState::%s)" % (st, meth, sorted(callees), want_callee), F.where(p))
    UNI = {"unify": "DefaultUnifier", "unify_with_occurs_check": "CompositeUnifierForOccursCheck", "unify_with_occurs_check_with_error": "CompositeUnifierForOccursCheckWithError",
           "bind_with_occurs_check_wrapper": "CompositeUnifierForOccursCheck", "bind_with_occurs_check_with_error_wrapper": "CompositeUnifierForOccursCheckWithError"}
    for meth, uni in UNI.items():
        p = F.find_impl("MachineState", None, meth)
        insts = {c.get("inst") or "" for c in F.calls.get(p, [])}
        built = {m.group(1) for i in insts for m in [re.search(r"machine::unify::(\w+)<", i)] if m and "From" in i}
        outer = uni in built and (uni == "DefaultUnifier" and built == {"DefaultUnifier"} or uni != "DefaultUnifier" and built == {uni, "DefaultUnifier"})
        R.ob("C10:mode-wiring:MachineState::%s" % meth, outer, "%s builds %s (table: %s)" % (meth, sorted(built), uni), F.where(p))

    # ---- RF4: head-unification instructions honour the occurs_check flag ----------------------------------------
    # unify_fn! dispatches through machine_st.occurs_check (Nsto/Sto/StoError); unify! is the plain unifier and
    # may only be used where one side is a constant (no cycle can arise).
    from .core import mac_names
    PLAIN_OK = {"get_constant_instr": "one side is a constant", "unify_constant_instr": "one side is a constant"}
    NEED_FLAG = {"get_value_instr", "unify_value_instr", "unify_local_value_instr"}
    plain, flagged = {}, {}
    for p, it in F.items.items():
        if it["kind"] != "AssocFn" or it["file"] != "src/machine/dispatch.rs" or not p.endswith("_instr"):
            continue
        hh = F.hir(p)
        for n in walk(hh["body"]):
            ms = mac_names(n)
            if "unify" in ms:
                plain[p] = plain.get(p, 0) + 1
            if "unify_fn" in ms:
                flagged[p] = flagged.get(p, 0) + 1
    R.floor("instruction handlers that unify", len(plain) + len(flagged), 5)
    for p in sorted(plain):
        nm = p.rsplit("::", 1)[-1]
        R.ob("C10:flag-respecting-unify:%s:plain" % nm, nm in PLAIN_OK,
             "%s unifies with the plain unifier (unify!), which ignores the occurs_check flag: %s" % (nm, PLAIN_OK.get(nm, "two arbitrary terms may be unified here, so with occurs_check=true/error a cyclic term is built silently")), F.where(p))
    for nm in sorted(NEED_FLAG):
        ps = [p for p in flagged if p.endswith("::" + nm)]
        R.ob("C10:flag-respecting-unify:%s" % nm, len(ps) == 1 and not any(p.endswith("::" + nm) for p in plain),
             "%s must unify through unify_fn! (machine_st.occurs_check.unify)" % nm, F.where(ps[0]) if ps else "src/machine/dispatch.rs")

    # ---- RF10: variable arms in the per-shape helpers --------------------------------------------------------
    for helper in ("unify_structure", "unify_list", "unify_atom", "unify_char", "unify_fixnum", "unify_big_integer", "unify_big_rational", "unify_f64", "unify_constant"):
        cands = [p for p in defaults if p.endswith("::" + helper)]
        if not cands:
            continue
        hh = F.hir(cands[0])
        tags = set()
        for m in matches_in(hh["body"], src=None):
            if m["scrut"].get("ty") != "types::HeapCellValueTag":
                continue
            for arm in m["arms"]:
                binds = any((x.get("callee") or "") == hook for x in walk(arm["body"]) if x["k"] == "Call")
                for leaf in pat_leaves(arm["pat"]):
                    rn = res_name(leaf) or ""
                    if rn.startswith(TAG) and binds:
                        tags.add(rn[len(TAG):])
        # second idiom: `if let Some(r) = value.as_var() { Self::bind(self, r, ..) }`
        for n in walk(hh["body"]):
            if n["k"] == "If" and n["cond"]["k"] == "LetCond" and any(x["k"] == "MethodCall" and x["name"] == "as_var" for x in walk(n["cond"]["init"])):
                if any((x.get("callee") or "") == hook for x in walk(n["then"]) if x["k"] == "Call"):
                    tags |= VAR_TAGS
        R.ob("C10:variable-arms:%s" % helper, VAR_TAGS <= tags, "%s binds through the hook for tags %s; all of %s are needed" % (helper, sorted(tags), sorted(VAR_TAGS)), F.where(cands[0]))

    # ---- a bind or unification through the occurs-check unifier can FAIL; the instruction handler that made it must
    # look at the fail flag before it steps to the next instruction (p += 1), or the failure is acted on one instruction
    # late — after an enclosing if-then-else has cut, inside \+, or after findall has copied a "solution"
    FRESH_ONLY = {
        "put_unsafe_value_instr": "binds a fresh heap cell to an unbound permanent variable of the current frame (the value is a variable: nothing to check)",
        "set_local_value_instr": "binds a fresh heap cell to an unbound stack variable (the value is a variable: nothing to check)",
    }
    n_oc = 0
    for p, it in sorted(F.items.items()):
        if it["file"] != "src/machine/dispatch.rs" or it["kind"] != "AssocFn" or not p.endswith("_instr"):
            continue
        ph = F.hir(p)
        nm = p.rsplit("::", 1)[-1]

        def rec(node, later_tests_fail):
            """walk blocks; `later_tests_fail`: some statement after the current one (in this or an enclosing block, before
            the function's final step) reads self.fail"""
            nonlocal n_oc
            if isinstance(node, list):
                for x in node:
                    rec(x, later_tests_fail)
                return
            if not isinstance(node, dict):
                return
            if node.get("k") == "Block":
                ss = list(node.get("stmts", [])) + ([node["expr"]] if "expr" in node else [])
                for i, s in enumerate(ss):
                    after = any(x["k"] == "Field" and x["name"] == "fail" for s2 in ss[i + 1:] for x in walk(s2) if not _is_assign_target(x, s2))
                    rec_stmt(s, later_tests_fail or after)
                return
            for k, v in node.items():
                if k != "mac" and isinstance(v, (dict, list)):
                    rec(v, later_tests_fail)

        def rec_stmt(s, tested_later):
            nonlocal n_oc
            if s.get("k") == "Block":
                rec(s, tested_later)
                return
            for x in walk_shallow_calls(s):
                r = x.get("resolved") or x.get("callee") or ""
                if re.search(r"OccursCheckImpl::(bind|unify)$", r):
                    n_oc += 1
                    if nm in FRESH_ONLY:
                        R.ob("C10:occurs-check-failure-acted-on:%s:exception" % nm, True, "listed: " + FRESH_ONLY[nm], F.where(p))
                    else:
                        R.ob("C10:occurs-check-failure-acted-on:%s@%d" % (nm, x["ln"] - it["line"]), tested_later,
                             "%s binds/unifies through the occurs-check unifier at line %s and never looks at the fail flag before stepping to the next instruction: with "
                             "occurs_check = true a failed check is acted on one instruction late (( p(A,A) -> yes ; no ) with p(X, f(X)) runs neither branch)" % (nm, x["ln"]), F.where(p))
            # descend into nested blocks with the same "tested later" knowledge
            for k, v in s.items():
                if k != "mac" and isinstance(v, (dict, list)):
                    rec(v, tested_later)

        rec(ph["body"], False)
    R.floor("occurs-check binds/unifications in instruction handlers", n_oc, 6)
    R.floor("instruction handlers using the raw binder", raw_binds(F, R), 3)
    R.floor("Str arms of tag dispatches", blind_structure_reads(F, R), 70)
    # ---- cells of different kinds never unify: the helper for arena constants may bind a variable, delegate to the
    # number helpers, or fail; it never decides success by looking inside the other cell (a stream used to "unify" with
    # its alias atom from one side only, without the two becoming identical)
    uc = [p for p, it in F.items.items() if it["file"] == "src/machine/unify.rs" and p.endswith("Unifier::unify_constant")]
    if len(uc) != 1:
        raise AnchorLost("Unifier::unify_constant (%d)" % len(uc))
    fails = [x for x in walk(F.hir(uc[0])["body"]) if x["k"] == "Assign" and x["lhs"].get("k") == "Field" and x["lhs"].get("name") == "fail"]
    cond = [x["ln"] for x in fails if not (x["rhs"].get("k") == "Lit" and x["rhs"].get("lit", {}).get("bool") is True)]
    if not fails:
        raise AnchorLost("unify_constant no longer assigns fail")
    R.ob("C10:unify_constant:a-constant-unifies-only-with-itself-or-a-variable", not cond,
         "unify_constant computes the fail flag from the contents of the two cells (lines %s): two non-variable cells of different kinds must not unify "
         "(current_output(S), user_output = S succeeded while S = user_output failed, and S == user_output was false after the success)" % cond, F.where(uc[0]))


def _is_assign_target(x, stmt):
    return stmt.get("k") == "Assign" and stmt.get("lhs") is x


def walk_shallow_calls(s):
    """calls in a statement that are not inside a nested Block (those are visited with their own block context)"""
    out = []

    def go(n):
        if isinstance(n, list):
            for y in n:
                go(y)
            return
        if not isinstance(n, dict):
            return
        if n.get("k") == "Block":
            return
        if n.get("k") in ("Call", "MethodCall"):
            out.append(n)
        for k, v in n.items():
            if k != "mac" and isinstance(v, (dict, list)):
                go(v)
    if s.get("k") == "Block":
        return out
    go(s)
    return out


RAW_BIND_OK = {
    "get_list_instr": "binds the argument variable to the list cell about to be built in write mode: its cells are fresh, they cannot contain the variable",
    "get_partial_string_instr": "binds the argument variable to the packed string about to be built: fresh cells",
    "get_structure_instr": "binds the argument variable to the structure about to be built in write mode: fresh cells",
}


def raw_binds(F, R, prefix="C10"):
    """Instruction handlers bind through the occurs-check unifier (occurs_check.bind); the raw binder MachineState::bind
    ignores the occurs_check flag. Raw binds are allowed only where the value is a structure that is about to be built."""
    n = 0
    for p, it in sorted(F.items.items()):
        if it["file"] != "src/machine/dispatch.rs" or it["kind"] != "AssocFn" or not p.endswith("_instr"):
            continue
        nm = p.rsplit("::", 1)[-1]
        lines = [x["ln"] for x in walk(F.hir(p)["body"]) if x["k"] in ("Call", "MethodCall") and re.search(r"MachineState>?::bind$", x.get("resolved") or x.get("callee") or "")]
        if not lines:
            continue
        n += 1
        R.ob("%s:raw-bind-in-instruction-handler:%s" % (prefix, nm), nm in RAW_BIND_OK,
             ("listed: " + RAW_BIND_OK[nm]) if nm in RAW_BIND_OK else
             "%s binds with MachineState::bind at line(s) %s: the raw binder performs no occurs check, so with occurs_check = true/error head unification through this "
             "instruction builds a cyclic term silently; bind through self.occurs_check.bind" % (nm, lines), F.where(p))
    return n


BLIND_STR_OK = {
    "Machine::fast_call": "the arity comes from the caller, which has already read the goal's functor (goal_arity)",
}


def blind_structure_reads(F, R, prefix="C10"):
    """A Str cell points at a functor cell followed by that functor's arguments. Code that, in the Str arm of a tag
    dispatch, reads heap[s + k] without ever reading the functor cell (name / arity) treats an arbitrary compound as the
    shape it expects — e.g. as a '.'/2 list cell: get_partial_string once unified "xy" in a clause head with g(x,[y])."""
    TAGP = "types::HeapCellValueTag::"
    n = 0
    for p, it in sorted(F.items.items()):
        if it["kind"] not in ("Fn", "AssocFn") or not it["file"].startswith("src/") or "::tests::" in p or it["file"].endswith("mock_wam.rs"):
            continue
        try:
            h = F.hir(p)
        except AnchorLost:
            continue
        for m in matches_in(h["body"], src=None):
            if m["scrut"].get("ty") != "types::HeapCellValueTag":
                continue
            for arm in m["arms"]:
                if not any((res_name(l) or "") == TAGP + "Str" for l in pat_leaves(arm["pat"])):
                    continue
                n += 1
                plus, plain = set(), set()
                for x in walk(arm["body"]):
                    if x["k"] == "Index" and any(y["k"] == "Field" and y["name"] == "heap" for y in walk(x["base"])):
                        i = x["idx"]
                        if i["k"] == "Binary" and i["op"] == "Add" and i["a"]["k"] == "Path":
                            plus.add(res_name(i["a"]))
                        elif i["k"] == "Path":
                            plain.add(res_name(i))
                blind = sorted(v for v in plus if v not in plain)
                reads_functor = any(x["k"] in ("Call", "MethodCall") and re.search(r"get_name_and_arity|get_arity|get_name$|name_and_arity_from_heap",
                                    (x.get("resolved") or x.get("callee") or x.get("name") or "")) for x in walk(arm["body"]))
                if blind and not reads_functor:
                    sp = short(p)
                    R.ob("%s:structure-arguments-read-after-functor:%s" % (prefix, sp), sp in BLIND_STR_OK,
                         ("listed: " + BLIND_STR_OK[sp]) if sp in BLIND_STR_OK else
                         "%s reads heap[%s + k] in the Str arm of a tag dispatch (line %s) without reading the functor cell heap[%s]: any compound term is accepted as the "
                         "structure this code expects (q(\"xy\"). ?- q(g(A,B)). succeeded with A = x, B = [y])" % (sp, blind[0], arm["ln"], blind[0]), F.where(p))
    return n
