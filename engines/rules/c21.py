"""C21 — Atom identity is text identity.

Decides: the inline/interned split is the same function of the text in the two places it is
computed (build script for atom!("..") literals, AtomTable::build_with at run time), with the
same length constant and the same bit encoding; raw atom values are fabricated only at the listed
decoding sites; interning looks the text up before allocating; ordering and the by-text hash go
through the text. Equal texts then give equal atoms and distinct texts distinct atoms (given the
interning table is a function, C32).
"""
import re

from .core import AnchorLost, CFG, Facts, callee_of, hir_calls, res_name, short, walk, mac_names
from . import core as _core

EXPLANATION = (
    "RF9 table agreement between the build-script crate (facts of build/static_string_indexing.rs, "
    "extracted by the same driver) and src/atom_table.rs: evaluated constants, normalised inline "
    "predicate, shift/mask literals of the index encoding; RF4 who-may-fabricate an Atom value; RF3 "
    "lookup-dominates-allocation in the MIR of AtomTable::build_with; RF4 textual Ord/Hash."
)
ASSUMPTIONS = ["IndexSet keyed by AtomHashByStr (hash and equivalence by text) holds one entry per text"]


def conj(e):
    if e["k"] == "Binary" and e["op"] == "And":
        return conj(e["a"]) + conj(e["b"])
    return [e]


def describe(e):
    k = e["k"]
    if k == "Unary" and e.get("op") == "Not":
        return "!" + describe(e["a"])
    if k == "MethodCall":
        args = ",".join(describe(a) for a in e["args"])
        return "%s(%s)" % (e["name"], args)
    if k == "Binary":
        return "%s %s %s" % (describe(e["a"]), e["op"], describe(e["b"]))
    if k == "Lit":
        return repr(next(iter(e["lit"].values())))
    if k == "Path":
        rn = res_name(e) or "?"
        return rn.rsplit("::", 1)[-1] if "::" in rn else "<local>"
    if k == "AddrOf":
        return describe(e["a"])
    return k


def first_if_cond(h):
    for n in walk(h["body"]):
        if n["k"] == "If":
            return n
    return None


def shift_literals(h):
    out = []
    for n in walk(h["body"]):
        if n["k"] == "Binary" and n["op"] in ("Shl", "Shr", "BitAnd", "BitOr") and n["b"]["k"] == "Lit" and "int" in n["b"]["lit"]:
            out.append((n["op"], n["b"]["lit"]["int"]))
    return sorted(out)


def run(ctx, R):
    F = ctx.facts()
    B = ctx.facts("default", "build_script_main")
    R.rule("RF9 build-script vs run-time agreement of the atom encoding; RF4 Atom fabrication sites; RF3 lookup before allocation; RF4 textual order")

    inline_accessor_has_a_fallback(F, R)

    # ---- R1: constants ---------------------------------------------------------------------------------
    cb = B.const("static_string_indexing::INLINED_ATOM_MAX_LEN")
    cr = F.const("atom_table::INLINED_ATOM_MAX_LEN")
    R.ob("C21:inline-length:build-script-equals-runtime", cb == cr, "build script inlines up to %d bytes, run time up to %d" % (cb, cr), "build/static_string_indexing.rs / src/atom_table.rs")
    R.ob("C21:inline-length:fits-the-cell", cr < 8 and cr <= 6, "an inlined atom shares a 64-bit cell with arity, tag and flag bits: at most 6 bytes (48-bit name field); constant is %d" % cr, "src/atom_table.rs")

    # ---- R2: inline predicate ----------------------------------------------------------------------------
    bs = B.find("static_string_indexing::static_string_index")
    bw = F.find_impl("AtomTable", None, "build_with")
    ib, ir = first_if_cond(B.hir(bs)), first_if_cond(F.hir(bw))
    if ib is None or ir is None:
        raise AnchorLost("inline predicate not found")
    pb = sorted(describe(c) for c in conj(ib["cond"]))
    pr = sorted(describe(c) for c in conj(ir["cond"]))
    ORACLE = sorted(["!is_empty()", "len() Le INLINED_ATOM_MAX_LEN", "!contains('\\x00')"])
    R.ob("C21:inline-predicate:build-script-equals-runtime", pb == pr, "build script: %s ; run time: %s" % (pb, pr), F.where(bw))
    R.ob("C21:inline-predicate:oracle", pr == ORACLE, "run-time predicate %s, oracle %s (non-empty, short enough, no NUL byte: NUL terminates the inline text)" % (pr, ORACLE), F.where(bw))
    inl_ret = any((x.get("resolved") or x.get("callee") or "").endswith("Atom::new_inlined") for x in walk(ir["then"]) if x["k"] == "Call")
    R.ob("C21:inline-predicate:returns-inlined-atom", inl_ret, "the true branch must return Atom::new_inlined(string) before touching the table", F.where(bw))

    # ---- R3: encoding literals ------------------------------------------------------------------------------
    enc = {
        "build:static_string_index": (shift_literals(B.hir(bs)), [("BitOr", "1"), ("Shl", "1"), ("Shl", "1")]),
        "AtomCell::get_name": (shift_literals(F.hir(F.find("atom_table::AtomCell::get_name"))), [("Shl", "1")]),
        "AtomCell::build_with": (shift_literals(F.hir(F.find("atom_table::AtomCell::build_with"))), [("BitAnd", "1"), ("Shr", "1")]),
        "Atom::flat_index": (shift_literals(F.hir(F.find("atom_table::Atom::flat_index"))), [("Shr", "1")]),
        "Atom::is_inlined": (shift_literals(F.hir(F.find("atom_table::Atom::is_inlined"))), [("BitAnd", "1")]),
    }
    for k, (got, want) in enc.items():
        R.ob("C21:index-encoding:%s" % k, got == sorted(want), "shift/mask literals %s (encoding: index = payload << 1 | inlined-bit; table: %s)" % (got, sorted(want)), "src/atom_table.rs")

    # new_char_inlined: NUL goes to the static atom
    nc = F.find("atom_table::AtomCell::new_char_inlined")
    nh = F.hir(nc)
    ok = False
    for n in walk(nh["body"]):
        if n["k"] == "If" and n["cond"]["k"] == "Binary" and n["cond"]["op"] == "Eq" and n["cond"]["b"]["k"] == "Lit" and n["cond"]["b"]["lit"].get("char") == "\x00":
            ok = any((x.get("resolved") or x.get("callee") or "").endswith("AtomCell::new_static") for x in walk(n["then"]) if x["k"] == "Call")
    R.ob("C21:char-atoms:NUL-is-not-inlined", ok, "the NUL character cannot be inlined (NUL terminates inline text); it must map to the static atom like build_with does", F.where(nc))
    its = F.find("atom_table::inlined_to_str")
    ih = F.hir(its)
    ok = any(x["k"] == "MethodCall" and x["name"] == "unwrap_or" and any((res_name(y) or "").endswith("INLINED_ATOM_MAX_LEN") for y in walk(x)) for x in walk(ih["body"])) and \
        any(x["k"] == "Binary" and x["op"] == "Eq" and x["b"]["k"] == "Lit" and x["b"]["lit"].get("int") == "0" for x in walk(ih["body"]))
    R.ob("C21:inlined_to_str:cuts-at-NUL-or-max", ok, "inline text ends at the first zero byte or at INLINED_ATOM_MAX_LEN", F.where(its))

    # ---- R4: who may fabricate an Atom ------------------------------------------------------------------------
    sites = {}
    n_macro = 0
    for p, it in sorted(F.items.items()):
        if not it["file"].startswith("src/") and "static_atoms" not in it["file"]:
            continue
        try:
            h = F.hir(p)
        except AnchorLost:
            continue
        for n in walk(h["body"]):
            if n["k"] == "Struct" and res_name(n) == "atom_table::Atom":
                if "atom" in mac_names(n):
                    n_macro += 1
                else:
                    sites[p] = sites.get(p, 0) + 1
    R.floor("atom! literals", n_macro, 500)
    ALLOWED = {"atom_table::AtomCell::get_name": "decodes an atom cell"}
    from_u64 = [p for p, it in F.items.items() if it["kind"] == "AssocFn" and it.get("self_ty") == "atom_table::Atom" and it.get("inputs") == ["u64"]
                and it.get("output") == "atom_table::Atom"]
    if not from_u64:
        raise AnchorLost("raw Atom constructor not found")
    for p in sites:
        if "static_atoms" in F.items[p]["file"]:
            ALLOWED[p] = "generated table of the atom!(..) literals (build script output)"
    for p in from_u64:
        ALLOWED[p] = "From<u64>: raw constructor; its callers are checked below"
    for p, n in sorted(sites.items()):
        R.ob("C21:atom-fabrication:%s" % short(p), p in ALLOWED, "%d struct literal(s) Atom{index: ..} outside atom!(..): %s" % (n, ALLOWED.get(p, "not on the table: an atom built from a raw number bypasses interning")), F.where(p))
    DECODERS = {
        "Machine::unwind_trail": "decodes the key atom stored in a blackboard trail entry",
        "StreamOptions::get_alias": "decodes the alias atom packed into the stream option bits by set_alias_to_atom_opt",
    }
    for fu in from_u64:
        callers = sorted({re.sub(r"(::\{closure#\d+\})+$", "", p) for p, cs in F.calls.items() for c in cs if (c.get("resolved") or c.get("callee")) == fu or (c.get("inst") or "").endswith("<atom_table::Atom as std::convert::From<u64>>::from")})
        for c in callers:
            R.ob("C21:atom-from-raw:%s" % short(c), short(c) in DECODERS,
                 "Atom::from(u64) called from %s: %s" % (short(c), DECODERS.get(short(c), "not a listed decoder of a previously encoded atom")), F.where(c) if c in F.items else c)

    # ---- R5: lookup before allocation (MIR) -----------------------------------------------------------------------
    mir = F.mir(bw)
    g = CFG(mir)
    dom = g.dominators()
    look = g.call_blocks(lambda t: callee_of(t).endswith("InnerAtomTable::lookup_str"))
    alloc = g.call_blocks(lambda t: re.search(r"RawBlock::<.*>::alloc$|RawBlock<T, C>::alloc$", callee_of(t)) is not None)
    if not look or not alloc:
        raise AnchorLost("build_with: lookup (%d) / alloc (%d) calls" % (len(look), len(alloc)))
    for a in alloc:
        R.ob("C21:intern:lookup-dominates-allocation", any(l in dom.get(a, ()) for l in look),
             "a new atom is allocated on a path that did not look the text up first: the same text could get a second atom", F.where(bw))
    # lookup consults the static map first, then the dynamic table, both by text
    ls = F.find("atom_table::InnerAtomTable::lookup_str")
    lh = F.hir(ls)
    names = [res_name(x) or "" for x in walk(lh["body"]) if x["k"] == "Path"]
    R.ob("C21:intern:lookup-covers-static-and-dynamic", any(n.endswith("STATIC_ATOMS_MAP") for n in names) and any(x["k"] == "Field" and x["name"] == "table" for x in walk(lh["body"])),
         "lookup_str must consult the generated static map and the dynamic table", F.where(ls))

    # ---- R6: by-text hash and order -------------------------------------------------------------------------------------
    hf = F.find_impl("AtomHashByStr", "std::hash::Hash", "hash")
    R.ob("C21:table-hash:by-text", any(r.endswith("Atom::as_str") for _, r, _ in hir_calls(F.hir(hf)["body"])), "the interning table must hash atoms by their text", F.where(hf))
    eqv = [p for p, it in F.items.items() if p.endswith("::equivalent") and "AtomHashByStr" in (it.get("trait_ref") or "")]
    if len(eqv) != 1:
        raise AnchorLost("Equivalent<AtomHashByStr> for str")
    R.ob("C21:table-eq:by-text", any(r.endswith("Atom::as_str") for _, r, _ in hir_calls(F.hir(eqv[0])["body"])), "table lookup must compare by text", F.where(eqv[0]))
    ac = F.find_impl("Atom", "std::cmp::Ord", "cmp")
    calls = [r for _, r, _ in hir_calls(F.hir(ac)["body"])]
    R.ob("C21:atom-order:textual", sum(1 for r in calls if r.endswith("Atom::as_str")) == 2 and not any(x["k"] == "Field" and x["name"] == "index" for x in walk(F.hir(ac)["body"])),
         "Ord for Atom must compare the two texts, never the indices", F.where(ac))


def inline_accessor_has_a_fallback(F, R):
    """Atom::inlined_str answers only for the atoms stored inline. A text observer built on it alone is a partial function
    of the text: the NUL character is the one single-character atom that is never inlined, so `as_char` through
    `inlined_str()?` answers None for it while every other observer still sees its text. Every caller of inlined_str
    also reaches the static table or the shared table (is_static / as_ptr / STRINGS) for the atoms stored there."""
    tgt = [p for p in F.items if p.endswith("atom_table::Atom::inlined_str")]
    if len(tgt) != 1:
        raise AnchorLost("Atom::inlined_str (%d)" % len(tgt))
    n = 0
    for p, cs in sorted(F.calls.items()):
        if not any((c.get("resolved") or c.get("callee")) == tgt[0] for c in cs):
            continue
        top = re.sub(r"(::\{closure#\d+\})+$", "", p)
        if top not in F.items:
            continue
        n += 1
        body = F.hir(top)["body"]
        other = any((x["k"] == "MethodCall" and x["name"] in ("is_static", "as_ptr")) or (x["k"] == "Path" and (x.get("res", {}).get("def") or "").endswith("STRINGS")) for x in walk(body))
        R.ob("C21:inline-accessor:%s:other-representations-handled" % short(top), other,
             "%s reads the atom's text through Atom::inlined_str and has no branch for atoms stored in the static or the shared table: it is a partial function of the text "
             "(the NUL character atom is never inlined)" % short(top), F.where(top))
    R.floor("callers of Atom::inlined_str", n, 2)

