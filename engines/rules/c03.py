"""C03 — Arithmetic does not depend on how the expression reaches is/2.

Decides: the compiled evaluator and the run-time tree walker are the same function of their
operands, functor by functor (finite table agreement, RF1/RF9).
  T1  ArithmeticEvaluator::get_{unary,binary}_instr : atom/arity -> Instruction variant
  T2  Machine::dispatch_loop                         : Instruction variant -> MachineState::*_instr
  T3  each *_instr                                   : -> core implementation callees
  T4  MachineState::arith_eval_by_metacall           : atom/arity -> core implementation callees
Obligation per functor f/n:  core(T3(T2(T1(f/n)))) == core(T4(f/n)), key sets equal both ways,
constants pi/e/epsilon agree between push_literal and the arity-0 arm, and constant arguments
that reach the implementations agree.
"""
import re

from .core import AnchorLost, atom_of, hir_calls, matches_in, pat_leaves, res_name, short, walk

EXPLANATION = (
    "Finite table agreement between the two arithmetic evaluators, extracted from the typed HIR "
    "of /repo: per evaluable functor both evaluators must reach the same implementation "
    "functions with the same constant arguments; key sets must coincide. Decides the "
    "'same function of the operands' clause completely; correctness of the shared "
    "implementations is not decided here (C01/C02)."
)
ASSUMPTIONS = [
    "operand fetch is shared: MachineState::get_number falls back to arith_eval_by_metacall (checked)",
    "wrappers try_numeric_result!/drop_iter_on_err!/try_or_throw_gen!/arena_alloc! do not change values",
]

# implementation functions = free functions of these modules (resolved def paths)
CORE_RX = re.compile(r"^(machine::arithmetic_ops|arithmetic)::[a-z_0-9]+$")
# transparent helpers: operand coercion / error constructors shared by both sides
TRANSPARENT = {
    "machine::arithmetic_ops::rational_from_number": "operand coercion; the compiled side reaches it through MachineState::get_rational",
    "machine::arithmetic_ops::numerical_type_error": "error constructor",
    "machine::arithmetic_ops::undefined_eval_error": "error constructor",
    "machine::arithmetic_ops::zero_divisor_eval_error": "error constructor",
}
NUMBER_METHODS_RX = re.compile(r"forms::<impl forms::Number>::[a-z_]+$|<impl .* for forms::Number>::")


def core_callees(F, node, depth=1):
    """Resolved implementation callees below an HIR node. MachineState::get_rational is followed
    one level (it is the compiled side's spelling of rational_from_number)."""
    out = set()
    for callee, res, n in hir_calls(node):
        if res in TRANSPARENT:
            continue
        if CORE_RX.match(res):
            out.add(res)
        elif re.search(r"forms::<impl forms::Number>::(sign|abs|neg)$", res):
            out.add(res)
    return out


def const_args(node):
    """Constant (atom!/literal/bool) arguments passed to core implementation calls."""
    out = set()
    for callee, res, n in hir_calls(node):
        if not CORE_RX.match(res) or res in TRANSPARENT:
            continue
        for i, a in enumerate(n.get("args", [])):
            at = None
            for sub in walk(a):
                at = atom_of(sub)
                if at is not None:
                    break
            if at is not None:
                out.add((res, i, "atom:" + at))
            elif a["k"] == "Lit":
                out.add((res, i, "lit:" + str(a["lit"])))
    return out


def context_only_param(F, fn, idx):
    """True iff parameter #idx of fn is used only as an argument of functor_stub(..), i.e. it
    can only influence the context part of an error term, never its formal or a value."""
    h = F.hir(fn)
    if idx >= len(h["params"]) or h["params"][idx]["k"] != "PBind":
        return False
    name = h["params"][idx]["name"]
    total = 0
    ctx_uses = 0
    for n in walk(h["body"]):
        if n["k"] == "Path" and res_name(n) == name:
            total += 1
        if n["k"] == "Call" and (n.get("resolved") or n.get("callee", "")).endswith("machine_errors::functor_stub"):
            for a in n.get("args", []):
                if a["k"] == "Path" and res_name(a) == name:
                    ctx_uses += 1
    return total > 0 and total == ctx_uses


def atom_match_tables(fn_hir):
    """All Match nodes of a function whose arms are keyed by atom!(..) patterns:
    list of (match_node, {atom: arm})."""
    out = []
    for m in matches_in(fn_hir["body"], src=None):
        tbl = {}
        for arm in m["arms"]:
            for leaf in pat_leaves(arm["pat"]):
                a = atom_of(leaf)
                if a is not None:
                    tbl[a] = arm
        if tbl:
            out.append((m, tbl))
    return out


def ctor_of(node, prefix):
    for n in walk(node):
        if n["k"] == "Call" and n.get("ctor", "").startswith(prefix):
            return n["ctor"][len(prefix):]
    return None


def run(ctx, R):
    F = ctx.facts()
    R.rule("RF1 sibling agreement of evaluator dispatch tables (T1∘T2∘T3 vs T4), RF9 constant agreement")

    # ---- T1 -----------------------------------------------------------------------------
    t1 = {}
    for name, arity in (("get_unary_instr", 1), ("get_binary_instr", 2)):
        p = F.find("ArithmeticEvaluator::<'a>::" + name)
        tabs = atom_match_tables(F.hir(p))
        if len(tabs) != 1:
            raise AnchorLost("%s: expected one atom-keyed match, found %d" % (name, len(tabs)))
        for atom, arm in tabs[0][1].items():
            v = ctor_of(arm["body"], "instructions::Instruction::")
            if v is None:
                R.ob("C03:T1:%s/%d:no-instruction" % (atom, arity), False,
                     "arm does not build an Instruction", F.where(p))
                continue
            t1[(atom, arity)] = v
    R.floor("T1 functors", len(t1), 41)

    # ---- T2 -----------------------------------------------------------------------------
    dl = F.find("<impl machine::Machine>::dispatch_loop")
    t2 = {}
    wanted = set(t1.values())
    for m in matches_in(F.hir(dl)["body"], src=None):
        for arm in m["arms"]:
            for leaf in pat_leaves(arm["pat"]):
                pv = leaf
                while pv["k"] == "PRef":
                    pv = pv["sub"]
                rn = res_name(pv) or ""
                if rn.startswith("instructions::Instruction::"):
                    v = rn[len("instructions::Instruction::"):]
                    if v in wanted:
                        t2.setdefault(v, []).append(arm)
    # ---- T3 -----------------------------------------------------------------------------
    def compiled_core(variant):
        arms = t2.get(variant)
        if not arms:
            return None, None, None
        cs, ks, fns = set(), set(), []
        for arm in arms:
            for callee, res, n in hir_calls(arm["body"]):
                if re.search(r"<impl machine::machine_state::MachineState>::[a-z_0-9]+_instr$", res):
                    fns.append(res)
                    h = F.hir(res)
                    cs |= core_callees(F, h["body"])
                    ks |= const_args(h["body"])
                    # follow get_rational one level
                    for c2, r2, n2 in hir_calls(h["body"]):
                        if r2.endswith("MachineState>::get_rational"):
                            pass
            cs |= core_callees(F, arm["body"])
        return cs, ks, fns

    # ---- T4 -----------------------------------------------------------------------------
    mc = F.find("<impl machine::machine_state::MachineState>::arith_eval_by_metacall")
    t4 = {}
    mh = F.hir(mc)
    tabs = atom_match_tables(mh)
    # arity of each table: from the enclosing `if arity == N`
    def find_arity_tables(node, cur):
        if isinstance(node, dict):
            if node.get("k") == "If":
                c = node["cond"]
                ar = None
                if c["k"] == "Binary" and c.get("op") == "Eq":
                    a, b = c["a"], c["b"]
                    if a["k"] == "Path" and res_name(a) == "arity" and b["k"] == "Lit":
                        ar = int(b["lit"]["int"])
                find_arity_tables(node["cond"], cur)
                find_arity_tables(node["then"], ar if ar is not None else cur)
                if "else" in node:
                    find_arity_tables(node["else"], cur)
                return
            if node.get("k") == "Match":
                tbl = {}
                for arm in node["arms"]:
                    for leaf in pat_leaves(arm["pat"]):
                        a = atom_of(leaf)
                        if a is not None:
                            tbl[a] = arm
                if tbl and cur is not None:
                    for a, arm in tbl.items():
                        t4[(a, cur)] = arm
            for v in node.values():
                if isinstance(v, (dict, list)):
                    find_arity_tables(v, cur)
        elif isinstance(node, list):
            for v in node:
                find_arity_tables(v, cur)

    find_arity_tables(mh["body"], None)
    t4_funcs = {k: v for k, v in t4.items() if k[1] in (1, 2)}
    t4_consts = {k[0]: v for k, v in t4.items() if k[1] == 0}
    R.floor("T4 functors", len(t4_funcs), 41)

    # ---- agreement ----------------------------------------------------------------------
    for key in sorted(set(t1) | set(t4_funcs)):
        atom, ar = key
        kk = "C03:functor:%s/%d" % (atom, ar)
        if key not in t1:
            R.ob(kk + ":only-runtime", False, "evaluable in arith_eval_by_metacall but not compiled", F.where(mc))
            continue
        if key not in t4_funcs:
            R.ob(kk + ":only-compiled", False, "compiled by get_*_instr but unknown to arith_eval_by_metacall", F.where(mc))
            continue
        variant = t1[key]
        cs, ks, fns = compiled_core(variant)
        if cs is None:
            R.ob(kk + ":no-dispatch-arm", False, "Instruction::%s has no arm in dispatch_loop" % variant, F.where(dl))
            continue
        arm = t4_funcs[key]
        rs = core_callees(F, arm["body"])
        rk = const_args(arm["body"])
        ok = cs == rs
        R.ob(kk + ":same-implementation", ok,
             "compiled(%s via %s) -> %s ; runtime -> %s" % (variant, [short(f) for f in fns], sorted(short(c) for c in cs), sorted(short(c) for c in rs)),
             "%s / %s:%s" % (F.where(mc), F.items[mc]["file"], arm["ln"]))
        # constant arguments: compare per (callee, argument index)
        ck = {(c, i): v for c, i, v in ks}
        rkd = {(c, i): v for c, i, v in rk}
        for ci in sorted(set(ck) | set(rkd)):
            okc = ck.get(ci) == rkd.get(ci)
            if not okc and context_only_param(F, ci[0], ci[1]):
                # the argument only names the culprit in the error *context* (second
                # argument of error/2); the property speaks about the formal term.
                R.ob(kk + ":context-only-arg:%s#%d" % (short(ci[0]), ci[1]), True,
                     "differs (%s vs %s) but the parameter flows only into functor_stub(..)" % (ck.get(ci), rkd.get(ci)), F.where(ci[0]))
                continue
            R.ob(kk + ":const-arg:%s#%d" % (short(ci[0]), ci[1]), okc,
                 "compiled passes %s, runtime passes %s" % (ck.get(ci), rkd.get(ci)), F.where(mc))
        R.sample({"functor": "%s/%d" % key, "instruction": variant,
                  "compiled": sorted(short(c) for c in cs), "runtime": sorted(short(c) for c in rs), "agree": ok})

    # ---- constants pi / e / epsilon -----------------------------------------------------
    pl = F.find("arithmetic::push_literal")
    plh = F.hir(pl)
    lit_consts = {}
    for m in matches_in(plh["body"], src=None):
        for arm in m["arms"]:
            g = arm.get("guard")
            if not g:
                continue
            at = None
            for sub in walk(g):
                at = atom_of(sub)
                if at:
                    break
            if at:
                vals = sorted(res_name(n) for n in walk(arm["body"]) if n["k"] == "Path" and (res_name(n) or "").startswith(("std::f64", "core::f64")))
                lit_consts[at] = vals
    rt_consts = {}
    for at, arm in t4_consts.items():
        rt_consts[at] = sorted(res_name(n) for n in walk(arm["body"]) if n["k"] == "Path" and (res_name(n) or "").startswith(("std::f64", "core::f64")))
    R.floor("constant atoms", len(lit_consts), 3)
    for at in sorted(set(lit_consts) | set(rt_consts)):
        R.ob("C03:constant:%s" % at, lit_consts.get(at) == rt_consts.get(at) and lit_consts.get(at),
             "push_literal -> %s ; metacall -> %s" % (lit_consts.get(at), rt_consts.get(at)), F.where(pl))

    # ---- number leaves: both evaluators accept every numeric representation ---------------------
    # compile time: push_literal over parser::ast::Literal; run time: the cell dispatch of the tree walker
    lit_kinds = set()
    for m in matches_in(plh["body"], src=None):
        for arm in m["arms"]:
            for leaf in pat_leaves(arm["pat"]):
                lf = leaf
                while lf["k"] == "PRef":
                    lf = lf["sub"]
                rn = res_name(lf) or ""
                if rn.startswith("parser::ast::Literal::") and any((x.get("ctor") or "").startswith("forms::Number::") for x in walk(arm["body"])):
                    lit_kinds.add(rn.rsplit("::", 1)[1])
    need_lit = {"Fixnum", "Integer", "Rational", "F64"}
    R.ob("C03:number-leaves:compiled", need_lit <= lit_kinds,
         "push_literal turns Literal::%s into numbers; all of %s are needed, otherwise an expression compiled with such a leaf (e.g. a clause asserted "
         "with a bound rational inside) raises type_error(evaluable, ..) while the same expression evaluated at run time succeeds" % (sorted(lit_kinds), sorted(need_lit)), F.where(pl))
    rt_tags, rt_arena = set(), set()
    for m in matches_in(mh["body"], src=None):
        for arm in m["arms"]:
            pushes_number = any((x.get("ctor") or "").startswith("forms::Number::") for x in walk(arm["body"]))
            for leaf in pat_leaves(arm["pat"]):
                rn = res_name(leaf) or ""
                if rn.startswith("types::HeapCellValueTag::") and pushes_number:
                    rt_tags.add(rn.rsplit("::", 1)[1])
                for x in walk(leaf):
                    rr = res_name(x) or ""
                    if "ArenaHeaderTag::" in rr and pushes_number:
                        rt_arena.add(rr.rsplit("::", 1)[1])
    R.ob("C03:number-leaves:runtime", {"Fixnum", "F64Offset", "Cons"} <= rt_tags and {"Integer", "Rational"} <= rt_arena,
         "arith_eval_by_metacall reads number cells tagged %s / arena kinds %s; Fixnum, F64Offset and Cons{Integer,Rational} are all needed" % (sorted(rt_tags), sorted(rt_arena)), F.where(mc))

    # ---- shared operand fetch -----------------------------------------------------------
    gn = F.find("<impl machine::machine_state::MachineState>::get_number")
    gnc = set(r for _, r, _ in hir_calls(F.hir(gn)["body"]))
    R.ob("C03:get_number:falls-back-to-metacall", mc in gnc,
         "get_number must evaluate non-number operands through arith_eval_by_metacall", F.where(gn))
    # every *_instr obtains its operands through get_number / get_rational only
    n_instr = 0
    for variant in sorted(set(t1.values())):
        _, _, fns = compiled_core(variant)
        for fn in fns or []:
            n_instr += 1
            cal = set(r for _, r, _ in hir_calls(F.hir(fn)["body"]))
            fetch = {c for c in cal if c.endswith(("MachineState>::get_number", "MachineState>::get_rational"))}
            other_fetch = {c for c in cal if re.search(r"Number as std::convert::TryFrom|arith_eval_by_metacall", c)}
            R.ob("C03:operand-fetch:%s" % short(fn), bool(fetch) and not other_fetch,
                 "fetch via %s, other %s" % (sorted(short(c) for c in fetch), sorted(other_fetch)), F.where(fn))
    R.floor("*_instr functions", n_instr, 41)
    is_always_evaluates(F, R)


def is_always_evaluates(F, R):
    """T is E written in a clause body: whatever T is, E is evaluated (and its errors raised) before the goal can fail,
    as it is when the goal is built at run time and reaches is/2 through call/N. The compiler specialises is/2 on the shape
    of T; every branch of that specialisation must compile the expression."""
    fn = [p for p in F.items if p.endswith("::compile_is_call") and F.items[p]["file"] == "src/codegen.rs"]
    if len(fn) != 1:
        raise AnchorLost("CodeGenerator::compile_is_call (%d)" % len(fn))
    body = F.hir(fn[0])["body"]
    ms = [m for m in matches_in(body, src=None) if m["scrut"].get("k") == "Index" or any(x.get("k") == "Index" for x in walk(m["scrut"]))]
    ms = [m for m in ms if len(m["arms"]) >= 3]
    if len(ms) != 1:
        raise AnchorLost("compile_is_call: the match on the left-hand side term (%d)" % len(ms))
    n = 0
    for i, arm in enumerate(ms[0]["arms"]):
        n += 1
        evaluates = any(r.endswith("::compile_arith_expr") for _, r, _ in hir_calls(arm["body"]))
        leaves = sorted({(res_name(l) or "").rsplit("::", 1)[-1] for l in walk(arm["pat"]) if isinstance(l, dict) and (res_name(l) or "").startswith("parser::ast::Term::")}) or ["_"]
        R.ob("C03:is-compiled:left-side-%s:right-side-is-evaluated" % "|".join(leaves), evaluates,
             "compile_is_call's arm for a left-hand side of shape %s (line %s) does not compile the right-hand side: `a is foo+1` in a clause body fails silently while "
             "call((a is foo+1)) raises type_error(evaluable, foo/0); `f(x) is 1/0` fails instead of raising zero_divisor" % (leaves, arm["ln"]), F.where(fn[0]))
    R.floor("shapes of the left-hand side of a compiled is/2", n, 3)
