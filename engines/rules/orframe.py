"""RF2 effect-summary table for choice-point frames (shared by C07, C11 and C28): the functions
that create an or-frame must initialise every prelude field and save the argument registers; the
functions that resume from one must restore the machine registers the table lists, unwind the
trail over [saved tr, current tr), and cut heap / trail (and, when the frame is popped, the
stack) back to the saved marks."""
import re

from .core import AnchorLost, hir_calls, res_name, walk

WRITERS = ["try_me_else", "indexed_try", "allocate_stub_choice_point"]
# restorer -> (pops the frame?, unwinds trail itself?)
RESTORERS = {
    "retry_me_else": (False, True),
    "retry": (False, True),
    "trust": (True, True),          # through trust_epilogue
    "trust_me": (True, True),       # through trust_me_epilogue
    "trust_epilogue": (True, False),
    "trust_me_epilogue": (True, False),
}
KEEP_FIELDS = ["e", "cp", "tr", "num_of_args", "hb"]          # machine_st fields every resumption sets
POP_FIELDS = ["b"]


def field_chain(e):
    out = []
    while e["k"] in ("Field", "Index", "MethodCall", "AddrOf", "Unary"):
        if e["k"] == "Field":
            out.append(e["name"])
            e = e["base"]
        elif e["k"] == "Index":
            out.append("[]")
            e = e["base"]
        elif e["k"] == "MethodCall":
            out.append(e["name"] + "()")
            e = e["recv"]
        else:
            e = e["a"]
    if e["k"] == "Path":
        out.append(res_name(e) or "?")
    return list(reversed(out))


def assigned_fields(body):
    """Set of (owner, field) assigned in body: owner 'prelude' for or_frame.prelude.X, 'st' for
    self.machine_st.X."""
    out = set()
    for n in walk(body):
        if n["k"] in ("Assign", "AssignOp"):
            ch = field_chain(n["lhs"])
            if len(ch) >= 2 and ch[-2] == "prelude":
                out.add(("prelude", ch[-1]))
            elif len(ch) >= 2 and ch[-2] == "machine_st":
                out.add(("st", ch[-1]))
            elif "machine_st" in ch and ch[-1] == "[]" and "registers" in ch:
                out.add(("st", "registers[]"))
            elif ch and ch[-1] == "[]" and len(ch) == 2:
                out.add(("frame", "[]"))
    return out


def calls_named(body, rx):
    return [n for _, r, n in hir_calls(body) if re.search(rx, r)]


def prelude_fields(F):
    st = [s for s in F.types["structs"] if s["path"].endswith("stack::OrFramePrelude")]
    if len(st) != 1:
        raise AnchorLost("OrFramePrelude struct")
    return [f[0] for f in st[0]["fields"]]


def resolve(e, body, depth=0):
    """field chain of an expression with `let`-bound locals replaced by their initialiser's chain"""
    ch = field_chain(e)
    if len(ch) == 1 and e["k"] == "Path" and depth < 4:
        nm = ch[0]
        for x in walk(body):
            if x["k"] == "Let" and x["pat"]["k"] == "PBind" and x["pat"]["name"] == nm and "init" in x:
                return resolve(x["init"], body, depth + 1)
    return ch


# where each saved value comes from (writers that save machine state; the stub writes constants)
WRITER_SOURCES = {
    "num_cells": ["machine_st", "num_of_args"],
    "e": ["machine_st", "e"],
    "cp": ["machine_st", "cp"],
    "b": ["machine_st", "b"],
    "tr": ["machine_st", "tr"],
    "b0": ["machine_st", "b0"],
    "h": ["heap", "cell_len()"],
    "attr_var_queue_len": ["attr_var_queue", "len()"],
}
# machine register <- saved field, for every resumption
RESTORE_SOURCES = {
    "num_of_args": "num_cells",
    "e": "e",
    "cp": "cp",
    "tr": "tr",
    "hb": "h",
}


def check_sources(F, R, prefix):
    """The values saved are the machine's current ones, and each register is restored from the field it was saved in."""
    n = 0
    for w in ("try_me_else", "indexed_try"):
        fn = F.find_impl("Machine", None, w)
        body = F.hir(fn)["body"]
        seen = {}
        for x in walk(body):
            if x["k"] == "Assign":
                ch = field_chain(x["lhs"])
                if len(ch) >= 2 and ch[-2] == "prelude":
                    seen.setdefault(ch[-1], []).append(resolve(x["rhs"], body))
        for f, want in WRITER_SOURCES.items():
            got = seen.get(f, [])
            n += 1
            R.ob("%s:orframe-writer:%s:saves:%s<-%s" % (prefix, w, f, ".".join(want)), len(got) == 1 and got[0][-len(want):] == want,
                 "%s must save OrFramePrelude.%s from %s; found %s" % (w, f, ".".join(want), [".".join(g) for g in got]), F.where(fn))
        for f in ("bp", "boip", "biip"):
            got = seen.get(f, [])
            n += 1
            R.ob("%s:orframe-writer:%s:saves:%s" % (prefix, w, f), len(got) == 1, "%s assigns OrFramePrelude.%s exactly once" % (w, f), F.where(fn))
        # the alternative to resume at is computed from the current instruction pointer
        bp = [x for x in walk(body) if x["k"] == "Assign" and field_chain(x["lhs"])[-2:] == ["prelude", "bp"]]
        n += 1
        R.ob("%s:orframe-writer:%s:bp-from-p" % (prefix, w), len(bp) == 1 and any(y["k"] == "Field" and y["name"] == "p" for y in walk(bp[0]["rhs"])),
             "%s must compute the retry address from machine_st.p" % w, F.where(fn))
    for r, (pops, unwinds) in RESTORERS.items():
        if r in ("trust", "trust_me"):
            continue
        fn = F.find_impl("Machine", None, r)
        body = F.hir(fn)["body"]
        seen = {}
        for x in walk(body):
            if x["k"] == "Assign":
                ch = field_chain(x["lhs"])
                if len(ch) >= 2 and ch[-2] == "machine_st":
                    seen.setdefault(ch[-1], []).append(resolve(x["rhs"], body))
        table = dict(RESTORE_SOURCES)
        if pops:
            table["b"] = "b"
        for reg, fld in table.items():
            got = seen.get(reg, [])
            n += 1
            R.ob("%s:orframe-restorer:%s:%s<-prelude.%s" % (prefix, r, reg, fld), bool(got) and all(g[-2:] == ["prelude", fld] for g in got),
                 "%s must restore machine_st.%s from OrFramePrelude.%s; found %s" % (r, reg, fld, [".".join(g) for g in got]), F.where(fn))
        # cut marks
        for c in walk(body):
            if c["k"] == "MethodCall" and c["name"] == "truncate" and c.get("args"):
                tgt = (field_chain(c["recv"]) or ["?"])[-1]
                arg = resolve(c["args"][0], body)
                want = {"heap": [["prelude", "h"]], "trail": [["machine_st", "tr"], ["prelude", "tr"]], "stack": [["machine_st", "b"]]}.get(tgt)
                if want is None:
                    continue
                n += 1
                R.ob("%s:orframe-restorer:%s:truncate-%s-mark" % (prefix, r, tgt), any(arg[-2:] == w for w in want),
                     "%s cuts the %s back to %s; expected %s" % (r, tgt, ".".join(arg), " or ".join(".".join(w) for w in want)), F.where(fn))
        rs = calls_named(body, r"reset_attr_var_state$")
        if rs:
            arg = resolve(rs[0]["args"][0], body) if rs[0].get("args") else []
            n += 1
            R.ob("%s:orframe-restorer:%s:attr-var-queue-mark" % (prefix, r), arg[-2:] == ["prelude", "attr_var_queue_len"],
                 "%s must reset the attributed-variable queue to OrFramePrelude.attr_var_queue_len; found %s" % (r, ".".join(arg)), F.where(fn))
    return n


def inner_index_advance(F, R, prefix):
    """`next_inner_applicable_clause` counts its offset from the entry being executed, machine_st.iip. For a static
    choice sequence that is the saved biip, but a dynamic one skips dead clauses first (find_living_dynamic moves iip
    past them), so the saved index of the next alternative is iip + offset in BOTH writers, never biip += offset."""
    n = 0
    for w in ("indexed_try", "retry"):
        fn = F.find_impl("Machine", None, w)
        body = F.hir(fn)["body"]
        wr = [x for x in walk(body) if x["k"] in ("Assign", "AssignOp") and field_chain(x["lhs"])[-2:] == ["prelude", "biip"]]
        if not wr:
            raise AnchorLost("%s: no write of OrFramePrelude.biip" % w)
        for i, x in enumerate(wr):
            from_iip = x["k"] == "Assign" and any(y["k"] == "Field" and y["name"] == "iip" and field_chain(y)[-2:] == ["machine_st", "iip"] for y in walk(x["rhs"]))
            n += 1
            R.ob("%s:orframe-writer:%s:next-inner-index-counts-from-the-entry-executed#%d" % (prefix, w, i), from_iip,
                 "%s %s OrFramePrelude.biip (line %s): the offset of the next applicable entry is relative to machine_st.iip, which a dynamic choice sequence has moved past "
                 "dead clauses; advancing the saved index by it re-runs the clause just executed (assertz a,b,c,d under one key; retract b; the call answers a,c,c,d)"
                 % (w, "adds the offset to" if x["k"] == "AssignOp" else "does not compute from machine_st.iip the value of", x["ln"]), F.where(fn))
    return n


def check(F, R, prefix):
    fields = prelude_fields(F)
    R.notes.append("OrFramePrelude fields: %s" % fields)
    n = check_sources(F, R, prefix)
    n += inner_index_advance(F, R, prefix)
    for w in WRITERS:
        fn = F.find_impl("Machine", None, w)
        h = F.hir(fn)
        af = assigned_fields(h["body"])
        for f in fields:
            n += 1
            R.ob("%s:orframe-writer:%s:sets:%s" % (prefix, w, f), ("prelude", f) in af,
                 "%s must initialise OrFramePrelude.%s (a stale value is what a later retry/trust restores from)" % (w, f), F.where(fn))
        if w != "allocate_stub_choice_point":
            n += 1
            R.ob("%s:orframe-writer:%s:saves-registers" % (prefix, w), ("frame", "[]") in af,
                 "%s must copy registers[1..=n] into the frame" % w, F.where(fn))
            n += 1
            R.ob("%s:orframe-writer:%s:sets-hb" % (prefix, w), ("st", "hb") in af and ("st", "b") in af,
                 "%s must set b to the new frame and hb to the heap top" % w, F.where(fn))
    for r, (pops, unwinds) in RESTORERS.items():
        fn = F.find_impl("Machine", None, r)
        h = F.hir(fn)
        af = assigned_fields(h["body"])
        # direct delegation to an epilogue is accepted for the state restoration part
        deleg = [c for c in calls_named(h["body"], r"Machine>?::(trust_epilogue|trust_me_epilogue)$")]
        if unwinds:
            uw = calls_named(h["body"], r"Machine>?::unwind_trail$")
            ok = len(uw) == 1
            order = None
            if ok:
                a = uw[0]["args"]
                # first argument from the frame's saved tr, second from machine_st.tr
                def src(e):
                    if e["k"] == "Path":
                        nm = res_name(e)
                        for x in walk(h["body"]):
                            if x["k"] == "Let" and x["pat"]["k"] == "PBind" and x["pat"]["name"] == nm and "init" in x:
                                return field_chain(x["init"])
                    return field_chain(e)
                s0, s1 = src(a[0]), src(a[1])
                order = (s0[-2:] if len(s0) >= 2 else s0, s1[-2:] if len(s1) >= 2 else s1)
                ok = len(s0) >= 2 and s0[-2:] == ["prelude", "tr"] and len(s1) >= 2 and s1[-2:] == ["machine_st", "tr"]
            n += 1
            R.ob("%s:orframe-restorer:%s:unwinds-trail" % (prefix, r), ok,
                 "%s must call unwind_trail(frame.tr, machine_st.tr) exactly once (found %d call(s), arguments %s)" % (r, len(uw), order), F.where(fn))
            n += 1
            R.ob("%s:orframe-restorer:%s:restores-registers" % (prefix, r), ("st", "registers[]") in af,
                 "%s must copy the saved argument registers back" % r, F.where(fn))
        if r in ("trust", "trust_me"):
            n += 1
            R.ob("%s:orframe-restorer:%s:delegates-to-epilogue" % (prefix, r), len(deleg) == 1, "%s finishes through its epilogue" % r, F.where(fn))
            continue
        for f in KEEP_FIELDS + (POP_FIELDS if pops else []):
            n += 1
            R.ob("%s:orframe-restorer:%s:restores:%s" % (prefix, r, f), ("st", f) in af,
                 "%s must restore machine_st.%s from the choice point" % (r, f), F.where(fn))
        cuts = {c["name"] + ":" + (field_chain(c["recv"])[-1] if field_chain(c["recv"]) else "?") for c in walk(h["body"]) if c["k"] == "MethodCall" and c["name"] == "truncate"}
        need = {"truncate:heap", "truncate:trail"} | ({"truncate:stack"} if pops else set())
        n += 1
        R.ob("%s:orframe-restorer:%s:truncates" % (prefix, r), need <= cuts,
             "%s must cut back %s; found %s" % (r, sorted(need), sorted(cuts)), F.where(fn))
        n += 1
        R.ob("%s:orframe-restorer:%s:resets-attr-var-state" % (prefix, r), bool(calls_named(h["body"], r"reset_attr_var_state$")),
             "%s must reset the attributed-variable queue to its saved length" % r, F.where(fn))
        if not pops:
            n += 1
            R.ob("%s:orframe-restorer:%s:keeps-frame" % (prefix, r), "truncate:stack" not in cuts and ("st", "b") not in af,
                 "%s must leave the choice point in place" % r, F.where(fn))
    return n
