"""C55 — writeq and print quote and space exactly as ISO requires (class agreement).

Decides agreement between the printer's "may this atom be written without quotes" decision and
the lexer's name-token rules: same character classes for the first character and for the
continuation (letter-digit tokens, graphic tokens, solo ! and ;), the two special graphic starts
('/' must be quoted when followed by '*', a lone '.' must be quoted) and nothing else, the extra
unquoted atoms [] and {}, and the list of solo characters that always need quotes. These are the
"only adds quotes" errors a print/read round trip cannot see. Spacing and operator printing are
not decided.
"""
import re

from .core import AnchorLost, mac_names, matches_in, pat_leaves, res_name, short, walk

EXPLANATION = (
    "RF1/RF9 sibling agreement over typed HIR: the character-class macros (recovered from macro "
    "expansion origins) used by heap_print::non_quoted_token / non_quoted_graphic_token are compared, "
    "branch by branch, with those used by Lexer::name_token; the special-case tables are compared with "
    "an oracle copied from the property statement."
)
ASSUMPTIONS = ["the character-class macros themselves (parser/macros.rs) classify characters as ISO does"]

CLASS_RX = re.compile(r"_char$")


def classes(node):
    out = set()
    # class macros nest (alpha_numeric_char! uses alpha_char! uses char_class! ...): only the outermost
    # expansion root counts — the class written in the source; do not descend into it (deep chains are
    # truncated by the fact extractor).
    stack = [node]
    while stack:
        n = stack.pop()
        if isinstance(n, dict):
            cs = [m for m in mac_names(n) if CLASS_RX.search(m)] if "k" in n else []
            if cs:
                out.add(cs[-1])
                continue
            stack.extend(v for v in n.values() if isinstance(v, (dict, list)))
        elif isinstance(n, list):
            stack.extend(n)
    return out


def if_chain(body):
    """[(cond node, then node)] of the top-level if / else-if chain of a function body."""
    e = body
    while e["k"] == "Block":
        if e["stmts"] and e["stmts"][0]["k"] == "If" and "expr" not in e:
            e = e["stmts"][0]
        elif "expr" in e:
            e = e["expr"]
        elif e["stmts"]:
            e = e["stmts"][-1]
        else:
            break
        if e["k"] == "If" and e["cond"]["k"] == "LetCond":
            e = e["then"]
    chain = []
    while e["k"] == "If":
        chain.append((e["cond"], e["then"]))
        if "else" not in e:
            break
        e = e["else"]
        while e["k"] == "Block" and not e["stmts"] and "expr" in e:
            e = e["expr"]
    return chain


def lit_chars(node):
    return {x["lit"]["char"] for x in walk(node) if x["k"] == "Lit" and "char" in x["lit"]}


def run(ctx, R):
    F = ctx.facts()
    R.rule("RF1 printer/lexer character-class agreement; RF9 special-case tables")
    nq = F.find("heap_print::non_quoted_token")
    ng = F.find("heap_print::non_quoted_graphic_token")
    nt = [p for p in F.items if p.endswith("::name_token") and F.items[p]["file"] == "src/parser/lexer.rs"]
    if len(nt) != 1:
        raise AnchorLost("Lexer::name_token")
    pc = if_chain(F.hir(nq)["body"])
    # the lexer function declares a local before its chain: find the first If statement
    lb = F.hir(nt[0])["body"]
    lifs = [s for s in lb["stmts"] if s["k"] == "If"] + ([lb["expr"]] if lb.get("expr", {}).get("k") == "If" else [])
    if not lifs:
        raise AnchorLost("name_token: if-chain not found")
    lc = []
    e = lifs[0]
    while e["k"] == "If":
        lc.append((e["cond"], e["then"]))
        if "else" not in e:
            break
        e = e["else"]
        while e["k"] == "Block" and not e["stmts"] and "expr" in e:
            e = e["expr"]
    if len(pc) < 5 or len(lc) < 3:
        raise AnchorLost("if-chains: printer %d branches, lexer %d branches" % (len(pc), len(lc)))
    names = ["letter-digit", "graphic", "solo-cut-semicolon"]
    for i, nm in enumerate(names):
        pf, lf = classes(pc[i][0]), classes(lc[i][0])
        R.ob("C55:first-char-class:%s" % nm, pf == lf and pf, "printer tests %s, lexer tests %s for the first character of a %s token" % (sorted(pf), sorted(lf), nm), F.where(nq))
    # continuation classes
    p_cont0, l_cont0 = classes(pc[0][1]), classes(lc[0][1])
    R.ob("C55:continuation-class:letter-digit", p_cont0 == l_cont0 == {"alpha_numeric_char"}, "printer %s, lexer %s" % (sorted(p_cont0), sorted(l_cont0)), F.where(nq))
    l_cont1 = classes(lc[1][1])
    g_all = classes(F.hir(ng)["body"])
    R.ob("C55:continuation-class:graphic", l_cont1 == {"graphic_token_char"} and g_all == {"graphic_token_char"}, "printer %s, lexer %s" % (sorted(g_all), sorted(l_cont1)), F.where(ng))
    calls_g = any((x.get("resolved") or "").endswith("heap_print::non_quoted_graphic_token") for x in walk(pc[1][1]) if x["k"] == "Call")
    R.ob("C55:graphic-branch-delegates", calls_g, "the graphic branch of non_quoted_token must decide through non_quoted_graphic_token", F.where(nq))
    # solo ! ; : nothing may follow
    solo_ok = any(x["k"] == "MethodCall" and x["name"] == "is_none" for x in walk(pc[2][1]))
    R.ob("C55:solo:single-character", solo_ok, "! and ; are unquoted only as single-character atoms", F.where(nq))
    # [] and {}: the branches that test the first character against a literal bracket (found by what they test, not by
    # their place in the chain); a branch that accepts several openers and several closers accepts every combination
    br = {}
    for cond, then in pc[3:]:
        fc = lit_chars(cond)
        if fc and fc <= {"[", "{"} and not classes(cond):
            for o in fc:
                br.setdefault(o, set()).update(lit_chars(then))
    R.ob("C55:bracket-atoms", br == {"[": {"]"}, "{": {"}"}}, "atoms starting with a bracket that are written unquoted: %s (oracle: [] and {} only)"
         % {k: sorted(v) for k, v in br.items()}, F.where(nq))
    # solo characters that always need quotes
    solo = [(c, t) for c, t in pc[3:] if classes(c) == {"solo_char"}]
    if len(solo) != 1:
        raise AnchorLost("non_quoted_token: the solo_char branch (%d)" % len(solo))
    solo_cond, solo_then = solo[0]
    R.ob("C55:solo-char-class", classes(solo_cond) == {"solo_char"}, "last branch tests %s" % sorted(classes(solo_cond)), F.where(nq))
    excl = lit_chars(solo_then)
    ORACLE_EXCL = {"(", ")", "}", "]", ",", "%", "|"}
    R.ob("C55:solo-exclusions", excl == ORACLE_EXCL, "solo characters written quoted: %s (oracle %s: punctuation and comment tokens the reader would not read back as an atom)" % (sorted(excl), sorted(ORACLE_EXCL)), F.where(nq))

    # ---- special graphic starts ---------------------------------------------------------------------------
    gc = if_chain(F.hir(ng)["body"])
    table = {}
    for cond, then in gc:
        if cond["k"] == "Binary" and cond["op"] == "Eq":
            ch = lit_chars(cond)
            if len(ch) != 1:
                continue
            first = next(iter(ch))
            cases = {}
            for m in matches_in(then, src=None):
                for arm in m["arms"]:
                    for leaf in pat_leaves(arm["pat"]):
                        rn = res_name(leaf) or ""
                        if rn.endswith("::None"):
                            key = "end"
                        elif leaf["k"] == "PTupleStruct" and rn.endswith("::Some"):
                            inner = leaf["pats"][0]
                            key = "'%s'" % inner["lit"]["char"] if inner["k"] == "PLit" and "char" in inner["lit"] else "other"
                        else:
                            continue
                        body = arm["body"]
                        while body["k"] == "Block" and not body["stmts"] and "expr" in body:
                            body = body["expr"]
                        if body["k"] == "Lit" and "bool" in body["lit"]:
                            cases[key] = body["lit"]["bool"]
                        else:
                            cases[key] = "graphic-rest" if classes(body) == {"graphic_token_char"} else "?"
                break
            table[first] = cases
    ORACLE = {"/": {"end": True, "'*'": False, "other": "graphic-rest"}, ".": {"end": False, "other": "graphic-rest"}}
    R.ob("C55:graphic-special-starts", table == ORACLE,
         "special first characters of graphic tokens: %s; oracle %s ('/*' opens a comment, a lone '.' is the end token; nothing else needs quotes, "
         "e.g. '.*' is an ordinary graphic token)" % (table, ORACLE), F.where(ng))
    R.sample({"printer_chain": [sorted(classes(c)) for c, _ in pc], "lexer_chain": [sorted(classes(c)) for c, _ in lc], "graphic_specials": {k: {a: str(b) for a, b in v.items()} for k, v in table.items()}})
    # the quoted form is computed from the characters of the atom: no special case keyed on the atom's whole text, except
    # the oracle's own ones. (A stray `atom == "''"` once wrote the two-quote atom as the empty atom.)
    pa = [p for p, it in F.items.items() if p.endswith("::print_op_addendum") and it["file"] == "src/heap_print.rs"]
    if len(pa) != 1:
        raise AnchorLost("HCPrinter::print_op_addendum: %s" % pa)
    lits = []
    for n in walk(F.hir(pa[0])["body"]):
        if n["k"] == "Binary" and n["op"] in ("Eq", "Ne"):
            for side in (n["a"], n["b"]):
                for x in walk(side):
                    if x["k"] == "Lit" and "str" in (x.get("lit") or {}):
                        lits.append(x["lit"]["str"])
        if n["k"] == "Match":
            for arm in n["arms"]:
                for q in walk(arm["pat"]):
                    if q.get("k") == "PLit" and "str" in (q.get("lit") or {}):
                        lits.append(q["lit"]["str"])
    R.ob("C55:quoted-form:no-special-case-by-text", not lits,
         "print_op_addendum compares the atom's text with %s before quoting it character by character: such a case writes that atom in a form chosen by hand "
         "(the two-quote atom was once written as '' — the empty atom)" % lits, F.where(pa[0]))
