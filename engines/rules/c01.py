"""C01 — Integer arithmetic is exact at every magnitude.

Decides the overflow-safety *shape* of the integer evaluator: inside the evaluator scope no
machine-word operation on fixnum payloads can wrap or truncate silently (every raw operator and
every narrowing/sign-changing cast is on a closed exception table), every checked_* operation
has a data-dependent fallback, small integers are built unchecked only at the listed sites,
the 56-bit range constants are what the encoding needs, every functor of the statement is
evaluable, and every integer division is behind a zero-divisor test. It does not decide that
the implementations compute the right number.
"""
import re

from .core import AnchorLost, atom_of, hir_calls, matches_in, pat_leaves, res_name, short, walk
from . import repo, c03

EXPLANATION = (
    "Numeric-operator discipline (RF6) over the MIR of the evaluator scope (release semantics: "
    "overflow checks off, so a raw `a + b` is visible as a wrapping Add): every raw "
    "Add/Sub/Mul/Shl/Shr/Div/Rem/Neg on a machine integer and every narrowing or sign-changing "
    "int cast must be on the triaged table; RF3 on checked_* fallbacks and zero-divisor guards over "
    "typed HIR; RF4 who-may-build-unchecked-fixnums; RF9 range constants; RF10 functor coverage."
)
ASSUMPTIONS = [
    "std checked_* and dashu integer arithmetic are exact",
    "64-bit target: isize and i64 have the same width (casts between them are lossless)",
]

ARITH_FUNCS = ("add sub mul neg abs idiv int_floor_div modulus remainder shl shr checked_signed_shl and or xor "
               "bitwise_complement int_pow gcd isize_gcd max min div rdiv rational_from_number").split()
INT_RX = re.compile(r"^(i8|i16|i32|i64|i128|isize|u8|u16|u32|u64|u128|usize)$")
WRAP_OPS = {"Add", "Sub", "Mul", "Shl", "Shr", "Div", "Rem", "AddUnchecked", "SubUnchecked", "MulUnchecked", "ShlUnchecked", "ShrUnchecked"}
WIDTH = {"i8": 8, "u8": 8, "i16": 16, "u16": 16, "i32": 32, "u32": 32, "i64": 64, "u64": 64, "isize": 64, "usize": 64, "i128": 128, "u128": 128}

# (function short name, op, type) -> (max count, reason)
RAW_OP_TABLE = {
    ("arithmetic_ops::checked_signed_shl", "Shl", "i64"): (1, "x >= 0 and shift < x.leading_zeros(): no set bit reaches the sign bit (guard checked below)"),
    ("arithmetic_ops::isize_gcd", "Add", "i32"): (1, "shift counter, at most 63 increments"),
    ("arithmetic_ops::isize_gcd", "Shr", "isize"): (4, "binary GCD on values made non-negative by checked_abs: right shifts only shrink"),
    ("arithmetic_ops::isize_gcd", "Sub", "isize"): (1, "n2 -= n1 after the swap that makes n1 <= n2: stays non-negative"),
    ("arithmetic_ops::isize_gcd", "Shl", "isize"): (1, "restores the common power of two: the result divides both inputs, so it is <= the smaller |input|"),
    ("arithmetic_ops::remainder", "Rem", "i64"): (1, "truncating remainder of two in-range fixnums with a non-zero divisor: |result| < |divisor|; i64::MIN % -1 needs a 64-bit operand, fixnums have 56"),
    ("Fixnum::build_with_unchecked", "Shl", "u64"): (1, "mask construction (1 << 56) on constants"),
    ("Fixnum::build_with_unchecked", "Sub", "u64"): (1, "mask construction (1 << 56) - 1 on constants"),
    ("Fixnum::build_with_unchecked", "Add", "u8"): (1, "tag constant arithmetic"),
    ("Fixnum::as_cutpoint", "Add", "u8"): (1, "tag constant arithmetic"),
    ("Fixnum::get_num", "Shl", "i64"): (1, "sign extension: (n << 8) followed by overflowing_shr(8) on a 56-bit payload"),
    ("Neg>::neg", "Neg", "i64"): (1, "impl Neg for Fixnum wraps at Fixnum::MIN; it must have no caller in the evaluator (checked below)"),
}
CAST_TABLE = {
    ("ArenaFrom<isize>>::arena_from", "isize", "i64"): "same width on 64-bit targets",
    ("ArenaFrom<usize>>::arena_from", "usize", "u64"): "same width / widening",
    ("arithmetic_ops::gcd", "i64", "isize"): "same width on 64-bit targets",
    ("arithmetic_ops::checked_signed_shl", "u32", "usize"): "widening",
    ("arithmetic_ops::isize_gcd", "i32", "isize"): "widening of the shift counter",
    ("Fixnum::get_num", "u64", "i64"): "reinterpretation of the 56-bit payload before sign extension",
    ("Fixnum::build_with_unchecked", "u8", "u8"): "identity",
    ("Fixnum::as_cutpoint", "u8", "u8"): "identity",
    ("ArenaFrom<u64>>::arena_from", "u64", "i64"):
        "HeapCellValue::arena_from(u64) reinterprets values >= 2^63 as negative. Callers (ArenaFrom<usize> for HeapCellValue, stream_property) "
        "pass sizes/positions, never evaluator operands; recorded observation, not part of is/2",
}
UNCHECKED_BUILDERS = {
    "arithmetic::rnd_i": "after (Fixnum::MIN as f64 .. Fixnum::MAX as f64).contains(&f), upper bound exclusive (checked by C01:rnd_i:float-range-excludes-2^55)",
    "parser::ast::Fixnum::build_with": "argument type is sealed FitsInFixnum",
    "parser::ast::Fixnum::build_with_checked": "after try_into_i56 succeeded",
    "<parser::ast::Fixnum as std::ops::Neg>::neg": "wraps at MIN; no evaluator caller (checked)",
    "<parser::ast::Fixnum as std::ops::Not>::not": "!n = -n-1 stays in the two's-complement 56-bit range",
}
REQUIRED_FUNCTORS = [("+", 2), ("-", 2), ("*", 2), ("//", 2), ("div", 2), ("mod", 2), ("rem", 2), ("gcd", 2), ("min", 2), ("max", 2),
                     ("abs", 1), ("sign", 1), ("^", 2), ("<<", 2), (">>", 2), ("/\\", 2), ("\\/", 2), ("xor", 2), ("\\", 1), ("-", 1)]
DIV_FUNCS = ["idiv", "modulus", "remainder", "rdiv", "div"]


def scope(F):
    S = []
    for n in ARITH_FUNCS:
        S.append(F.find("machine::arithmetic_ops::" + n))
    S += [F.find("arithmetic::binary_pow"), F.find("arithmetic::rnd_i")]
    S += [p for p, it in F.items.items() if it["kind"] == "AssocFn" and it.get("trait") == "forms::ArenaFrom"
          and it.get("self_ty") in ("forms::Number", "types::HeapCellValue")]
    S += [p for p, it in F.items.items() if it["kind"] == "AssocFn" and it.get("self_ty") == "parser::ast::Fixnum"]
    S += [p for p in F.items if re.search(r"ibig_rem_floor$", p)]
    out = []
    for p in sorted(set(S)):
        out += F.body_and_closures(p)
    return out


def is_const(o):
    return isinstance(o, dict) and "c" in o


def run(ctx, R):
    F = ctx.facts()
    R.rule("RF6 raw machine arithmetic / narrowing casts on a closed table; RF3 checked_* fallbacks and zero-divisor guards; RF4 unchecked fixnum builders; RF9 range constants; RF10 functor coverage")
    S = scope(F)
    R.floor("evaluator scope bodies", len(S), 90)

    # ---- RF6-a / RF6-b over MIR -----------------------------------------------------------------
    raw_counts = {}
    n_stmt = 0
    for p in S:
        if F.items[p]["kind"] not in ("Fn", "AssocFn", "Closure"):
            continue
        try:
            m = F.mir(p)
        except AnchorLost:
            continue
        sp = short(re.sub(r"(::\{closure#\d+\})+$", "", p))
        for b in m["blocks"]:
            for s in b["s"]:
                rv = s.get("rv")
                if not rv:
                    continue
                n_stmt += 1
                if "bitfield" in (s.get("mac") or []):
                    continue  # generated by #[bitfield]: accessor range checks
                if rv["k"] == "BinaryOp" and rv["op"] in WRAP_OPS and INT_RX.match(rv["ty"]):
                    if is_const(rv["a"]) and is_const(rv["b"]):
                        continue  # constant expression (e.g. Fixnum::MAX + 1): evaluated on constants
                    k = (sp, rv["op"].replace("Unchecked", ""), rv["ty"])
                    raw_counts[k] = raw_counts.get(k, 0) + 1
                    raw_counts.setdefault(("line", k), s["ln"])
                elif rv["k"] == "UnaryOp" and rv["op"] == "Neg" and INT_RX.match(rv["ty"]):
                    k = (sp, "Neg", rv["ty"])
                    raw_counts[k] = raw_counts.get(k, 0) + 1
                    raw_counts.setdefault(("line", k), s["ln"])
                elif rv["k"] == "Cast" and rv["kind"].startswith("IntToInt"):
                    fr, to = rv["from"], rv["to"]
                    if fr in WIDTH and to in WIDTH:
                        lossy = WIDTH[to] < WIDTH[fr] or (fr[0] != to[0] and not (fr[0] == "u" and WIDTH[to] > WIDTH[fr]))
                        if (sp, fr, to) in CAST_TABLE:
                            R.ob("C01:cast:%s:%s->%s" % (sp, fr, to), True, "listed: " + CAST_TABLE[(sp, fr, to)], "%s (line %s)" % (F.where(p), s["ln"]))
                        elif lossy:
                            R.ob("C01:cast:%s:%s->%s" % (sp, fr, to), False,
                                 "narrowing or sign-changing cast in the integer evaluator is not on the triaged table: values outside the target range are silently truncated/reinterpreted",
                                 "%s (line %s)" % (F.where(p), s["ln"]))
    for k, cnt in sorted((k, v) for k, v in raw_counts.items() if k[0] != "line"):
        sp, op, ty = k
        ent = RAW_OP_TABLE.get(k)
        ln = raw_counts.get(("line", k))
        if ent and cnt <= ent[0]:
            R.ob("C01:raw-op:%s:%s:%s" % k, True, "%d site(s), listed: %s" % (cnt, ent[1]), "%s line %s" % (sp, ln))
        else:
            R.ob("C01:raw-op:%s:%s:%s" % k, False,
                 "%d raw wrapping `%s` on %s in the integer evaluator (table allows %d): in a release build the result wraps silently instead of falling back to a big integer"
                 % (cnt, op, ty, ent[0] if ent else 0), "%s line %s" % (sp, ln))
        R.sample({"raw_op": list(k), "count": cnt})
    R.notes.append("MIR assignments inspected in scope: %d" % n_stmt)

    # guard of the one raw shift in checked_signed_shl: cond `shift < x.leading_zeros()`
    cs = F.find("machine::arithmetic_ops::checked_signed_shl")
    h = F.hir(cs)
    guarded = False
    for n in walk(h["body"]):
        if n["k"] == "If":
            c = n["cond"]
            if c["k"] == "Binary" and c["op"] in ("Lt",) and any(x["k"] == "MethodCall" and x["name"] == "leading_zeros" for x in walk(c["b"])):
                if any(x["k"] == "Binary" and x["op"] == "Shl" for x in walk(n["then"])) and not any(x["k"] == "Binary" and x["op"] == "Shl" for x in walk(n.get("else", {}))):
                    guarded = True
    shl_total = sum(1 for x in walk(h["body"]) if x["k"] == "Binary" and x["op"] == "Shl")
    R.ob("C01:checked_signed_shl:shift-guard", guarded and shl_total == 1,
         "the raw `x << shift` must be in the then-branch of `shift < x.leading_zeros()` (strictly less: the sign bit stays clear); %d shifts" % shl_total, F.where(cs))

    # ---- RF3: checked_* results have a data-dependent fallback ------------------------------------
    n_checked = 0
    for p in S:
        if F.items[p]["kind"] not in ("Fn", "AssocFn"):
            continue
        h = F.hir(p)
        for n in walk(h["body"]):
            if n["k"] == "MethodCall" and n["name"].startswith("checked_"):
                n_checked += 1
            if n["k"] == "MethodCall" and n["name"] in ("unwrap_or", "unwrap", "unwrap_or_default", "expect"):
                r = n["recv"]
                if r["k"] == "MethodCall" and r["name"].startswith("checked_"):
                    arg = n["args"][0] if n["args"] else None
                    const = arg is None or arg["k"] == "Lit" or (arg["k"] == "Unary" and arg["a"]["k"] == "Lit")
                    R.ob("C01:checked-fallback:%s:%s" % (short(p), r["name"]), not const,
                         "the overflow/None case of %s is replaced by %s: the result no longer depends on the operands "
                         "(must fall back to big-integer arithmetic or to a value computed from the operands)" % (r["name"], "a constant" if arg is not None else n["name"] + "()"),
                         "%s (line %s)" % (F.where(p), n["ln"]))
    R.floor("checked_* call sites in the evaluator", n_checked, 9)

    # ---- RF4: unchecked fixnum builders in scope --------------------------------------------------
    builders = {}
    for p in S:
        for c in F.calls.get(p, []):
            t = c.get("resolved") or c.get("callee") or ""
            if t.endswith("Fixnum::build_with_unchecked"):
                top = re.sub(r"(::\{closure#\d+\})+$", "", p)
                builders[top] = builders.get(top, 0) + 1
    R.floor("unchecked fixnum builders in scope", len(builders), 4)
    for top in sorted(builders):
        R.ob("C01:unchecked-fixnum:%s" % short(top), top in UNCHECKED_BUILDERS,
             UNCHECKED_BUILDERS.get(top, "Fixnum::build_with_unchecked called from the evaluator without a recorded range argument"), F.where(top))
    # rnd_i's range argument: the bounds are the fixnum limits converted to f64, and `Fixnum::MAX as f64` rounds UP to
    # 2^55 (2^55-1 needs 55 mantissa bits) — the test must therefore exclude its upper bound
    rn = F.find("arithmetic::rnd_i")
    rh = F.hir(rn)
    guards = []
    for ifn in walk(rh["body"]):
        if ifn["k"] == "If" and any(x["k"] in ("Call", "MethodCall") and re.search(r"build_with_unchecked$", x.get("resolved") or x.get("callee") or "") for x in walk(ifn["then"])):
            for c in walk(ifn["cond"]):
                if c["k"] == "MethodCall" and c["name"] == "contains":
                    guards.append(c["recv"].get("ty") or c["recv"].get("adj_ty") or "")
    if len(guards) != 1:
        raise AnchorLost("arithmetic::rnd_i: range test guarding build_with_unchecked (found %d)" % len(guards))
    R.ob("C01:rnd_i:float-range-excludes-2^55", "RangeInclusive" not in guards[0] and "Range<" in guards[0],
         "rnd_i guards the unchecked small-integer build with %s over (Fixnum::MIN as f64, Fixnum::MAX as f64): the upper bound converts to 2^55, which is "
         "outside the 56-bit range, so the range must be half-open (`..`), not inclusive (`..=`): X is floor(36028797018963968.0) builds 2^55 as a small integer" % guards[0],
         F.where(rn))
    # `>>` of the big-integer library rounds a negative operand towards zero in some cases (shift past its low zero
    # words): every big-integer right shift in the evaluator must sit under a sign test (the negative branch shifts the
    # complement, which is non-negative)
    n_shr = 0
    for p in S:
        if F.items[p]["kind"] not in ("Fn", "AssocFn"):
            continue
        ph = F.hir(p)

        def rec(n, under_sign_test):
            nonlocal n_shr
            if isinstance(n, list):
                for x in n:
                    rec(x, under_sign_test)
                return
            if not isinstance(n, dict):
                return
            if n.get("k") == "If":
                tests_sign = any(x["k"] == "MethodCall" and x["name"] in ("is_negative", "is_positive", "sign", "signum") for x in walk(n["cond"]))
                rec(n["cond"], under_sign_test)
                rec(n["then"], under_sign_test or tests_sign)
                if n.get("else"):
                    rec(n["else"], under_sign_test or tests_sign)
                return
            if n.get("k") == "Binary" and n.get("op") == "Shr" and re.search(r"Shr<usize> for &?dashu::integer::IBig>::shr$", n.get("resolved") or n.get("callee") or ""):
                n_shr += 1
                R.ob("C01:bigint-shr:under-sign-test:%s@%d" % (short(p), n["ln"] - F.items[p]["line"]), under_sign_test,
                     "%s shifts a big integer right with the library's `>>` outside any sign test: for a negative operand whose low words are zero it rounds "
                     "towards zero (X is -(2^64) >> 65 gives 0, the flooring shift gives -1)" % short(p), F.where(p))
            for k, v in n.items():
                if k != "mac" and isinstance(v, (dict, list)):
                    rec(v, under_sign_test)
        rec(ph["body"], False)
    R.floor("big-integer right shifts in the evaluator", n_shr, 1)
    # floor modulus on big integers: the unsigned residue r in 0..|m| is shifted by a negative modulus only when it is
    # not zero (r + m would otherwise be m itself: X mod M = M for every exact division by a negative M). Two seed agents
    # independently removed exactly this test.
    rf = [p for p in F.items if p.endswith("arithmetic_ops::modulus::ibig_rem_floor")]
    if len(rf) != 1:
        raise AnchorLost("arithmetic_ops::modulus::ibig_rem_floor (%d)" % len(rf))
    rfb = F.hir(rf[0])
    divisor = [prm for prm in (rfb.get("params") or []) ]
    n_shift = 0

    def rec_rf(n, zero_guard):
        nonlocal n_shift
        if isinstance(n, list):
            for x in n:
                rec_rf(x, zero_guard)
            return
        if not isinstance(n, dict):
            return
        if n.get("k") == "If":
            c = n["cond"]
            tests_zero = any(x.get("k") == "MethodCall" and x.get("name") == "is_zero" for x in walk(c))
            negated = c.get("k") == "Unary" and "Not" in str(c.get("op"))
            rec_rf(c, zero_guard)
            rec_rf(n["then"], zero_guard or (tests_zero and negated))
            if "else" in n:
                rec_rf(n["else"], zero_guard or (tests_zero and not negated))
            return
        if n.get("k") == "Binary" and n.get("op") == "Add" and "IBig" in ((n.get("ty") or "") + (n.get("inst") or "") + (n["a"].get("ty") or "")):
            n_shift += 1
            R.ob("C01:floor-mod:residue-shifted-only-when-nonzero@%d" % (n["ln"] - F.items[rf[0]]["line"]), zero_guard,
                 "ibig_rem_floor adds the modulus to the unsigned residue (line %s) outside the non-zero branch of an is_zero() test: an exact division by a negative "
                 "big modulus then gives the modulus instead of 0 (2^64 mod -(2^32) = -(2^32)), and div, built on it, is off by one" % n["ln"], F.where(rf[0]))
        for k, v in n.items():
            if k != "mac" and isinstance(v, (dict, list)):
                rec_rf(v, zero_guard)
    rec_rf(rfb["body"], False)
    R.floor("big-integer floor-mod sign adjustments", n_shift, 1)
    # impl Neg for Fixnum has no caller inside the evaluator scope
    negf = F.find_impl("Fixnum", "std::ops::Neg", "neg")
    callers = [p for p in S if any((c.get("resolved") or c.get("callee")) == negf for c in F.calls.get(p, []))]
    R.ob("C01:Fixnum-Neg:no-evaluator-caller", not callers, "wrapping `-fixnum` is used by %s" % callers, F.where(negf))

    # ---- RF9: range constants -----------------------------------------------------------------------
    mn, mx = F.const("parser::ast::Fixnum::MIN"), F.const("parser::ast::Fixnum::MAX")
    R.ob("C01:Fixnum::MIN", mn == -(1 << 55), "Fixnum::MIN = %d, 56-bit two's complement needs %d" % (mn, -(1 << 55)), "src/parser/ast.rs")
    R.ob("C01:Fixnum::MAX", mx == (1 << 55) - 1, "Fixnum::MAX = %d, 56-bit two's complement needs %d" % (mx, (1 << 55) - 1), "src/parser/ast.rs")
    gn = F.find("parser::ast::Fixnum::get_num")
    gh = F.hir(gn)
    shifts = sorted(x["b"]["lit"]["int"] for x in walk(gh["body"]) if x["k"] == "Binary" and x["op"] == "Shl" and x["b"]["k"] == "Lit") + \
        sorted(a["lit"]["int"] for x in walk(gh["body"]) if x["k"] == "MethodCall" and x["name"] in ("overflowing_shr", "wrapping_shr") for a in x["args"] if a["k"] == "Lit")
    R.ob("C01:Fixnum::get_num:sign-extension", shifts == ["8", "8"], "shift amounts %s, 64-56 = 8 both ways" % shifts, F.where(gn))
    ti = [p for p in F.items if p.endswith("::try_into_i56")]
    ok = False
    for p in ti:
        hh = F.hir(p)
        ok = ok or any(x["k"] == "MethodCall" and x["name"] == "contains" for x in walk(hh["body"])) and \
            any((res_name(x) or "").endswith("Fixnum::RANGE") for x in walk(hh["body"]) if x["k"] == "Path")
    R.ob("C01:try_into_i56:range-test", ok, "MightNotFitInFixnum::try_into_i56 must test Fixnum::RANGE", ti[0] if ti else "?")

    # ---- RF10: functor coverage (tables shared with C03) ------------------------------------------------
    t1 = {}
    for name, arity in (("get_unary_instr", 1), ("get_binary_instr", 2)):
        p = F.find("ArithmeticEvaluator::<'a>::" + name)
        tabs = c03.atom_match_tables(F.hir(p))
        for atom in tabs[0][1]:
            t1[(atom, arity)] = True
    mc = F.find_impl("MachineState", None, "arith_eval_by_metacall")
    rt_atoms = set()
    for _, tbl in c03.atom_match_tables(F.hir(mc)):
        rt_atoms |= set(tbl)
    for f in REQUIRED_FUNCTORS:
        R.ob("C01:evaluable:%s/%d" % f, f in t1 and f[0] in rt_atoms, "functor %s/%d must be evaluable in both evaluators" % f, F.where(mc))

    # ---- RF3: zero-divisor guards --------------------------------------------------------------------------
    DIVLIKE = re.compile(r"checked_div$|::div$|::rem$|rem_floor$|div_floor$|ibig_rem_floor$|div_rem$|div_euclid$|rem_euclid$")
    n_div = 0
    for fn in DIV_FUNCS:
        p = F.find("machine::arithmetic_ops::" + fn)
        h = F.hir(p)

        def rec(n, anc):
            nonlocal n_div
            if isinstance(n, list):
                for x in n:
                    rec(x, anc)
                return
            if not isinstance(n, dict):
                return
            if n.get("k") in ("MethodCall", "Call", "Binary"):
                r = n.get("resolved") or n.get("callee") or ""
                isdiv = (n["k"] == "Binary" and n.get("op") in ("Div", "Rem")) or (n["k"] != "Binary" and DIVLIKE.search(r) and not r.startswith("machine::arithmetic_ops::div"))
                if n["k"] == "Call" and r.endswith("ibig_rem_floor"):
                    isdiv = True
                if isdiv and not any(a[0].get("k") == "Closure" or (a[0].get("k") == "Let" and False) for a in anc if False):
                    # skip the helper closure/fn bodies nested in the function (own obligations)
                    n_div += 1
                    guarded = False
                    for node, key in reversed(anc):
                        if node["k"] == "If" and key == "else":
                            c = node["cond"]
                            ztest = any((x["k"] == "MethodCall" and x["name"] == "is_zero") or
                                        (x["k"] == "Binary" and x["op"] == "Eq" and x["b"]["k"] == "Lit" and x["b"]["lit"].get("int") == "0") for x in walk(c))
                            zerr = any((x.get("resolved") or x.get("callee") or "").endswith("zero_divisor_eval_error") for x in walk(node["then"]) if x["k"] in ("Call",))
                            if ztest and zerr:
                                guarded = True
                                break
                    R.ob("C01:zero-divisor-guard:%s@%s" % (fn, n["ln"] - F.items[p]["line"]), guarded,
                         "division-like operation `%s` in %s is not in the else-branch of a zero test that raises evaluation_error(zero_divisor)" % (short(r) if r else n.get("op"), fn),
                         "%s (line %s)" % (F.where(p), n["ln"]))
            if "k" in n:
                if n["k"] == "Closure" and anc and any(a[0]["k"] == "Let" for a in anc[-2:]) and False:
                    return
                for key, v in n.items():
                    if isinstance(v, (dict, list)):
                        rec(v, anc + [(n, key)])
            else:
                for key, v in n.items():
                    if isinstance(v, (dict, list)):
                        rec(v, anc)

        rec(h["body"], [])
    R.floor("division-like operations", n_div, 10)

    # ---- RF1: operand order is preserved in every representation pair of the non-commutative ops ----
    n_ord = 0
    for fn in ("idiv", "modulus", "remainder", "int_pow", "max", "min"):
        n_ord += repo.operand_order_obligations(F, F.find("machine::arithmetic_ops::" + fn), R, "C01:operand-order:" + fn)
    R.floor("ordered operand sites in integer ops", n_ord, 12)
    # ---- RF1: every representation-pair arm of a binary integer operation computes from both operands ----
    n_use = 0
    for fn in ("add", "sub", "mul", "idiv", "int_floor_div", "modulus", "remainder", "gcd", "max", "min", "and", "or", "xor", "int_pow", "rdiv", "div"):
        n_use += repo.operand_use_obligations(F, F.find("machine::arithmetic_ops::" + fn), R, "C01:operand-use:" + fn)
    R.floor("representation-pair arms of binary integer ops", n_use, 30)
