"""C09 — Dynamic predicates follow the logical update view.

Decides the structure of the generation protocol: (R1) every liveness test is the same
predicate `birth < cc && Finite(cc) <= death`; (R2) every database mutation ticks the global
clock before control returns; stamps are taken from the clock only; (R3) `cc` is taken from the
clock only on a first call, is saved with the choice point, and on re-entry by backtracking is
reloaded from the choice point BEFORE the first liveness test. Not the answer sequences.
"""
import json
import re

from .core import AnchorLost, CFG, callee_of, hir_calls, matches_in, pat_leaves, pat_variant, res_name, short, walk
from . import repo

EXPLANATION = (
    "RF1 sibling agreement of all liveness-test clones (typed HIR, normalised comparisons), RF3 "
    "must-pass-through of the clock tick after each clause-database mutation (MIR CFG, error exits "
    "excepted), RF4 stamp sources, RF2/RF3 save/restore discipline of the call generation `cc` in the "
    "three dynamic-clause handlers of dispatch_loop (restore precedes first use in Next mode; clock is "
    "read only in First mode; the generation is pushed as the extra choice-point argument)."
)
ASSUMPTIONS = ["a clause born at tick t is stamped t and the clock then moves to t+1; a first call captures cc = global_clock"]

PREPEND_FINDING_KEY = "C09:dynamic-index:prepend-shifts-saved-positions"
LIVE_RX = re.compile(r"Machine>?::find_living_dynamic(_else)?$")


def field_named(e, name):
    return any(n["k"] == "Field" and n["name"] == name for n in walk(e))


def cc_aliases(body, field="cc"):
    """Locals that merely copy the call generation: `let x = <..>.cc;`."""
    out = set()
    for n in walk(body):
        if n["k"] == "Let" and n["pat"]["k"] == "PBind" and "init" in n:
            i = n["init"]
            while i["k"] in ("AddrOf",) or (i["k"] == "Unary" and i.get("op") == "Deref"):
                i = i["a"]
            if i["k"] == "Field" and i["name"] == field:
                out.add(n["pat"]["name"])
    return out


def norm_cmp(n, aliases=frozenset()):
    """Normalise a comparison node to (left_kind, op, right_kind) with kinds in
    {'cc','Finite(cc)','stamp:usize','stamp:Death'}; None if it does not involve cc."""
    if n["k"] != "Binary" or n["op"] not in ("Lt", "Le", "Gt", "Ge", "Eq", "Ne"):
        return None

    def is_cc(e):
        return (e["k"] == "Field" and e["name"] == "cc") or (e["k"] == "Path" and res_name(e) in aliases)

    def kind(e):
        if e["k"] == "Call" and (e.get("ctor") or "").endswith("Death::Finite"):
            return "Finite(cc)" if any(is_cc(x) for x in walk(e)) else "Finite(?)"
        if is_cc(e):
            return "cc"
        t = e.get("ty", "")
        if e["k"] == "Path" and "local" in (e.get("res") or {}):
            return "stamp:" + ("Death" if t.endswith("Death") else t)
        return "other"

    a, b = kind(n["a"]), kind(n["b"])
    if "cc" not in a and "cc" not in b:
        return None
    op = n["op"]
    flip = {"Lt": "Gt", "Le": "Ge", "Gt": "Lt", "Ge": "Le", "Eq": "Eq", "Ne": "Ne"}
    # put the cc side on the right for usize compares, Finite(cc) on the left for Death compares
    if a == "cc" or b == "Finite(cc)":
        a, b, op = b, a, flip[op]
    return (a, op, b)


ORACLE_LIVE = {("stamp:usize", "Lt", "cc"), ("Finite(cc)", "Le", "stamp:Death")}


def stmts_of(block):
    b = block
    while b["k"] != "Block":
        return [b]
    return list(b["stmts"]) + ([b["expr"]] if "expr" in b else [])


def restores_cc_from_stack(F, node):
    """True if node assigns field cc from an expression reading the stack (inline), or calls a local
    function whose body does."""
    for n in walk(node):
        if n["k"] == "Assign" and n["lhs"]["k"] == "Field" and n["lhs"]["name"] == "cc":
            if field_named(n["rhs"], "stack") and not field_named(n["rhs"], "global_clock"):
                return True
        if n["k"] in ("Call", "MethodCall"):
            r = n.get("resolved") or n.get("callee") or ""
            if r in F.items and r.startswith("machine::") and F.items[r]["kind"] in ("Fn", "AssocFn") and F.items[r]["line_end"] - F.items[r]["line"] < 30:
                try:
                    h = F.hir(r)
                except AnchorLost:
                    continue
                for m in walk(h["body"]):
                    if m["k"] == "Assign" and m["lhs"]["k"] == "Field" and m["lhs"]["name"] == "cc" and field_named(m["rhs"], "stack"):
                        return True
    return False


def mode_pattern(p):
    out = set()
    for leaf in pat_leaves(p):
        rn = res_name(repo.strip_ref(leaf)) or ""
        m = re.search(r"FirstOrNext::(First|Next)$", rn)
        if m:
            out.add(m.group(1))
        elif leaf["k"] in ("PWild", "PBind"):
            out.add("*")
    return out


def next_mode_restore(F, stmt):
    """stmt is a conditional on dynamic_mode whose Next case restores cc from the choice point."""
    for n in walk(stmt):
        if n["k"] == "If" and n["cond"]["k"] == "LetCond" and field_named(n["cond"]["init"], "dynamic_mode"):
            mp = mode_pattern(n["cond"]["pat"])
            if mp == {"Next"} and restores_cc_from_stack(F, n["then"]):
                return True
            if mp == {"First"} and "else" in n and restores_cc_from_stack(F, n["else"]):
                return True
        if n["k"] == "Match" and field_named(n["scrut"], "dynamic_mode"):
            for arm in n["arms"]:
                mp = mode_pattern(arm["pat"])
                if ("Next" in mp or "*" in mp) and "guard" not in arm and restores_cc_from_stack(F, arm["body"]):
                    return True
    return False


def run(ctx, R):
    F = ctx.facts()
    R.rule("RF1 liveness clones; RF3 tick after mutation; RF4 stamp sources; RF2/RF3 cc save/restore order in the dynamic handlers")
    # the saved position inside a first-argument choice sequence advances from the entry executed (dead clauses skipped)
    from . import orframe
    orframe.inner_index_advance(F, R, "C09")
    dynamic_lines_keep_their_place(F, R)
    block_choice_instruction_located_one_way(F, R)
    exhausted_sequence_drops_its_choice_point(F, R)

    # ---- R1: liveness predicate clones, crate-wide --------------------------------------------------------
    n_sites = 0
    files = ["src/machine/dispatch.rs", "src/machine/mod.rs", "src/machine/system_calls.rs", "src/machine/compile.rs",
             "src/machine/loader.rs", "src/machine/load_state.rs", "src/indexing.rs", "src/machine/machine_state_impl.rs"]
    for p, it in sorted(F.items.items()):
        if it["kind"] not in ("Fn", "AssocFn") or it["file"] not in files:
            continue
        h = F.hir(p)
        al = frozenset(cc_aliases(h["body"]))
        # group cc comparisons by their enclosing conjunction / condition
        seen_nodes = set()
        for n in walk(h["body"]):
            if n["k"] == "Binary" and n["op"] == "And":
                if id(n) in seen_nodes:
                    continue
                comps = [norm_cmp(x, al) for x in walk(n)]
                for x in walk(n):
                    seen_nodes.add(id(x))
                comps = {c for c in comps if c}
                if comps:
                    n_sites += 1
                    R.ob("C09:liveness:%s@%d" % (short(p), n["ln"] - it["line"]), comps == ORACLE_LIVE,
                         "liveness test is %s; every clone must be birth < cc && Finite(cc) <= death (%s)" % (sorted(comps), sorted(ORACLE_LIVE)),
                         "%s (line %s)" % (F.where(p), n["ln"]))
                    R.sample({"fn": short(p), "line": n["ln"], "test": sorted(map(list, comps))})
        for n in walk(h["body"]):
            if id(n) in seen_nodes:
                continue
            c = norm_cmp(n, al)
            if c:
                n_sites += 1
                R.ob("C09:liveness:%s@%d:lone" % (short(p), n["ln"] - it["line"]), False,
                     "comparison with the call generation outside the two-sided liveness conjunction: %s" % (c,), "%s (line %s)" % (F.where(p), n["ln"]))
    R.floor("liveness test sites", n_sites, 6)

    # ---- R2: tick after each database mutation --------------------------------------------------------------
    mutators = {"incremental_compile_clause": None, "retract_dynamic_clause": None}
    # functions that perform a user-visible mutation of a dynamic predicate and must tick
    MUST_TICK = {
        "machine::loader::<impl machine::Machine>::compile_assert::{closure#1}": "incremental_compile_clause",
        "machine::loader::<impl machine::Machine>::retract_clause::{closure#0}": "retract_dynamic_clause",
    }
    callers = {}
    for p, cs in F.calls.items():
        for c in cs:
            t = c.get("resolved") or c.get("callee") or ""
            for mname in mutators:
                if t.endswith("::" + mname):
                    callers.setdefault(p, set()).add(mname)
    # table of all callers with dispositions (others are load-time paths that tick in compile_and_submit or are not dynamic)
    DISPOSITION = {
        "machine::loader::<impl machine::Machine>::add_term_expansion_clause::{closure#0}": "term_expansion/2 hook store: internal, ticks not observable by user dynamic predicates",
        "machine::loader::<impl machine::Machine>::add_goal_expansion_clause::{closure#0}": "goal_expansion/2 hook store: internal",
        "machine::compile::<impl machine::loader::Loader<'a, LS>>::compile_clause_clauses": "'$clause' shadow clauses; caller ticks",
        "machine::compile::<impl machine::loader::Loader<'a, LS>>::compile_and_submit": "consult path: ticks once per submitted dynamic predicate (checked below)",
        "machine::load_state::<impl machine::loader::Loader<'a, LS>>::retract_local_clauses_by_locs": "reconsult path: clauses removed while no goal of the predicate can be running in this load; stamped through retract_dynamic_clause",
    }
    for p in sorted(callers):
        if p in MUST_TICK:
            mir = F.mir(p)
            g = CFG(mir)
            calls = g.call_blocks(lambda t: callee_of(t).endswith("::" + MUST_TICK[p]))
            ticks = {i for i, b in enumerate(mir["blocks"]) if any(".global_clock" in (s.get("l") or []) and s["rv"]["k"] == "BinaryOp" and s["rv"]["op"].startswith("Add") for s in b["s"])}
            errs = set(g.call_blocks(lambda t: "from_residual" in callee_of(t)))
            if not calls:
                raise AnchorLost("%s: mutator call not found" % p)
            for cb in calls:
                ok, wit = g.must_pass(cb, ticks | errs)
                R.ob("C09:tick-after:%s" % short(p), ok and bool(ticks),
                     "after %s every non-error path to return must increment global_clock (witness return block %s)" % (MUST_TICK[p], wit), F.where(p))
        elif p in DISPOSITION:
            R.ob("C09:mutator-caller:%s" % short(p), True, "listed: " + DISPOSITION[p], F.where(p))
        else:
            R.ob("C09:mutator-caller:%s" % short(p), False,
                 "new caller of %s: it changes a clause database without a recorded clock discipline" % sorted(callers[p]), F.where(p))
    R.floor("database mutator callers", len(callers), 6)
    cs = "machine::compile::<impl machine::loader::Loader<'a, LS>>::compile_and_submit"
    mir = F.mir(cs)
    ticks = [i for i, b in enumerate(mir["blocks"]) if any(".global_clock" in (s.get("l") or []) for s in b["s"])]
    R.ob("C09:tick:compile_and_submit", len(ticks) >= 1, "consulting a dynamic predicate must tick the clock", F.where(cs))

    # ---- R3: stamp sources ------------------------------------------------------------------------------------
    n_fin = 0
    for p, it in sorted(F.items.items()):
        if it["kind"] not in ("Fn", "AssocFn") or not it["file"].startswith("src/"):
            continue
        if it["file"] not in files + ["src/codegen.rs"]:
            continue
        h = F.hir(p)
        for n in walk(h["body"]):
            if n["k"] == "Call" and (n.get("ctor") or "").endswith("Death::Finite"):
                n_fin += 1
                al = cc_aliases(h["body"]) | cc_aliases(h["body"], "global_clock")
                src_ok = field_named(n, "cc") or field_named(n, "global_clock") or any(x["k"] == "Path" and res_name(x) in al for x in walk(n))
                R.ob("C09:death-stamp:%s@%d" % (short(p), n["ln"] - it["line"]), src_ok,
                     "Death::Finite(..) must be built from the clock (retraction) or from cc (liveness test)", "%s (line %s)" % (F.where(p), n["ln"]))
    R.floor("Death::Finite constructions", n_fin, 7)

    # ---- R4: cc discipline in the three handlers ---------------------------------------------------------------
    m, arms, wild = repo.dispatch_arms(F)
    dl = repo.dispatch_loop(F)
    dlh = F.hir(dl)
    handlers = {}
    for v in ("DynamicElse", "DynamicInternalElse"):
        a = arms.get(v, [])
        if len(a) != 1:
            raise AnchorLost("dispatch arm %s: %d" % (v, len(a)))
        handlers[v] = a[0]
    for mm in matches_in(dlh["body"], src=None):
        for arm in mm["arms"]:
            for leaf in pat_leaves(arm["pat"]):
                if (res_name(repo.strip_ref(leaf)) or "").endswith("IndexingLine::DynamicIndexedChoice"):
                    if any(LIVE_RX.search(r) for _, r, _ in hir_calls(arm["body"])):
                        handlers["DynamicIndexedChoice"] = arm
    if len(handlers) != 3:
        raise AnchorLost("dynamic handlers found: %s" % sorted(handlers))
    for name, arm in handlers.items():
        where = "%s:%s dispatch_loop handler %s" % (F.items[dl]["file"], arm["ln"], name)
        sts = stmts_of(arm["body"])
        first = None
        for i, s in enumerate(sts):
            if any(LIVE_RX.search(r) for _, r, _ in hir_calls(s)):
                first = i
                break
        if first is None:
            raise AnchorLost("%s: no liveness call" % name)
        restored = any(next_mode_restore(F, s) for s in sts[:first])
        R.ob("C09:cc-restore-before-use:%s" % name, restored,
             "on re-entry by backtracking (dynamic_mode == Next) cc must be reloaded from the choice point before the first "
             "find_living_dynamic* call; otherwise the test runs with the generation of whatever dynamic predicate was called last", where)
        # clock read only under First
        for n in walk(arm["body"]):
            pass

        def rec(n, anc):
            if isinstance(n, list):
                for x in n:
                    rec(x, anc)
                return
            if not isinstance(n, dict):
                return
            if n.get("k") == "Assign" and n["lhs"]["k"] == "Field" and n["lhs"]["name"] == "cc" and field_named(n["rhs"], "global_clock"):
                under_first = False
                for node, key in reversed(anc):
                    if node["k"] == "If" and node["cond"]["k"] == "LetCond" and key == "then" and mode_pattern(node["cond"]["pat"]) == {"First"}:
                        under_first = True
                    if node["k"] == "Arm" and key == "body" and mode_pattern(node["pat"]) == {"First"}:
                        under_first = True
                R.ob("C09:clock-read-only-on-first-call:%s@%d" % (name, n["ln"] - arm["ln"]), under_first,
                     "cc = global_clock outside a FirstOrNext::First branch: a retry would forget the generation of its call", where)
                # and only the predicate's OUTER entry (DynamicElse) may take a new generation: the inner handlers
                # (DynamicInternalElse, the indexed choice) are also entered in First mode when a call that is already
                # running walks into the next clause group, and must keep the generation it started with
                R.ob("C09:generation-taken-at-predicate-entry-only:%s" % name, name == "DynamicElse",
                     "the %s handler assigns cc = global_clock: a call that backtracks from one clause group into the next one (first argument unbound) would take the "
                     "current generation there and see clauses asserted, or miss clauses retracted, since it started (p(a,1). p(_,2). p(b,3). with an assertz between the groups)"
                     % name, where)
            if "k" in n:
                for key, v in n.items():
                    if isinstance(v, (dict, list)):
                        rec(v, anc + [(n, key)])
            else:
                for v in n.values():
                    if isinstance(v, (dict, list)):
                        rec(v, anc)

        rec(arm["body"], [])
        # save: the block that creates the choice point pushes cc as the extra argument
        saved = False
        for b in walk(arm["body"]):
            if b["k"] != "Block":
                continue
            ss = b["stmts"]
            idx = [i for i, s in enumerate(ss) if any(re.search(r"Machine>?::(try_me_else|indexed_try)$", r) for _, r, _ in hir_calls(s))]
            if not idx:
                continue
            i = idx[0]
            pre, post = ss[:i], ss[i + 1:]
            push = any(s["k"] == "Assign" and s["lhs"]["k"] == "Index" and field_named(s["lhs"], "registers") and field_named(s["lhs"]["idx"], "num_of_args") and field_named(s["rhs"], "cc") for s in pre)
            inc = any(s["k"] == "AssignOp" and s["op"].startswith("Add") and field_named(s["lhs"], "num_of_args") for s in pre)
            dec = any(s["k"] == "AssignOp" and s["op"].startswith("Sub") and field_named(s["lhs"], "num_of_args") for s in post)
            if push and inc and dec:
                saved = True
        R.ob("C09:cc-saved-with-choice-point:%s" % name, saved,
             "the handler must store cc in registers[num_of_args+1], bump num_of_args around try_me_else/indexed_try, and restore it", where)

    # ---- R4: a call iterating the clauses of one first-argument key holds a *position* in that key's clause sequence
    # (the inner index pointer saved with its choice point). The sequence may therefore only grow at the back while such
    # a call can be alive: an insertion at the front shifts every saved position
    ex = [p for p, it in F.items.items() if p.endswith("::extend_indexed_choice") and it["file"] == "src/indexing.rs"]
    if len(ex) != 1:
        raise AnchorLost("indexing.rs extend_indexed_choice: %s" % ex)
    eh = F.hir(ex[0])
    dyn_arms = []
    for m in matches_in(eh["body"], src=None):
        for arm in m["arms"]:
            if any((pat_variant(q) or "").endswith("IndexingLine::DynamicIndexedChoice") for q in pat_leaves(arm["pat"])):
                dyn_arms.append(arm)
    if not dyn_arms:
        raise AnchorLost("extend_indexed_choice: no arm for IndexingLine::DynamicIndexedChoice")
    fronts = [n for a in dyn_arms for _, r, n in hir_calls(a["body"]) if re.search(r"VecDeque::<.*>::push_front$|VecDeque<.*>::push_front$", r)]
    R.ob(PREPEND_FINDING_KEY, not fronts,
         "extend_indexed_choice inserts at the FRONT of a DynamicIndexedChoice sequence (asserta/1 on a key that already has clauses), but a call that is iterating the "
         "sequence remembers its place as an index from the front: after asserta the saved index points one clause back. q(a,1). q(a,2). "
         "?- findall(X, (q(a,X), (X==1, \\+ q(a,0) -> asserta(q(a,0)) ; true)), L). gives [1,1,2]; without the \\+ guard the call never terminates", F.where(ex[0]))

    # ---- R5: locating the first clause of an indexed block (incremental compilation, src/machine/compile.rs) --------
    # (a) `clause_start - 2` is the block's leading choice instruction only for the clause the block was created with; a
    # dynamic predicate's first clause can be retracted while its code stays. Uses of that arithmetic are a closed table.
    BLOCK_START_ARITH = {
        "compile::merge_indexed_subsequences": 1,
        "compile::prepend_compiled_clause": 3,
        "Loader<'a, LS>::retract_clause": 5,
    }
    seen = {}
    for p, it in sorted(F.items.items()):
        if it["file"] != "src/machine/compile.rs" or it["kind"] not in ("Fn", "AssocFn"):
            continue
        try:
            ph = F.hir(p)
        except AnchorLost:
            continue
        c = 0
        for x in walk(ph["body"]):
            if x["k"] == "Binary" and x["op"] == "Sub" and x["b"]["k"] == "Lit" and str(x["b"].get("lit", {}).get("int")) == "2" \
                    and any(y["k"] == "Field" and y["name"] == "clause_start" for y in walk(x["a"])) or \
               x["k"] == "Binary" and x["op"] == "Sub" and x["b"]["k"] == "Lit" and str(x["b"].get("lit", {}).get("int")) == "2" \
                    and x["a"]["k"] == "Path" and "clause_start" in (res_name(x["a"]) or ""):
                c += 1
        if c:
            seen[short(p)] = c
    R.notes.append("clause_start - 2 sites: %s" % seen)
    for fn_, c in sorted(seen.items()):
        R.ob("C09:block-start-by-arithmetic:%s" % fn_, c <= BLOCK_START_ARITH.get(fn_, 0),
             "%s computes a block's leading choice instruction as `clause_start - 2` at %d site(s) (table allows %d): that location is right only for the clause the block "
             "was created with; after a retract of that clause of a dynamic predicate it falls into dead code (assertz(q(a,1)), assertz(q(b,2)), retract(q(a,1)), assertz(q(_,9)) "
             "hit unreachable code). Take the location from the block's indexing instruction (switch_on_term_loc() - 1)" % (fn_, c, BLOCK_START_ARITH.get(fn_, 0)), "src/machine/compile.rs")
    # (b) the search for the block's first clause among the asserta'd clauses validates its hit
    lb = [p for p in F.items if p.endswith("compile::lower_bound_of_target_clause")]
    if len(lb) != 1:
        raise AnchorLost("compile::lower_bound_of_target_clause: %s" % lb)
    lh = F.hir(lb[0])
    # membership in the block = "names the block's indexing instruction": the search must decide by that, per candidate
    # clause — either inside the search predicate (closure handed to partition_point / a loop condition) or by validating
    # a hit found by address comparison. A search that only compares clause addresses with the instruction's address
    # fails for blocks that span the asserta'd and the assertz'd region of the skeleton.
    by_membership = False
    for n in walk(lh["body"]):
        if n["k"] == "Closure" and any(y["k"] == "MethodCall" and y["name"] == "switch_on_term_loc" for y in walk(n["body"])):
            by_membership = True
        if n["k"] == "Loop" and any(y["k"] == "MethodCall" and y["name"] == "switch_on_term_loc" for y in walk(n.get("body") or {})) \
                and any(y["k"] == "Index" for y in walk(n.get("body") or {})):
            # a walk over candidates `skeleton.clauses[i].…switch_on_term_loc() == Some(index_loc)`
            by_membership = by_membership or _candidate_test(n)
        # (validating the hit of an address search afterwards is not enough: the address search itself misses blocks
        # that span both regions)
    R.ob("C09:lower-bound:first-clause-of-block-found-by-membership", by_membership,
         "lower_bound_of_target_clause looks for the first clause of an indexed block by comparing clause addresses with the address of the block's indexing instruction only: "
         "for a block among the assertz'd clauses the search among the asserta'd ones stops at 0 (asserta(q(_,1)), asserta(q(f(_),2)), assertz(q(c,3)), assertz(q(d,4)) "
         "enumerates [2,4,1,3]), and a block that spans both regions loses its first clauses (assertz(p(1.5,1)), assertz(p([x,y],2)), asserta(p(f(1),4)), assertz(p(f(1),5)): "
         "p(f(1),N) gives only 5)", F.where(lb[0]))


def _candidate_test(n):
    """the condition compares the indexing location of an *indexed candidate* (clauses[expr]) — not of the fixed previous
    clause — with the block's location"""
    cond = n.get("cond") or n.get("body") or {}
    for y in walk(cond):
        if y["k"] == "Binary" and y["op"] in ("Eq", "Ne") and any(z["k"] == "MethodCall" and z["name"] == "switch_on_term_loc" for z in walk(y)):
            return True
    return False


def dynamic_lines_keep_their_place(F, R):
    """A call iterating the clauses of one first-argument key saves the LINE of the key's choice sequence in its choice
    point (oip). Lines of a dynamic predicate's indexing code may therefore never move. The only movers are the two
    internalize_* helpers, which swap a choice sequence that SwitchOnTerm points at directly behind a new hash table; that
    shape must not exist for dynamic predicates: DynamicCodeIndices::switch_on emits the table as soon as one key has a
    choice sequence."""
    movers = {}
    for p, it in sorted(F.items.items()):
        if it["file"] != "src/indexing.rs" or it["kind"] not in ("Fn", "AssocFn"):
            continue
        for x in walk(F.hir(p)["body"]):
            if x["k"] == "MethodCall" and x["name"] in ("swap", "insert", "remove", "swap_remove", "rotate_left", "rotate_right") \
                    and x["recv"].get("k") == "Field" and x["recv"].get("name") == "indexing_code":
                movers.setdefault(short(p), []).append(x["name"])
    R.floor("functions that reorder indexing lines", len(movers), 2)
    for fn, ops in sorted(movers.items()):
        R.ob("C09:dynamic-index:line-mover:%s" % fn, re.search(r"::internalize_(constant|structure)$", fn) is not None,
             "%s reorders the lines of an indexing instruction (%s): only internalize_constant/internalize_structure may, and only for the shape that "
             "DynamicCodeIndices::switch_on no longer produces" % (fn, ops), fn)
    so = [p for p in F.items if p.endswith("<indexing::DynamicCodeIndices as indexing::Indexer>::switch_on")]
    if len(so) != 1:
        raise AnchorLost("DynamicCodeIndices::switch_on (%d)" % len(so))
    body = F.hir(so[0])["body"]
    emit = [n for n in walk(body) if n["k"] == "If" and any(y["k"] == "MethodCall" and y["name"] == "push_front" for y in walk(n["then"]))]
    if len(emit) != 1:
        raise AnchorLost("DynamicCodeIndices::switch_on: the `if` that emits the table (%d)" % len(emit))
    cond = emit[0]["cond"]

    def mentions_internal(n, depth=0):
        for y in walk(n):
            if "IndexingCodePtr::Internal" in json.dumps({k: v for k, v in y.items() if isinstance(v, (str, dict)) and k in ("res", "ctor", "callee", "path", "variant")}):
                return True
            if y["k"] == "Path" and depth < 3:
                nm = res_name(y)
                for z in walk(body):
                    if z["k"] == "Let" and z["pat"]["k"] == "PBind" and z["pat"]["name"] == nm and "init" in z and mentions_internal(z["init"], depth + 1):
                        return True
        return False
    R.ob("C09:dynamic-index:choice-sequence-always-behind-a-table", mentions_internal(cond),
         "DynamicCodeIndices::switch_on emits the hash table only when there are two keys: a consulted `:- dynamic(v/1). v(a). v(a).` then has its choice sequence "
         "on line 1, the first assertz of another key swaps it to the end, and a call that was iterating v(a) re-enters the switch for ever "
         "((v(a), assertz(v(b)), fail ; true) does not terminate)", F.where(so[0]))


def block_choice_instruction_located_one_way(F, R):
    """The choice instruction through which an indexed block of a dynamic predicate is entered moves when a clause is
    prepended to the block (it is then the prepended clause's, at the end of the code area); switch_on_term's variable
    offset follows it. prepend_compiled_clause finds it with find_dynamic_outer_choice_instr. append_compiled_clause must
    find it the same way: `index_loc - 1` is that instruction only until the first asserta."""
    fns = {}
    for name in ("append_compiled_clause", "prepend_compiled_clause"):
        c = [p for p in F.items if p.endswith("compile::" + name)]
        if len(c) != 1:
            raise AnchorLost("compile::%s (%d)" % (name, len(c)))
        fns[name] = c[0]
    for name, fn in sorted(fns.items()):
        body = F.hir(fn)["body"]
        uses = [x for _, r, x in hir_calls(body) if r.endswith("compile::find_dynamic_outer_choice_instr")]
        R.ob("C09:block-choice-instruction:%s:found-through-the-switch" % name, len(uses) >= 1,
             "%s does not call find_dynamic_outer_choice_instr: after an asserta into an indexed block the instruction at index_loc - 1 is a derelict, and a block "
             "threaded from it is lost by the next asserta (asserta f(_), assertz b, asserta f(a,b,c), assertz _, asserta 1: p(_,N) misses the clause of the last block)" % name, F.where(fn))
    # in append_compiled_clause `index_loc - 1` as a code location is for static predicates only
    body = F.hir(fns["append_compiled_clause"])["body"]
    bad = []

    def rec(n, guarded, in_key_arith):
        if isinstance(n, list):
            for x in n:
                rec(x, guarded, in_key_arith)
            return
        if not isinstance(n, dict):
            return
        k = n.get("k")
        if k == "If":
            dyn = any(y.get("k") == "Field" and y.get("name") == "is_dynamic" for y in walk(n["cond"]))
            rec(n["cond"], guarded, in_key_arith)
            rec(n["then"], guarded or dyn, in_key_arith)
            if "else" in n:
                rec(n["else"], guarded or dyn, in_key_arith)
            return
        if k == "AssignOp":
            rec(n.get("rhs"), guarded, True)
            return
        if k == "Binary" and n.get("op") == "Sub" and n["a"].get("k") == "Path" and res_name(n["a"]) == "index_loc" and n["b"].get("k") == "Lit" and n["b"].get("lit", {}).get("int") == "1":
            if not guarded and not in_key_arith:
                bad.append(n["ln"])
        for kk, v in n.items():
            if kk != "mac" and isinstance(v, (dict, list)):
                rec(v, guarded, in_key_arith)
    rec(body, False, False)
    R.ob("C09:block-choice-instruction:append_compiled_clause:index_loc-minus-one-only-for-static", not bad,
         "append_compiled_clause uses `index_loc - 1` as the location of the block's choice instruction without asking is_dynamic (lines %s)" % bad, F.where(fns["append_compiled_clause"]))


def exhausted_sequence_drops_its_choice_point(F, R):
    """try_me_else / indexed_try / retry keep a choice point for a later clause that is applicable by its first argument;
    the clause may be a retracted one. When the call comes back and find_living_dynamic[_else] finds nothing alive, the
    handler must remove that choice point before it fails — backtrack() re-enters the frame at b. Holds for the three
    dynamic handlers (DynamicElse, DynamicInternalElse, the first-argument choice sequence)."""
    dl = repo.dispatch_loop(F)
    h = F.hir(dl)

    def pops(body):
        a = [x for x in walk(body) if x["k"] == "Assign" and x["lhs"].get("k") == "Field" and x["lhs"].get("name") == "b"
             and any(y.get("k") == "Field" and y.get("name") == "prelude" for y in walk(x["rhs"]))]
        t = [x for x in walk(body) if x["k"] == "MethodCall" and x["name"] == "truncate" and any(y.get("k") == "Field" and y.get("name") == "stack" for y in walk(x["recv"]))]
        return bool(a) and bool(t)
    helpers = [p for p, it in F.items.items() if it["file"] == "src/machine/dispatch.rs" and it["kind"] == "AssocFn" and pops(F.hir(p)["body"])
               and len(list(walk(F.hir(p)["body"]))) < 80]
    found = []
    for m in matches_in(h["body"], src=None):
        sc = m["scrut"]
        if sc.get("k") != "MethodCall" or sc.get("name") not in ("find_living_dynamic", "find_living_dynamic_else"):
            continue
        if any(a.get("k") not in ("Field", "Path") for a in sc.get("args", [])):
            continue        # a look-ahead (p + next_i, ii + 1): decides retry against trust, not the handler's own clause
        found.append(m)
    R.floor("dynamic handlers that look for a living clause", len(found), 3)
    for k, m in enumerate(found):
        none_arms = [a for a in m["arms"] if any((pat_variant(l) or "").endswith("None") for l in pat_leaves(a["pat"]))]
        if len(none_arms) != 1:
            raise AnchorLost("%s match #%d: None arm (%d)" % (m["scrut"]["name"], k, len(none_arms)))
        body = none_arms[0]["body"]
        via_helper = any(r in helpers for _, r, _ in hir_calls(body))
        trust = any(re.search(r"Machine>?::trust(_me)?$", r) for _, r, _ in hir_calls(body))
        R.ob("C09:dynamic-index:exhausted-sequence-drops-its-choice-point:%s#%d" % (m["scrut"]["name"], k), pops(body) or via_helper or trust,
             "when %s finds no living clause the handler only sets fail (line %s): the choice point that led back here stays, and backtrack() re-enters it for ever "
             "(retract the only applicable clause behind a living inapplicable one, then call with that key)" % (m["scrut"]["name"], none_arms[0]["ln"]),
             "%s (line %s)" % (F.where(dl), none_arms[0]["ln"]))
