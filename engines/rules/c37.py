"""C37 — Hashes and encodings are byte-exact (algorithm selection clause only).

Decides name agreement: in every Rust match arm keyed by an algorithm atom (crypto_data_hash,
crypto_hmac, HKDF, ...) the hasher type / ring constant constructed in that arm is the one the
atom names, the set of algorithm atoms equals the hash_algorithm/1 facts of src/lib/crypto.pl
(the Prolog-side validation), and the (padding, charset) option atoms of chars_base64/3 select
the matching base64 engine. Byte-level results are the libraries' (trusted).
"""
import os
import re

from .core import AnchorLost, REPO, atom_of, matches_in, pat_leaves, res_name, short, walk

import sys
sys.path.insert(0, os.path.dirname(os.path.dirname(os.path.abspath(__file__))))
from plread import plread as P  # noqa: E402

EXPLANATION = (
    "RF9 name/implementation agreement over the typed HIR of the crypto system calls (feature "
    "configuration with ring enabled): per atom-keyed arm, the algorithm identifiers appearing in the "
    "resolved paths of the arm body must normalise to the atom; RF9 agreement with the hash_algorithm/1 "
    "facts read from src/lib/crypto.pl by plread; RF9 base64 option table."
)
ASSUMPTIONS = ["sha3, blake2, ripemd, ring and base64 crates implement the named algorithms correctly"]
DEFAULT_CONFIG_ONLY = True   # half of the algorithm arms exist only with the crypto-full feature (ring)

ALG_RX = re.compile(r"(sha3_?\d{3}|sha_?\d{3}(?:_\d{3})?|blake2[sb]_?\d{3}|ripemd_?\d{3})", re.I)


def norm(s):
    return s.lower().replace("_", "")


def ids_in(node):
    out = set()
    for n in walk(node):
        for key in ("callee", "inst", "resolved", "ctor", "ty"):
            v = n.get(key)
            if v:
                for m in ALG_RX.finditer(v):
                    out.add(norm(m.group(1)))
                # blake2 type aliases are resolved away: Blake2s256 = CoreWrapper<CtVariableCoreWrapper<Blake2sVarCore, U32>>,
                # the output size being a typenum (UInt<..UTerm, B1>, B0>..) number of bytes
                for m in re.finditer(r"Blake2([sb])VarCore, ((?:blake2::digest::typenum::UInt<)+)blake2::digest::typenum::UTerm((?:, blake2::digest::typenum::B[01]>)+)", v):
                    bits = re.findall(r"B([01])", m.group(3))
                    out.add("blake2%s%d" % (m.group(1), int("".join(bits), 2) * 8))
        r = res_name(n)
        if r:
            for m in ALG_RX.finditer(r.rsplit("::", 1)[-1]):
                out.add(norm(m.group(1)))
    return out


def subterms(t):
    yield t
    if t[0] == "cmp":
        for a in t[2]:
            yield from subterms(a)


def _bound(goal, var):
    """Exclusive upper bound stated by `{Var < B}` in any of the four spellings."""
    if goal[0] != "cmp" or len(goal[2]) != 2:
        return None
    a, b = goal[2]
    if a != var or b[0] != "int":
        return None
    if goal[1] in ("<", "@<"):
        return b[1]
    if goal[1] in ("=<", "@=<"):
        return b[1] + 1
    return None


def utf8_tables(R):
    """chars_utf8bytes/2: the encoder's (range, lead byte, length) table and the decoder's (mask, pattern, length)
    table are those of RFC 3629, and the two agree. The constants are in the clause text, so this is table
    agreement (RF9), not a run of the encoder."""
    rel = "src/lib/charsio.pl"
    text = open(os.path.join(REPO, rel)).read()
    enc, lead, cont, encode_rec = [], {}, [], []
    for t, line in P.read_clauses(text):
        if t[0] != "cmp" or t[1] != "-->" or len(t[2]) != 2:
            continue
        head, body = t[2]
        f = P.functor(head)
        items = P.conj(body)
        braces = [g for it in items if it[0] == "cmp" and it[1] == "{}" for g in P.conj(it[2][0])]
        if f == ("code_to_utf8", 1):
            var = head[2][0]
            bs = [b for b in (_bound(g, var) for g in braces) if b is not None]
            n = pre = None
            for it in items:
                if P.functor(it) == ("encode", 3) and it[2][0] == var and it[2][1][0] == "int" and it[2][2][0] == "int":
                    pre, n = it[2][1][1], it[2][2][1]
                elif P.list_items(it) == [var]:
                    n = 1
            enc.append({"line": line, "bound": bs[0] if len(bs) == 1 else None, "n": n, "prefix": pre, "cut": ("atom", "!") in items})
        elif f == ("encode", 3) and head[2][2][0] == "var":
            encode_rec.append((line, braces, items, head))
        elif f == ("leading", 2) and head[2][0][0] == "int":
            n = head[2][0][1]
            mask = pat = sub = None
            for g in braces:
                if g[0] == "cmp" and g[1] == "=:=" and g[2][0][0] == "cmp" and g[2][0][1] == "/\\" and g[2][1][0] == "int":
                    m = [a for a in g[2][0][2] if a[0] == "int"]
                    if len(m) == 1:
                        mask, pat = m[0][1], g[2][1][1]
                if g[0] == "cmp" and g[1] == "is" and g[2][1][0] == "cmp" and g[2][1][1] == "-" and len(g[2][1][2]) == 2 and g[2][1][2][1][0] == "int":
                    sub = g[2][1][2][1][1]
            if mask is not None:
                lead.setdefault(n, []).append({"line": line, "mask": mask, "pat": pat, "sub": sub})
        elif f == ("continuation", 3) and braces:
            cont.append((line, braces))
    if len(enc) < 2 or not lead or not cont or len(encode_rec) != 1:
        raise AnchorLost("charsio.pl: code_to_utf8//1 (%d clauses), encode//3 (%d), leading//2 (%d), continuation//3 (%d) not all recognised" % (len(enc), len(encode_rec), len(lead), len(cont)))

    def prefix(n):
        return 0 if n == 1 else 0x100 - (1 << (8 - n))

    def limit(n):
        return 0x80 if n == 1 else min(1 << (7 - n + 6 * (n - 1)), 0x110000)
    got = [(e["n"], e["bound"], e["prefix"] if e["n"] != 1 else 0) for e in enc]
    want = [(n, limit(n), prefix(n)) for n in (1, 2, 3, 4)]
    R.ob("C37:utf8:encoder-table", got == want and all(e["cut"] for e in enc),
         "code_to_utf8//1 clauses in order give (length, exclusive upper bound, lead-byte prefix, committed) = %s; RFC 3629 has %s, each clause committed"
         % ([(n, hex(b) if b is not None else None, hex(p) if p is not None else None, e["cut"]) for (n, b, p), e in zip(got, enc)], [(n, hex(b), hex(p)) for n, b, p in want]),
         "%s (line %s)" % (rel, enc[0]["line"]))
    line, braces, items, head = encode_rec[0]
    ints = lambda name, ts: [a[1] for g in ts for x in subterms(g) if x[0] == "cmp" and x[1] == name for a in x[2] if a[0] == "int"]
    shift_mul = [a[1] for g in braces for x in subterms(g) if x[0] == "cmp" and x[1] == ">>" for y in subterms(x[2][1]) if y[0] == "cmp" and y[1] == "*" for a in y[2] if a[0] == "int"]
    rec = [it[2][1][1] for it in items if P.functor(it) == ("encode", 3) and it[2][1][0] == "int"]
    R.ob("C37:utf8:encoder-continuation-bytes", shift_mul == [6] and ints("/\\", braces) == [0x3F] and rec == [0x80],
         "encode//3 shifts by %s bits per remaining byte, masks with %s and marks continuation bytes with %s; UTF-8 has 6, 0x3f, 0x80"
         % (shift_mul, [hex(x) for x in ints("/\\", braces)], [hex(x) for x in rec]), "%s (line %s)" % (rel, line))
    for n in (1, 2, 3, 4):
        ls = lead.get(n, [])
        mask = 0x80 if n == 1 else prefix(n + 1)
        okd = len(ls) == 1 and ls[0]["mask"] == mask and ls[0]["pat"] == prefix(n) and (n == 1 or ls[0]["sub"] == prefix(n))
        R.ob("C37:utf8:decoder-lead-byte:%d" % n, okd,
             "leading(%d, _) tests (mask, pattern, subtracted) = %s; a %d-byte sequence starts with a byte b where b /\\ %s =:= %s, the same prefix the encoder writes"
             % (n, [(hex(x["mask"]), hex(x["pat"]), hex(x["sub"]) if x["sub"] is not None else None) for x in ls], n, hex(mask), hex(prefix(n))),
             "%s (line %s)" % (rel, ls[0]["line"] if ls else "?"))
    cb = [b for _, b in cont if any(x[0] == "cmp" and x[1] == "<<" for g in b for x in subterms(g))]
    if len(cb) != 1:
        raise AnchorLost("charsio.pl: the continuation//3 clause that accumulates the code point was not recognised")
    b = cb[0]
    mp = [(m[0][1], g[2][1][1]) for g in b if g[0] == "cmp" and g[1] == "=:=" and g[2][0][0] == "cmp" and g[2][0][1] == "/\\" and g[2][1][0] == "int"
          for m in [[a for a in g[2][0][2] if a[0] == "int"]] if len(m) == 1]
    sh = [x[2][1][1] for g in b for x in subterms(g) if x[0] == "cmp" and x[1] == "<<" and x[2][1][0] == "int"]
    sb = [x[2][1][1] for g in b for x in subterms(g) if x[0] == "cmp" and x[1] == "-" and len(x[2]) == 2 and x[2][1][0] == "int" and x[2][1][1] > 1]
    R.ob("C37:utf8:decoder-continuation-bytes", mp == [(0xC0, 0x80)] and sh == [6] and sb == [0x80],
         "continuation//3 accepts a byte by (mask, pattern) %s, shifts the accumulated code by %s and subtracts %s; UTF-8 has (0xc0, 0x80), 6, 0x80"
         % ([(hex(m), hex(q)) for m, q in mp], sh, [hex(x) for x in sb]), rel)


def aead_siblings(F, R):
    """crypto_data_encrypt/6 followed by crypto_data_decrypt/6 returns the plaintext only if both feed the cipher the same
    associated data: the aad(..) option is turned into bytes with the encoding/1 option in BOTH builtins (the ciphertext
    itself is octets on the decrypt side). Sibling agreement on the encoding argument of string_encoding_bytes per
    argument register."""
    enc = {}
    for name in ("crypto_data_encrypt", "crypto_data_decrypt"):
        fn = F.find_impl("Machine", None, name)
        got = {}
        for x in walk(F.hir(fn)["body"]):
            if x["k"] == "MethodCall" and x["name"] == "string_encoding_bytes" and len(x.get("args", [])) == 2:
                reg = [y for y in walk(x["args"][0]) if y["k"] == "Index"]
                idx = reg[0].get("idx") or reg[0].get("index") if reg else None
                k = (idx or {}).get("lit", {}).get("int") if idx and idx.get("k") == "Lit" else None
                a = x["args"][1]
                kind = "option" if a["k"] == "Path" else ("literal:" + (atom_of(a) or "?"))
                got[k] = kind
        enc[name] = (fn, got)
    e, d = enc["crypto_data_encrypt"][1], enc["crypto_data_decrypt"][1]
    if "2" not in e or "2" not in d:
        raise AnchorLost("crypto_data_encrypt/decrypt: the aad argument (register 2) is not decoded with string_encoding_bytes (%s / %s)" % (e, d))
    R.ob("C37:aead:associated-data-decoded-alike-in-encrypt-and-decrypt", e["2"] == d["2"] == "option",
         "crypto_data_encrypt decodes the aad with %s, crypto_data_decrypt with %s: both must use the encoding/1 option, or a text with non-ASCII characters given as aad "
         "authenticates on one side only and the system cannot decrypt its own ciphertext" % (e["2"], d["2"]), F.where(enc["crypto_data_decrypt"][0]))
    R.ob("C37:aead:ciphertext-is-octets-plaintext-follows-the-option", d.get("1") == "literal:octet" and e.get("1") == "option",
         "plaintext is decoded with %s on the encrypt side (must be the encoding/1 option), ciphertext with %s on the decrypt side (must be octet)" % (e.get("1"), d.get("1")),
         F.where(enc["crypto_data_encrypt"][0]))


def run(ctx, R):
    F = ctx.facts()
    R.rule("RF9 algorithm atom <-> hasher type/constant per arm; RF9 crypto.pl hash_algorithm/1 facts; RF9 base64 engine table")
    fns = [p for p, it in F.items.items() if it["file"] == "src/machine/system_calls.rs" and it["kind"] in ("Fn", "AssocFn") and re.search(r"::crypto_", p)]
    R.floor("crypto system calls", len(fns), 8)
    rust_algs = {}
    n_arms = 0
    for fn in sorted(fns):
        h = F.hir(fn)
        for m in matches_in(h["body"], src=None):
            for arm in m["arms"]:
                for leaf in pat_leaves(arm["pat"]):
                    at = atom_of(leaf)
                    if at is None or not ALG_RX.fullmatch(at):
                        continue
                    got = ids_in(arm["body"])
                    n_arms += 1
                    nested = {atom_of(x) for x in walk(arm["body"])} - {None}
                    if any(ALG_RX.fullmatch(x) for x in nested):
                        continue  # an outer arm that dispatches again on the algorithm
                    rust_algs.setdefault(short(fn), set()).add(at)
                    R.ob("C37:algorithm:%s:%s" % (short(fn), at), got == {norm(at)},
                         "arm for `%s` constructs %s: the implementation named in the arm must be the algorithm the atom names" % (at, sorted(got) or "nothing recognisable"),
                         "%s (line %s)" % (F.where(fn), arm["ln"]))
                    R.sample({"fn": short(fn), "atom": at, "implementation": sorted(got)})
    R.floor("algorithm arms", n_arms, 14)
    # ---- crypto.pl facts ---------------------------------------------------------------------------------
    text = open(os.path.join(REPO, "src/lib/crypto.pl")).read()
    pl_algs = set()
    for t, line in P.read_clauses(text):
        if t[0] == "cmp" and t[1] == "hash_algorithm" and len(t[2]) == 1 and t[2][0][0] == "atom":
            pl_algs.add(t[2][0][1])
    if len(pl_algs) < 5:
        raise AnchorLost("crypto.pl: hash_algorithm/1 facts not found (%s)" % sorted(pl_algs))
    hash_fn = [k for k in rust_algs if k.endswith("crypto_data_hash")]
    if len(hash_fn) != 1:
        raise AnchorLost("crypto_data_hash arms: %s" % list(rust_algs))
    ra = rust_algs[hash_fn[0]]
    R.ob("C37:hash-algorithms:prolog-equals-rust", pl_algs == ra,
         "crypto.pl accepts %s; crypto_data_hash implements %s (only in Prolog: %s; only in Rust: %s)" % (sorted(pl_algs), sorted(ra), sorted(pl_algs - ra), sorted(ra - pl_algs)), "src/lib/crypto.pl")
    utf8_tables(R)
    aead_siblings(F, R)
    # ---- base64 option table ----------------------------------------------------------------------------------
    b64 = F.find_impl("Machine", None, "chars_base64")
    h = F.hir(b64)
    table = {}
    for m in matches_in(h["body"], src=None):
        if m["scrut"]["k"] != "Tup":
            continue
        for arm in m["arms"]:
            for leaf in pat_leaves(arm["pat"]):
                if leaf["k"] != "PTuple" or len(leaf["pats"]) != 2:
                    continue
                key = tuple(atom_of(q) or "_" for q in leaf["pats"])
                eng = [(res_name(x) or "").rsplit("::", 1)[-1] for x in walk(arm["body"]) if x["k"] == "Path" and (res_name(x) or "").startswith("base64::") and "GeneralPurpose" in (x.get("ty") or "")]
                table[key] = eng
    ORACLE = {("true", "standard"): ["STANDARD"], ("true", "_"): ["URL_SAFE"], ("_", "standard"): ["STANDARD_NO_PAD"], ("_", "_"): ["URL_SAFE_NO_PAD"]}
    if not table:
        # second recognised shape: a hand-built engine configuration. In the base64 crate
        # with_encode_padding(false) does not relax decoding (DecodePaddingMode stays RequireCanonical), so an
        # engine built that way cannot decode its own unpadded output unless the decode mode is set as well.
        enc_pad = [x for x in walk(h["body"]) if x["k"] == "MethodCall" and x["name"] == "with_encode_padding"]
        dec_pad = [x for x in walk(h["body"]) if x["k"] == "MethodCall" and x["name"] == "with_decode_padding_mode"]
        if not enc_pad:
            raise AnchorLost("chars_base64: neither the four-engine table nor a GeneralPurposeConfig was recognised")
        R.ob("C37:base64:config-sets-decode-padding-with-encode-padding", len(dec_pad) >= 1,
             "chars_base64 builds its engine with with_encode_padding(..) but never sets with_decode_padding_mode(..): with padding(false) the encoder omits '=' "
             "while the decoder still requires canonical padding, so chars_base64/3 cannot decode its own output", F.where(b64))
        return
    for k, want in ORACLE.items():
        R.ob("C37:base64:padding=%s,charset=%s" % k, table.get(k) == want, "options %s select %s, table %s" % (k, table.get(k), want), F.where(b64))
