"""C37 — Hashes and encodings are byte-exact (algorithm selection clause only).

Decides name agreement: in every Rust match arm keyed by an algorithm atom (crypto_data_hash,
crypto_hmac, HKDF, ...) the hasher type / ring constant constructed in that arm is the one the
atom names, the set of algorithm atoms equals the hash_algorithm/1 facts of src/lib/crypto.pl
(the Prolog-side validation), and the (padding, charset) option atoms of chars_base64/3 select
the matching base64 engine. Byte-level results are the libraries' (trusted).
"""
import os
import re

from .core import AnchorLost, REPO, atom_of, matches_in, pat_leaves, res_name, short, walk

import sys
sys.path.insert(0, os.path.dirname(os.path.dirname(os.path.abspath(__file__))))
from plread import plread as P  # noqa: E402

EXPLANATION = (
    "RF9 name/implementation agreement over the typed HIR of the crypto system calls (feature "
    "configuration with ring enabled): per atom-keyed arm, the algorithm identifiers appearing in the "
    "resolved paths of the arm body must normalise to the atom; RF9 agreement with the hash_algorithm/1 "
    "facts read from src/lib/crypto.pl by plread; RF9 base64 option table."
)
ASSUMPTIONS = ["sha3, blake2, ripemd, ring and base64 crates implement the named algorithms correctly"]
DEFAULT_CONFIG_ONLY = True   # half of the algorithm arms exist only with the crypto-full feature (ring)

ALG_RX = re.compile(r"(sha3_?\d{3}|sha_?\d{3}(?:_\d{3})?|blake2[sb]_?\d{3}|ripemd_?\d{3})", re.I)


def norm(s):
    return s.lower().replace("_", "")


def ids_in(node):
    out = set()
    for n in walk(node):
        for key in ("callee", "inst", "resolved", "ctor", "ty"):
            v = n.get(key)
            if v:
                for m in ALG_RX.finditer(v):
                    out.add(norm(m.group(1)))
                # blake2 type aliases are resolved away: Blake2s256 = CoreWrapper<CtVariableCoreWrapper<Blake2sVarCore, U32>>,
                # the output size being a typenum (UInt<..UTerm, B1>, B0>..) number of bytes
                for m in re.finditer(r"Blake2([sb])VarCore, ((?:blake2::digest::typenum::UInt<)+)blake2::digest::typenum::UTerm((?:, blake2::digest::typenum::B[01]>)+)", v):
                    bits = re.findall(r"B([01])", m.group(3))
                    out.add("blake2%s%d" % (m.group(1), int("".join(bits), 2) * 8))
        r = res_name(n)
        if r:
            for m in ALG_RX.finditer(r.rsplit("::", 1)[-1]):
                out.add(norm(m.group(1)))
    return out


def run(ctx, R):
    F = ctx.facts()
    R.rule("RF9 algorithm atom <-> hasher type/constant per arm; RF9 crypto.pl hash_algorithm/1 facts; RF9 base64 engine table")
    fns = [p for p, it in F.items.items() if it["file"] == "src/machine/system_calls.rs" and it["kind"] in ("Fn", "AssocFn") and re.search(r"::crypto_", p)]
    R.floor("crypto system calls", len(fns), 8)
    rust_algs = {}
    n_arms = 0
    for fn in sorted(fns):
        h = F.hir(fn)
        for m in matches_in(h["body"], src=None):
            for arm in m["arms"]:
                for leaf in pat_leaves(arm["pat"]):
                    at = atom_of(leaf)
                    if at is None or not ALG_RX.fullmatch(at):
                        continue
                    got = ids_in(arm["body"])
                    n_arms += 1
                    nested = {atom_of(x) for x in walk(arm["body"])} - {None}
                    if any(ALG_RX.fullmatch(x) for x in nested):
                        continue  # an outer arm that dispatches again on the algorithm
                    rust_algs.setdefault(short(fn), set()).add(at)
                    R.ob("C37:algorithm:%s:%s" % (short(fn), at), got == {norm(at)},
                         "arm for `%s` constructs %s: the implementation named in the arm must be the algorithm the atom names" % (at, sorted(got) or "nothing recognisable"),
                         "%s (line %s)" % (F.where(fn), arm["ln"]))
                    R.sample({"fn": short(fn), "atom": at, "implementation": sorted(got)})
    R.floor("algorithm arms", n_arms, 14)
    # ---- crypto.pl facts ---------------------------------------------------------------------------------
    text = open(os.path.join(REPO, "src/lib/crypto.pl")).read()
    pl_algs = set()
    for t, line in P.read_clauses(text):
        if t[0] == "cmp" and t[1] == "hash_algorithm" and len(t[2]) == 1 and t[2][0][0] == "atom":
            pl_algs.add(t[2][0][1])
    if len(pl_algs) < 5:
        raise AnchorLost("crypto.pl: hash_algorithm/1 facts not found (%s)" % sorted(pl_algs))
    hash_fn = [k for k in rust_algs if k.endswith("crypto_data_hash")]
    if len(hash_fn) != 1:
        raise AnchorLost("crypto_data_hash arms: %s" % list(rust_algs))
    ra = rust_algs[hash_fn[0]]
    R.ob("C37:hash-algorithms:prolog-equals-rust", pl_algs == ra,
         "crypto.pl accepts %s; crypto_data_hash implements %s (only in Prolog: %s; only in Rust: %s)" % (sorted(pl_algs), sorted(ra), sorted(pl_algs - ra), sorted(ra - pl_algs)), "src/lib/crypto.pl")
    # ---- base64 option table ----------------------------------------------------------------------------------
    b64 = F.find_impl("Machine", None, "chars_base64")
    h = F.hir(b64)
    table = {}
    for m in matches_in(h["body"], src=None):
        if m["scrut"]["k"] != "Tup":
            continue
        for arm in m["arms"]:
            for leaf in pat_leaves(arm["pat"]):
                if leaf["k"] != "PTuple" or len(leaf["pats"]) != 2:
                    continue
                key = tuple(atom_of(q) or "_" for q in leaf["pats"])
                eng = [(res_name(x) or "").rsplit("::", 1)[-1] for x in walk(arm["body"]) if x["k"] == "Path" and (res_name(x) or "").startswith("base64::") and "GeneralPurpose" in (x.get("ty") or "")]
                table[key] = eng
    ORACLE = {("true", "standard"): ["STANDARD"], ("true", "_"): ["URL_SAFE"], ("_", "standard"): ["STANDARD_NO_PAD"], ("_", "_"): ["URL_SAFE_NO_PAD"]}
    if not table:
        # second recognised shape: a hand-built engine configuration. In the base64 crate
        # with_encode_padding(false) does not relax decoding (DecodePaddingMode stays RequireCanonical), so an
        # engine built that way cannot decode its own unpadded output unless the decode mode is set as well.
        enc_pad = [x for x in walk(h["body"]) if x["k"] == "MethodCall" and x["name"] == "with_encode_padding"]
        dec_pad = [x for x in walk(h["body"]) if x["k"] == "MethodCall" and x["name"] == "with_decode_padding_mode"]
        if not enc_pad:
            raise AnchorLost("chars_base64: neither the four-engine table nor a GeneralPurposeConfig was recognised")
        R.ob("C37:base64:config-sets-decode-padding-with-encode-padding", len(dec_pad) >= 1,
             "chars_base64 builds its engine with with_encode_padding(..) but never sets with_decode_padding_mode(..): with padding(false) the encoder omits '=' "
             "while the decoder still requires canonical padding, so chars_base64/3 cannot decode its own output", F.where(b64))
        return
    for k, want in ORACLE.items():
        R.ob("C37:base64:padding=%s,charset=%s" % k, table.get(k) == want, "options %s select %s, table %s" % (k, table.get(k), want), F.where(b64))
