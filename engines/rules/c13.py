"""C13 — compare/3 implements the standard order of terms.

Decides: the category order, the per-category comparison keys, the translation of the ordering
into TermPair / Option<Ordering> / the atoms < = >, and the mapping of the ordering to the seven
user predicates in every instruction variant. Not the parallel traversal itself.
"""
import re

from .core import AnchorLost, atom_of, hir_calls, matches_in, pat_leaves, res_name, short, walk
from . import repo

EXPLANATION = (
    "Oracle-table agreement (RF9) and sibling agreement (RF1) over the typed HIR: declaration order "
    "of TermOrderCategory (derived Ord), tag->category table of HeapCellValue::order_category, the "
    "type of the key compared in each category arm of ParallelHeapIter::next ((arity,name) tuples "
    "for compounds, Atom via textual Ord, Number, OrderedFloat), the Ordering->TermPair->"
    "Option<Ordering>->atom translations, and the outcome sets of the 24 term-comparison dispatch "
    "arms. Argument traversal order inside ParallelHeapIter is not decided."
)
ASSUMPTIONS = ["derived Ord on a fieldless enum follows declaration order (rustc)", "str::cmp is byte-wise = code-point order for UTF-8"]

CATS = ["Variable", "FloatingPoint", "Integer", "Atom", "Compound"]
TAG = "types::HeapCellValueTag::"
CAT = "machine::machine_indices::TermOrderCategory::"

TERM_ORACLE = {
    "TermLessThan": {"Less"},
    "TermLessThanOrEqual": {"Less", "Equal"},
    "TermGreaterThan": {"Greater"},
    "TermGreaterThanOrEqual": {"Greater", "Equal"},
    "TermEqual": {"Equal"},
    "TermNotEqual": {"Less", "Greater", "None"},
}
PREFIXES = ["Call", "Execute", "DefaultCall", "DefaultExecute"]


def cats_in(node):
    out = set()
    for n in walk(node):
        rn = n.get("ctor") or res_name(n) or ""
        if rn.startswith(CAT):
            out.add(rn[len(CAT):])
    return out


def eval_arity_if(node, arity):
    """Category produced by an expression of the shape `if arity <op> 0 {A} else {B}` (possibly
    wrapped in Some(..)/blocks) for a concrete arity; None if the shape is not recognised."""
    for n in walk(node):
        if n["k"] == "If":
            c = n["cond"]
            if c["k"] == "Binary" and c["b"]["k"] == "Lit" and "int" in c["b"]["lit"] and c["a"]["k"] == "Path":
                k = int(c["b"]["lit"]["int"])
                op = c["op"]
                t = {"Gt": arity > k, "Ge": arity >= k, "Eq": arity == k, "Ne": arity != k, "Lt": arity < k, "Le": arity <= k}.get(op)
                if t is None:
                    return None
                br = n["then"] if t else n.get("else")
                cs = cats_in(br) if br else set()
                return cs
            return None
    return None


def run(ctx, R):
    F = ctx.facts()
    R.rule("RF9 category order/table, RF1 per-category key types, RF9 ordering translations, RF9 24 dispatch arms")

    # 0. "T1 == T2 holds iff compare gives =": the traversal skips a pair it has already visited (cyclic terms). The
    # visited set must identify a pair by the compared *cells* (tag + location): a packed-string location is a byte offset,
    # a list/structure location a cell index, so two bare numbers of different kinds of pair can coincide and an unequal
    # pair would be skipped as "visited"
    st = [s for s in F.types["structs"] if s["path"].endswith("heap_iter::ParallelHeapIter")]
    if len(st) != 1:
        raise AnchorLost("struct ParallelHeapIter")
    vis = [t for f_, t in st[0]["fields"] if re.search(r"IndexSet<|HashSet<|BTreeSet<", t)]
    if len(vis) != 1:
        raise AnchorLost("ParallelHeapIter: visited-pair set field (%s)" % vis)
    R.ob("C13:visited-pairs:keyed-by-tagged-cells", "(types::HeapCellValue, types::HeapCellValue)" in vis[0] and "usize" not in vis[0],
         "ParallelHeapIter remembers visited pairs as %s: bare locations of different kinds (byte offsets of packed strings, cell indices of lists) collide, and "
         "compare(O, g(S1,L1), g(S2,L2)) reports = for different lists at the colliding cells" % vis[0], "%s:%s" % (st[0]["file"], st[0]["line"]))

    # 1. enum order + derived Ord
    en = F.enum("machine_indices::TermOrderCategory")
    names = [v["name"] for v in en["variants"]]
    R.ob("C13:TermOrderCategory:declaration-order", names == CATS, "declared %s, standard order %s" % (names, CATS), "%s:%s" % (en["file"], en["line"]))
    for tr in ("std::cmp::Ord", "std::cmp::PartialOrd"):
        imps = [i for i in F.types["impls"] if i["self_ty"].endswith("machine_indices::TermOrderCategory") and i.get("trait") == tr]
        R.ob("C13:TermOrderCategory:derives:%s" % tr.rsplit("::", 1)[1], len(imps) == 1 and imps[0]["derived"],
             "impls: %s" % [(i.get("trait"), i["derived"]) for i in imps], "%s:%s" % (en["file"], en["line"]))

    # 2. order_category table
    oc = F.find_impl("HeapCellValue", None, "order_category")
    h = F.hir(oc)
    tms = [m for m in matches_in(h["body"], src=None) if m["scrut"].get("ty") == "types::HeapCellValueTag"]
    if len(tms) != 1:
        raise AnchorLost("order_category: expected one tag match, found %d" % len(tms))
    table = {}
    wild_cats = set()
    for arm in tms[0]["arms"]:
        for leaf in pat_leaves(arm["pat"]):
            rn = res_name(leaf) or ""
            if rn.startswith(TAG):
                table[rn[len(TAG):]] = arm
            elif leaf["k"] == "PWild":
                wild_cats |= cats_in(arm["body"])
    simple = {"Var": "Variable", "StackVar": "Variable", "AttrVar": "Variable", "F64Offset": "FloatingPoint",
              "Fixnum": "Integer", "CutPoint": "Integer", "Lis": "Compound", "PStrLoc": "Compound"}
    for tag, cat in simple.items():
        arm = table.get(tag)
        got = cats_in(arm["body"]) if arm else None
        R.ob("C13:order_category:%s" % tag, got == {cat}, "tag %s -> %s, oracle {%s}" % (tag, got, cat), F.where(oc))
    for tag in ("Atom", "Str"):
        arm = table.get(tag)
        if not arm:
            R.ob("C13:order_category:%s" % tag, False, "no arm", F.where(oc))
            continue
        z, p = eval_arity_if(arm["body"], 0), eval_arity_if(arm["body"], 3)
        R.ob("C13:order_category:%s:arity0" % tag, z == {"Atom"}, "arity 0 -> %s, oracle {Atom}" % z, F.where(oc))
        R.ob("C13:order_category:%s:arity>0" % tag, p == {"Compound"}, "arity 3 -> %s, oracle {Compound}" % p, F.where(oc))
    arm = table.get("Cons")
    if arm:
        ams = [m for m in matches_in(arm["body"], src=None) if "ArenaHeaderTag" in (m["scrut"].get("ty") or "")]
        got = {}
        for m in ams:
            for a in m["arms"]:
                for leaf in pat_leaves(a["pat"]):
                    rn = res_name(leaf) or ""
                    if "ArenaHeaderTag::" in rn:
                        got[rn.rsplit("::", 1)[1]] = cats_in(a["body"])
        for t in ("Integer", "Rational"):
            R.ob("C13:order_category:Cons:%s" % t, got.get(t) == {"Integer"}, "arena %s -> %s, oracle {Integer}" % (t, got.get(t)), F.where(oc))
    else:
        R.ob("C13:order_category:Cons", False, "no arm", F.where(oc))
    R.ob("C13:order_category:default-is-uncategorised", not wild_cats, "wildcard arm yields %s" % wild_cats, F.where(oc))

    # 3. per-category comparison keys in ParallelHeapIter::next
    nx = F.find_impl("ParallelHeapIter", "std::iter::Iterator", "next")
    nh = F.hir(nx)
    cm = None
    for m in matches_in(nh["body"], src=None):
        ks = set()
        for arm in m["arms"]:
            for n in walk(arm["pat"]):
                rn = res_name(n) or ""
                if rn.startswith(CAT):
                    ks.add(rn[len(CAT):])
        if len(ks) >= 4:
            cm = m
    if cm is None:
        raise AnchorLost("ParallelHeapIter::next: category match not found")
    want_ty = {"FloatingPoint": {"ordered_float::OrderedFloat<f64>"}, "Integer": {"forms::Number"},
               "Atom": {"atom_table::Atom"}, "Compound": {"(usize, atom_table::Atom)"}, "Variable": set()}
    ntup = 0
    for arm in cm["arms"]:
        cat = None
        for n in walk(arm["pat"]):
            rn = res_name(n) or ""
            if rn.startswith(CAT):
                cat = rn[len(CAT):]
        if cat is None:
            continue
        tys = set()
        for callee, res, c in hir_calls(arm["body"]):
            if res.endswith("::parallel_cmp"):
                a0, a1 = c["args"][0], c["args"][1]
                tys.add(a0.get("ty"))
                tys.add(a1.get("ty"))
                if cat == "Compound":
                    for a in (a0, a1):
                        if a["k"] == "Tup":
                            ntup += 1
                            e0, e1 = a["elems"]
                            if e0["k"] == "Lit":
                                at = None
                                for s in walk(e1):
                                    at = atom_of(s) or at
                                R.ob("C13:compound-key:list-as-./2:%s" % c["ln"], e0["lit"].get("int") == "2" and at == ".",
                                     "list cells compare as (%s, %s), oracle (2, '.')" % (e0["lit"], at), "%s:%s" % (F.items[nx]["file"], c["ln"]))
        R.ob("C13:category-key:%s" % cat, tys == want_ty[cat],
             "category %s compares keys of type %s, oracle %s" % (cat, sorted(map(str, tys)), sorted(want_ty[cat])), F.where(nx))
    R.floor("compound key tuples", ntup, 10)

    # argument order: the comparison stack is LIFO, so within one compound branch the pair pushed LAST
    # must be the pair of first arguments (list head / structure argument 1 / first character)
    ARG_ORDER_EXCEPTIONS = {
        ("Str", "Lis"): "structure-vs-list branch pushes head first and tail last (compares tails first). It needs a '.'/2 *structure* cell, and no "
                        "construction of one was found (functor/3, =../2, the reader and copy_term build list cells); recorded observation",
    }

    def rank(e, tuple_ranks):
        ks = [int(x["b"]["lit"]["int"]) for x in walk(e) if x["k"] == "Binary" and x["op"] == "Add" and x["b"]["k"] == "Lit" and "int" in x["b"]["lit"]]
        if ks:
            return max(ks)
        for x in walk(e):
            if x["k"] == "Path" and res_name(x) in tuple_ranks:
                return tuple_ranks[res_name(x)]
        return 0

    n_order = 0

    def scan(n, tags):
        nonlocal n_order
        if isinstance(n, list):
            for x in n:
                scan(x, tags)
            return
        if not isinstance(n, dict):
            return
        if n.get("k") == "Arm":
            t = [(res_name(l) or "").rsplit("::", 1)[-1] for l in pat_leaves(n["pat"]) if (res_name(l) or "").startswith("types::HeapCellValueTag::")]
            if t:
                tags = tags + [t[0]]
        if n.get("k") == "Block":
            tr = {}
            pushes = []
            for s in n["stmts"]:
                if s["k"] == "Let" and s["pat"]["k"] == "PTuple" and "init" in s and any(r.endswith("last_str_char_and_tail") for _, r, _ in hir_calls(s["init"])):
                    for i, q in enumerate(s["pat"]["pats"]):
                        if q["k"] == "PBind":
                            tr[q["name"]] = i
                if s["k"] == "MethodCall" and s["name"] == "push" and s["args"] and s["args"][0]["k"] == "Tup" and any(x["k"] == "Field" and x["name"] == "stack" for x in walk(s["recv"])):
                    a, b = s["args"][0]["elems"]
                    pushes.append((rank(a, tr), rank(b, tr), s["ln"]))
            if len(pushes) >= 2 and len(tags) >= 2:
                n_order += 1
                ok = all(pushes[i][0] >= pushes[i + 1][0] and pushes[i][1] >= pushes[i + 1][1] for i in range(len(pushes) - 1)) and \
                    (pushes[0][0] > pushes[-1][0] and pushes[0][1] > pushes[-1][1])
                key = tuple(tags[-2:])
                if not ok and key in ARG_ORDER_EXCEPTIONS:
                    R.ob("C13:argument-order:%s-vs-%s:exception" % key, True, "listed: " + ARG_ORDER_EXCEPTIONS[key], "%s (line %s)" % (F.where(nx), pushes[0][2]))
                else:
                    R.ob("C13:argument-order:%s-vs-%s" % key, ok,
                         "pairs are pushed with argument positions %s (left, right, line); the comparison stack is LIFO, so the first arguments must be pushed "
                         "last or later arguments are compared before earlier ones" % pushes, "%s (line %s)" % (F.where(nx), pushes[0][2]))
        for v in n.values():
            if isinstance(v, (dict, list)):
                scan(v, tags)

    scan(nh["body"], [])
    R.floor("two-push compound branches", n_order, 7)
    rev_loops = [x for x in walk(nh["body"]) if x["k"] == "MethodCall" and x["name"] == "rev"]
    R.ob("C13:argument-order:Str-vs-Str:reverse-loop", len(rev_loops) >= 1, "structure arguments must be pushed in reverse index order", F.where(nx))

    pstr_utf8_window(F, R, "C13")

    # parallel_cmp: Ordering -> TermPair
    pc = F.find_impl("ParallelHeapIter", None, "parallel_cmp")
    ph = F.hir(pc)
    got = {}
    for m in matches_in(ph["body"], src=None):
        for arm in m["arms"]:
            s = repo.ordering_set(arm["pat"])
            tp = {(n.get("ctor") or "").rsplit("::", 1)[-1] for n in walk(arm["body"]) if (n.get("ctor") or "").startswith("heap_iter::TermPair::")}
            for o in s:
                got[o] = tp
        sc = m["scrut"]
        if sc["k"] == "MethodCall" and sc["name"] == "cmp":
            l = res_name(sc["recv"]) if sc["recv"]["k"] == "Path" else None
            r = sc["args"][0]
            while r["k"] == "AddrOf":
                r = r["a"]
            r = res_name(r) if r["k"] == "Path" else None
            params = [p.get("name") for p in ph["params"]]
            R.ob("C13:parallel_cmp:operand-order", params[1:3] == [l, r], "compares %s.cmp(&%s), parameters %s" % (l, r, params), F.where(pc))
    R.ob("C13:parallel_cmp:Greater", got.get("Greater") == {"Greater"}, "Ordering::Greater -> TermPair::%s" % got.get("Greater"), F.where(pc))
    R.ob("C13:parallel_cmp:Less", got.get("Less") == {"Less"}, "Ordering::Less -> TermPair::%s" % got.get("Less"), F.where(pc))
    R.ob("C13:parallel_cmp:Equal", got.get("Equal") == set(), "Ordering::Equal -> %s (must continue)" % got.get("Equal"), F.where(pc))

    # compare_term_test: TermPair -> Option<Ordering>
    ct = F.find_impl("MachineState", None, "compare_term_test")
    ch = F.hir(ct)
    got = {}
    for m in matches_in(ch["body"], src=None):
        for arm in m["arms"]:
            for leaf in pat_leaves(arm["pat"]):
                rn = res_name(repo.strip_ref(leaf)) or ""
                if rn.startswith("heap_iter::TermPair::"):
                    ords = {(res_name(n) or "").rsplit("::", 1)[-1] for n in walk(arm["body"]) if re.search(r"cmp::Ordering::\w+$", res_name(n) or "")}
                    got[rn.rsplit("::", 1)[1]] = ords
    R.ob("C13:compare_term_test:Less", got.get("Less") == {"Less"}, "TermPair::Less -> %s" % got.get("Less"), F.where(ct))
    R.ob("C13:compare_term_test:Greater", got.get("Greater") == {"Greater"}, "TermPair::Greater -> %s" % got.get("Greater"), F.where(ct))

    # 4. Ord for Atom is textual
    ac = F.find_impl("Atom", "std::cmp::Ord", "cmp")
    ah = F.hir(ac)
    calls = [r for _, r, _ in hir_calls(ah["body"])]
    n_as_str = sum(1 for r in calls if r.endswith("Atom::as_str"))
    str_cmp = any(re.search(r"for str>::cmp$|str as std::cmp::Ord>::cmp", r) for r in calls)
    reads_index = any(n["k"] == "Field" and n["name"] == "index" for n in walk(ah["body"]))
    R.ob("C13:Atom::cmp:textual", n_as_str == 2 and str_cmp and not reads_index,
         "as_str calls %d, str cmp %s, reads index %s; callees %s" % (n_as_str, str_cmp, reads_index, calls), F.where(ac))
    apc = F.find_impl("Atom", "std::cmp::PartialOrd", "partial_cmp")
    calls = [r for _, r, _ in hir_calls(F.hir(apc)["body"])]
    R.ob("C13:Atom::partial_cmp:is-Some-cmp", ac in calls, "callees %s" % calls, F.where(apc))

    # 5. compare/3 translation
    cp = F.find_impl("MachineState", None, "compare")
    cph = F.hir(cp)
    got = {}
    for m in matches_in(cph["body"], src=None):
        if repo._call_to(m["scrut"], r"compare_term_test$"):
            for arm in m["arms"]:
                s = repo.option_ordering_set(arm["pat"])
                at = None
                for n in walk(arm["body"]):
                    at = atom_of(n) or at
                for o in s:
                    got[o] = at
    for o, a in (("Less", "<"), ("Equal", "="), ("Greater", ">")):
        R.ob("C13:compare/3:%s" % o, got.get(o) == a, "Ordering::%s -> %r, oracle %r" % (o, got.get(o), a), F.where(cp))

    # eq_test polarity: true iff the terms differ
    et = F.find_impl("MachineState", None, "eq_test")
    eh = F.hir(et)
    uses_cmp = any(r.endswith("compare_term_test") for _, r, _ in hir_calls(eh["body"]))
    pol = None
    for n in walk(eh["body"]):
        if n["k"] == "MethodCall" and n["name"] in ("is_eq", "is_ne"):
            pol = n["name"]
    negs = sum(1 for n in walk(eh["body"]) if n["k"] == "Unary" and n.get("op") == "Not" and any(x["k"] == "MethodCall" and x["name"] in ("is_eq", "is_ne") for x in walk(n["a"])))
    if not uses_cmp or pol is None:
        raise AnchorLost("eq_test: unrecognised shape")
    differs = (pol == "is_eq" and negs % 2 == 1) or (pol == "is_ne" and negs % 2 == 0)
    R.ob("C13:eq_test:true-iff-different", differs, "eq_test is %s%s of compare_term_test" % ("!" * negs, pol), F.where(et))

    # 6. dispatch arms
    m, arms, wild = repo.dispatch_arms(F)
    dl = repo.dispatch_loop(F)
    n_arm = 0
    for base, oracle in TERM_ORACLE.items():
        for pre in PREFIXES:
            v = pre + base
            key = "C13:arm:%s" % v
            a = arms.get(v, [])
            if len(a) != 1:
                R.ob(key + ":exists", False, "expected exactly one dispatch arm, found %d" % len(a), F.where(dl))
                continue
            arm = a[0]
            where = "%s:%s dispatch_loop arm %s" % (F.items[dl]["file"], arm["ln"], v)
            sites = repo.ordering_tests(arm["body"], r"MachineState>?::compare_term_test$", r"MachineState>?::eq_test$")
            if len(sites) != 1:
                raise AnchorLost("%s: %d ordering tests recognised" % (v, len(sites)))
            n_arm += 1
            s = sites[0]
            # operand order: registers[1], registers[2]
            args = s["call"].get("args", [])
            regs = []
            binds = {}
            for n in walk(arm["body"]):
                if n["k"] == "Let" and n["pat"]["k"] == "PBind" and "init" in n:
                    for x in walk(n["init"]):
                        if x["k"] == "Index" and x["idx"]["k"] == "Lit":
                            binds[n["pat"]["name"]] = x["idx"]["lit"].get("int")
            for a_ in args:
                nm = res_name(a_) if a_["k"] == "Path" else None
                regs.append(binds.get(nm))
            R.ob(key + ":operands-in-order", regs == ["1", "2"], "compares registers %s" % regs, where)
            R.ob(key + ":success-set", s["succ"] == oracle, "%s succeeds on %s, oracle %s" % (v, sorted(s["succ"]), sorted(oracle)), where)
            R.ob(key + ":failure-set", s["fail"] == repo.UNIVERSE4 - oracle and not s["other"],
                 "%s backtracks on %s (other %s)" % (v, sorted(s["fail"]), sorted(s["other"])), where)
            R.sample({"arm": v, "shape": s["kind"], "success_on": sorted(s["succ"])})
    R.floor("term comparison arms", n_arm, 24)


def pstr_utf8_window(F, R, prefix):
    # packed strings are compared byte-wise up to the first difference and then as code points: the
    # decoding window around the differing byte must span a whole UTF-8 sequence (3 back, 4 forward)
    import os
    from .core import REPO
    cps = F.find("machine::heap::compare_pstr_slices")
    ch_ = F.hir(cps)

    def value(e):
        """integer value of a literal or of a named constant"""
        if e["k"] == "Lit" and "int" in e["lit"]:
            return int(e["lit"]["int"])
        if e["k"] == "Path" and str(e.get("val", "")).isdigit():
            return int(e["val"])       # a named constant: the driver records its evaluated value
        if e["k"] == "Binary" and e.get("op") in ("Add", "Sub"):
            l, r = value(e["a"]), value(e["b"])    # MAX_UTF8_LEN - 1
            if l is not None and r is not None:
                return l + r if e["op"] == "Add" else l - r
        if e["k"] in ("Paren", "Cast") and "a" in e:
            return value(e["a"])
        return None
    backs = [v for x in walk(ch_["body"]) if x["k"] == "MethodCall" and x["name"] == "saturating_sub" for v in [value(a) for a in x["args"]] if v is not None]
    fwds = []
    for x in walk(ch_["body"]):
        if x["k"] == "Struct" and (res_name(x) or "").endswith("ops::Range"):
            end = dict(x["fields"]).get("end")
            if end is not None:
                def offset(t):
                    """constant added to a non-constant base in t: pos + 4, (pos + MAX) - 1, pos + (MAX - 1)"""
                    if t["k"] == "Binary" and t["op"] in ("Add", "Sub"):
                        r = value(t["b"])
                        if r is not None:
                            inner = offset(t["a"])
                            base = inner if inner is not None else 0
                            return base + r if t["op"] == "Add" else base - r
                    if t["k"] == "MethodCall" and t["name"] == "min" and "recv" in t:
                        return offset(t["recv"])
                    return None
                cands = [offset(y) for y in walk(end) if y["k"] == "Binary" and y["op"] in ("Add", "Sub")]
                cands = [c for c in cands if c is not None]
                if cands:
                    fwds.append(max(cands, key=abs) if len(cands) == 1 else cands[0])
    if not backs or not fwds:
        raise AnchorLost("compare_pstr_slices: decoding window not recognised (backs %s, forwards %s)" % (backs, fwds))
    R.ob("%s:pstr-compare:utf8-window" % prefix, min(backs) >= 3 and min(fwds) >= 4,
         "the window decoded around the first differing byte reaches %s bytes back and %s bytes forward; a UTF-8 sequence has up to 4 bytes, so at least "
         "3 back and 4 forward are needed or a 4-byte character is truncated and mis-ordered" % (backs, fwds), F.where(cps))
