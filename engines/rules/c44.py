"""C44 — Prolog flags read back what was set (clause-table agreement).

Decides agreement of the tables that define a flag: (1) current_prolog_flag/2 has, per flag, a
"flag given" clause and an "enumeration" clause that produce the value the same way (binding,
never comparing); (2) for read-only flags the value set_prolog_flag/2 silently accepts is the
value current_prolog_flag/2 yields; for writable flags the atoms accepted in Prolog, the atoms
decoded by the Rust setter and the atoms produced by the Rust getter are one set, and getter and
setter are mutually inverse on the enum; every flag with a value domain ends in a flag_value
domain error; both predicates end with the prolog_flag / type_error clauses; (3) the
occurs_check setters install the three occurs-check objects whose flag_value/0 is what the reader
reports, and head unification honours the flag (shared with C10).
"""
import os
import re
import sys

from .core import AnchorLost, REPO, Result, atom_of, matches_in, pat_leaves, res_name, short, walk

sys.path.insert(0, os.path.dirname(os.path.dirname(os.path.abspath(__file__))))
from plread import plread as P  # noqa: E402

EXPLANATION = (
    "RF1/RF9 table agreement between the clauses of current_prolog_flag/2 and set_prolog_flag/2 in "
    "src/lib/builtins.pl (read by plread, an independent ISO reader; nothing is executed) and the Rust "
    "getters/setters '$get_double_quotes', '$set_double_quotes', '$get_unknown', '$set_unknown', "
    "'$is_sto_enabled', '$set_*_as_unify' (typed HIR); RF10 terminal error clauses."
)
ASSUMPTIONS = ["plread parses the flag clauses as the system's own reader does (operators used there: :-, ',', ==, =, +, /)"]


def is_var(t):
    return t[0] == "var"


def run(ctx, R):
    F = ctx.facts()
    R.rule("RF1 given/enumeration clause agreement; RF9 set/read and Prolog/Rust atom tables; RF10 terminal error clauses")
    text = open(os.path.join(REPO, "src/lib/builtins.pl")).read()
    cur, setc = [], []
    for t, line in P.read_clauses(text):
        if t[0] == "error":
            continue
        h, b = P.head_body(t)
        f = P.functor(h)
        if f == ("current_prolog_flag", 2):
            cur.append((h, b, line))
        elif f == ("set_prolog_flag", 2):
            setc.append((h, b, line))
    if len(cur) < 10 or len(setc) < 10:
        raise AnchorLost("flag clauses not found: current %d, set %d" % (len(cur), len(setc)))
    R.notes.append("current_prolog_flag/2: %d clauses, set_prolog_flag/2: %d clauses" % (len(cur), len(setc)))

    # ---- (1) given vs enumeration -----------------------------------------------------------------------
    given, enum = {}, {}
    for h, b, line in cur:
        a1, a2 = h[2]
        goals = P.conj(b)
        if is_var(a1):
            # Flag == f, !, Goals...
            g0 = goals[0]
            if g0[0] == "cmp" and g0[1] == "==" and g0[2][0] == a1 and g0[2][1][0] == "atom":
                flag = g0[2][1][1]
                rest = [g for g in goals[1:] if g != ("atom", "!")]
                given[flag] = (a2, rest, line)
        elif a1[0] == "atom":
            enum[a1[1]] = (a2, [g for g in goals if g != ("atom", "true")], line)
    R.floor("flags with a given-mode clause", len(given), 8)

    def value_form(valarg, goals):
        """How a clause produces the flag value: ('const', c) | ('goal', name) | ('fail',) | ('compare', ..)"""
        if valarg[0] in ("atom", "int"):
            return ("const", valarg[1])
        for g in goals:
            if g[0] == "cmp" and g[1] == "=" and g[2][0] == valarg and g[2][1][0] in ("atom", "int"):
                return ("const", g[2][1][1])
            if g[0] == "cmp" and g[1] in ("==", "=:=", "=@=") and (g[2][0] == valarg or g[2][1] == valarg):
                return ("compare", g[1])
            if g == ("atom", "$fail") or g == ("atom", "fail"):
                return ("fail",)
            if g[0] == "cmp" and valarg in g[2]:
                return ("goal", g[1])
        return ("unknown", P.show(("cmp", "body", goals)) if goals else "true")

    values = {}
    for flag in sorted(set(given) | set(enum)):
        gv = value_form(given[flag][0], given[flag][1]) if flag in given else None
        ev = value_form(enum[flag][0], enum[flag][1]) if flag in enum else None
        if gv == ("fail",) and ev is None:
            R.ob("C44:current:%s:not-readable-in-both-modes" % flag, True, "flag fails when given and is not enumerated", "src/lib/builtins.pl:%d" % given[flag][2])
            continue
        R.ob("C44:current:%s:both-clauses" % flag, gv is not None and ev is not None,
             "flag %s has given-mode clause: %s, enumeration clause: %s" % (flag, gv is not None, ev is not None), "src/lib/builtins.pl")
        if gv is None or ev is None:
            continue
        R.ob("C44:current:%s:given-mode-binds" % flag, gv[0] in ("const", "goal"),
             "the flag-given clause produces the value by %s: a comparison instead of a binding makes current_prolog_flag(%s, X) fail for unbound X" % (gv, flag), "src/lib/builtins.pl:%d" % given[flag][2])
        R.ob("C44:current:%s:same-value-both-modes" % flag, gv == ev, "given mode yields %s, enumeration yields %s" % (gv, ev), "src/lib/builtins.pl:%d" % given[flag][2])
        values[flag] = ev
        R.sample({"flag": flag, "given": list(gv), "enumerated": list(ev)})

    # ---- (2) set vs read -------------------------------------------------------------------------------------
    accepted = {}      # flag -> {const: 'silent' | setter goal name}
    has_value_domain_error = set()
    for h, b, line in setc:
        a1, a2 = h[2]
        goals = P.conj(b)
        if a1[0] != "atom":
            continue
        flag = a1[1]
        if a2[0] in ("atom", "int"):
            gs = [g for g in goals if g not in (("atom", "!"), ("atom", "true"))]
            if any(g in (("atom", "$fail"), ("atom", "fail")) for g in gs):
                kind = "refused"
            elif not gs:
                kind = "silent"
            else:
                kind = P.functor(gs[0])[0]
            accepted.setdefault(flag, {})[a2[1]] = kind
        else:
            txt = P.show(b)
            if "flag_domain_error" in txt or "domain_error(flag_value" in txt:
                has_value_domain_error.add(flag)
    for flag, ev in sorted(values.items()):
        acc = accepted.get(flag, {})
        if ev[0] == "const":
            silent = {c for c, k in acc.items() if k == "silent"}
            R.ob("C44:set:%s:read-only-accepts-own-value" % flag, silent == {ev[1]},
                 "read-only flag %s reads as %s; set_prolog_flag silently accepts %s: a successful set must read back" % (flag, ev[1], sorted(map(str, silent))), "src/lib/builtins.pl")
            R.ob("C44:set:%s:bad-value-error" % flag, flag in has_value_domain_error, "set_prolog_flag(%s, Other) must raise domain_error(flag_value, ..)" % flag, "src/lib/builtins.pl")

    # ---- writable flags: Prolog atoms vs Rust getter/setter ------------------------------------------------------
    def rust_atom_table(fn_name, direction):
        fn = F.find_impl("Machine", None, fn_name)
        tbl = {}
        for m in matches_in(F.hir(fn)["body"], src=None):
            for arm in m["arms"]:
                if direction == "get":
                    v = None
                    for leaf in pat_leaves(arm["pat"]):
                        rn = res_name(leaf) or ""
                        if "::" in rn and leaf["k"] == "PPath":
                            v = rn.rsplit("::", 1)[1]
                    at = None
                    for n in walk(arm["body"]):
                        at = atom_of(n) or at
                    if v and at:
                        tbl[at] = v
                else:
                    at = None
                    for leaf in pat_leaves(arm["pat"]):
                        at = atom_of(leaf) or at
                    v = None
                    for n in walk(arm["body"]):
                        rn = res_name(n) or ""
                        if n["k"] == "Path" and re.search(r"::(DoubleQuotes|Unknown)::\w+$", rn):
                            v = rn.rsplit("::", 1)[1]
                    if v and at:
                        tbl[at] = v
        return fn, tbl

    for flag, getter, setter, setgoal in (("double_quotes", "get_double_quotes", "set_double_quotes", "$set_double_quotes"), ("unknown", "get_unknown", "set_unknown", "$set_unknown")):
        gfn, gt = rust_atom_table(getter, "get")
        sfn, st = rust_atom_table(setter, "set")
        if len(gt) < 3 or len(st) < 3:
            raise AnchorLost("%s: getter %s setter %s" % (flag, gt, st))
        pl = {c for c, k in accepted.get(flag, {}).items() if k == setgoal}
        R.ob("C44:%s:prolog-atoms-equal-rust-setter" % flag, pl == set(st), "builtins.pl accepts %s, %s decodes %s" % (sorted(pl), setter, sorted(st)), F.where(sfn))
        R.ob("C44:%s:getter-inverse-of-setter" % flag, gt == st, "%s produces %s, %s decodes %s: every value that can be set must read back as itself" % (getter, gt, setter, st), F.where(gfn))
        # each accepted atom is passed through unchanged to the setter
        for h, b, line in setc:
            a1, a2 = h[2]
            if a1 == ("atom", flag) and a2[0] == "atom":
                for g in P.conj(b):
                    if g[0] == "cmp" and g[1] == setgoal:
                        R.ob("C44:%s:set-clause-passes-own-value:%s" % (flag, a2[1]), g[2][0] == a2, "set_prolog_flag(%s, %s) calls %s(%s)" % (flag, a2[1], setgoal, P.show(g[2][0])), "src/lib/builtins.pl:%d" % line)
        R.ob("C44:set:%s:bad-value-error" % flag, flag in has_value_domain_error, "set_prolog_flag(%s, Other) must raise domain_error(flag_value, ..)" % flag, "src/lib/builtins.pl")
        R.ob("C44:current:%s:reads-rust-getter" % flag, values.get(flag) == ("goal", "$" + getter), "current_prolog_flag(%s, V) obtains V through %s" % (flag, values.get(flag)), "src/lib/builtins.pl")

    # ---- occurs_check ----------------------------------------------------------------------------------------------
    OC = {"true": ("$set_sto_as_unify", "set_sto_as_unify", "Sto"), "false": ("$set_nsto_as_unify", "set_nsto_as_unify", "Nsto"), "error": ("$set_sto_with_error_as_unify", "set_sto_with_error_as_unify", "StoError")}
    acc = accepted.get("occurs_check", {})
    R.ob("C44:occurs_check:prolog-atoms", set(acc) == set(OC), "builtins.pl accepts %s for occurs_check" % sorted(acc), "src/lib/builtins.pl")
    for val, (goal, rust, obj) in OC.items():
        R.ob("C44:occurs_check:%s:set-goal" % val, acc.get(val) == goal, "set_prolog_flag(occurs_check, %s) calls %s, table %s" % (val, acc.get(val), goal), "src/lib/builtins.pl")
        fn = F.find_impl("Machine", None, rust)
        objs = {(res_name(n) or "").rsplit("::", 1)[-1] for n in walk(F.hir(fn)["body"]) if n["k"] == "Path" and "machine_state::" in (res_name(n) or "")}
        R.ob("C44:occurs_check:%s:installs-object" % val, objs == {obj}, "%s installs %s, table %s" % (rust, sorted(objs), obj), F.where(fn))
        fv = F.find_impl(obj, "machine::machine_state::OccursCheckImpl", "flag_value")
        at = None
        for n in walk(F.hir(fv)["body"]):
            at = atom_of(n) or at
        R.ob("C44:occurs_check:%s:reads-back" % val, at == val, "%s::flag_value() is %r: the value read back after set_prolog_flag(occurs_check, %s)" % (obj, at, val), F.where(fv))
    R.ob("C44:set:occurs_check:bad-value-error", "occurs_check" in has_value_domain_error, "set_prolog_flag(occurs_check, Other) must raise domain_error(flag_value, ..)", "src/lib/builtins.pl")
    # the flag takes effect: head unification honours it (obligations computed by the C10 rule)
    from . import c10
    sub = Result("C10")
    c10.run(ctx, sub)
    for k, ok, d, w in sub.obligations:
        if k.startswith("C10:flag-respecting-unify:") or k.startswith("C10:mode-wiring:") or k.startswith("C10:occurs-check-failure-acted-on:") or k.startswith("C10:raw-bind-in-instruction-handler:"):
            R.ob("C44:occurs_check:takes-effect:" + k.split(":", 1)[1], ok, d, w)

    # ---- (3) terminal error clauses -----------------------------------------------------------------------------------
    def terminal(clauses, name):
        tails = [P.show(b) for h, b, line in clauses[-2:]]
        ok = len(tails) == 2 and "domain_error(prolog_flag" in tails[0] and "type_error(atom" in tails[1]
        R.ob("C44:%s:terminal-error-clauses" % name, ok, "%s must end with the domain_error(prolog_flag, F) and type_error(atom, F) clauses; last two bodies: %s" % (name, tails), "src/lib/builtins.pl")

    terminal(cur, "current_prolog_flag")
    terminal(setc, "set_prolog_flag")
    unknown_flag_takes_effect(F, R)
    lookup_or_default_reads_into_a_fresh_variable(R, text, cur)


# who may raise existence_error(procedure, ..) without asking the `unknown` flag
RAISES_UNDEFINED_DIRECTLY = {
    "Machine::undefined_procedure": "the one place that reads flags.unknown: error raises, fail and warning fail",
    "Machine::call_clause": "recorded observation: the `user` branch for a key missing from code_dir raises directly (its sibling execute_clause asks the flag); "
                            "no Prolog goal was found that reaches it with the key missing (a call through user: creates the entry first)",
}


def unknown_flag_takes_effect(F, R):
    """set_prolog_flag(unknown, fail|warning) "takes effect": a call of an undefined predicate then fails instead of
    raising. Every way a call can discover that a predicate is undefined must end in Machine::undefined_procedure, which
    reads the flag; throw_undefined_error, which builds the existence error, may be called from there only."""
    tgt = [p for p in F.items if p.endswith("MachineState::throw_undefined_error")]
    up = [p for p in F.items if p.endswith("Machine::undefined_procedure")]
    if len(tgt) != 1 or len(up) != 1:
        raise AnchorLost("throw_undefined_error / undefined_procedure (%d/%d)" % (len(tgt), len(up)))
    callers = sorted({short(re.sub(r"(::\{closure#\d+\})+$", "", p)) for p, cs in F.calls.items() if any((c.get("resolved") or c.get("callee")) == tgt[0] for c in cs)})
    if not callers:
        raise AnchorLost("throw_undefined_error has no callers")
    for c in callers:
        if c in RAISES_UNDEFINED_DIRECTLY:
            R.ob("C44:unknown:raises-existence-error-directly:%s:listed" % c, True, "listed: " + RAISES_UNDEFINED_DIRECTLY[c], F.where(tgt[0]))
        else:
            R.ob("C44:unknown:raises-existence-error-directly:%s" % c, False,
                 "%s raises existence_error(procedure, ..) through throw_undefined_error without asking flags.unknown: with set_prolog_flag(unknown, fail) a call that "
                 "ends there still raises instead of failing" % c, F.where(tgt[0]))
    ub = F.hir(up[0])["body"]
    reads = any(x["k"] == "Field" and x["name"] == "unknown" for x in walk(ub))
    arms = [m for m in matches_in(ub, src=None) if any(x["k"] == "Field" and x["name"] == "unknown" for x in walk(m["scrut"]))]
    kinds = sorted({(res_name(l) or "").rsplit("::", 1)[-1] for m in arms for a in m["arms"] for l in walk(a["pat"]) if isinstance(l, dict) and "Unknown::" in (res_name(l) or "")})
    R.ob("C44:unknown:undefined_procedure-reads-the-flag", reads and kinds == ["Error", "Fail", "Warn"],
         "undefined_procedure must dispatch on flags.unknown with one arm per value; found %s" % kinds, F.where(up[0]))
    # the places that find a predicate undefined
    n = 0
    for name in ("try_call", "try_execute", "call_clause", "execute_clause"):
        fn = F.find_impl("Machine", None, name)
        cs = [r for _, r, _ in __import__("rules.core", fromlist=["hir_calls"]).hir_calls(F.hir(fn)["body"])]
        n += sum(1 for r in cs if r == up[0])
    R.ob("C44:unknown:every-lookup-miss-ends-in-undefined_procedure", n >= 5,
         "try_call, try_execute, call_clause and execute_clause reach undefined_procedure from %d places; five are known (an Undefined index in both try_*, a key missing from a "
         "module's code_dir in both *_clause, and from user's in execute_clause)" % n, F.where(up[0]))


def lookup_or_default_reads_into_a_fresh_variable(R, text, cur):
    """A flag whose value lives in the blackboard is read by a helper `( lookup(Key, V) -> ... ; Value = Default )`. When the
    lookup is made with the caller's Value itself, a stored value that does not unify with a bound Value looks like an
    absent one, and the default is answered: after set_prolog_flag(answer_write_options, [max_depth(3)]) the goal
    current_prolog_flag(answer_write_options, []) succeeded. In every helper a current_prolog_flag/2 clause calls with the
    flag value, a condition whose else-branch unifies the value with a constant does not mention the value."""
    helpers = set()
    for h, b, line in cur:
        val = h[2][1]
        if val[0] != "var":
            continue
        for g in P.conj(b):
            f = P.functor(g)
            if f and f[1] == 1 and g[2][0] == val and f[0] not in ("$is_sto_enabled",) and not f[0].startswith("$"):
                helpers.add(f)
    n = 0
    for t, line in P.read_clauses(text):
        if t[0] == "error":
            continue
        h, b = P.head_body(t)
        if P.functor(h) not in helpers:
            continue
        hv = h[2][0]
        stack = [b]
        while stack:
            x = stack.pop()
            if x[0] != "cmp":
                continue
            if x[1] == ";" and len(x[2]) == 2 and x[2][0][0] == "cmp" and x[2][0][1] == "->":
                cond, els = x[2][0][2][0], x[2][1]
                defaults = [g for g in P.conj(els) if g[0] == "cmp" and g[1] == "=" and hv in g[2] and any(a[0] != "var" for a in g[2])]
                if defaults and hv[0] == "var":
                    n += 1

                    def mentions(tm):
                        return tm == hv or (tm[0] == "cmp" and any(mentions(a) for a in tm[2]))
                    R.ob("C44:lookup-or-default:%s/1:condition-does-not-test-the-callers-value" % P.functor(h)[0], not mentions(cond),
                         "%s/1 answers the default (%s) whenever %s fails, and that lookup is made with the caller's value: a stored value that differs from a bound value is "
                         "taken for an absent one" % (P.functor(h)[0], P.show(defaults[0]), P.show(cond)), "src/lib/builtins.pl:%d %s/1" % (line, P.functor(h)[0]))
            stack.extend(x[2])
    R.floor("lookup-or-default helpers of current_prolog_flag/2", n, 1)

