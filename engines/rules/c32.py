"""C32 — Concurrent machines intern atoms consistently (lock discipline of AtomTable::build_with).

Decides: every mutation of the shared atom table (block allocation, block growth, publication of a
new block or a new index set, writing the text, inserting into the set) happens while the update
mutex is held AND after the epoch re-check that detects a racing writer; the new index set is
published only after the text was written; the lock is released only after the last publication;
the lock-free fast path for inlined atoms touches no shared state; nobody else mutates the table.
The interleaving semantics of the arcu RCU primitives are trusted.
"""
import re

from .core import AnchorLost, CFG, callee_of, short

EXPLANATION = (
    "RF3 dominance rules over the MIR CFG of AtomTable::build_with (lock and both epoch checks "
    "dominate every mutator; write dominates publication; publication dominates the explicit unlock), "
    "RF4 who-may-call for the atom-table mutators over the whole-crate call facts."
)
ASSUMPTIONS = ["arcu::Rcu::replace publishes atomically and readers holding an older epoch keep a consistent snapshot",
               "the retry loop re-reads both epochs after `continue` (checked: the epoch reads are inside the loop, dominated by the loop head)"]

MUTATORS = {
    "alloc": r"raw_block::RawBlock::<.*>::alloc$",
    "grow_new": r"raw_block::RawBlock::<.*>::grow_new$",
    "replace": r"arcu::.*::replace$|Rcu::replace$",
    "write_to_ptr": r"atom_table::write_to_ptr$",
    "insert": r"IndexSet::<.*>::insert$|indexmap::set::IndexSet<T, S>::insert$",
}


def run(ctx, R):
    F = ctx.facts()
    R.rule("RF3 lock + epoch re-check dominate every mutation of the atom table; write before publish; unlock after publish; RF4 mutator callers")
    bw = F.find_impl("AtomTable", None, "build_with")
    mir = F.mir(bw)
    g = CFG(mir)
    dom = g.dominators()
    lock = g.call_blocks(lambda t: re.search(r"sync::.*Mutex::<.*>::lock$|Mutex<T>::lock$", callee_of(t)) is not None)
    epochs = g.call_blocks(lambda t: callee_of(t).endswith("RcuRef::<T, M>::same_epoch") or callee_of(t).endswith("::same_epoch"))
    if len(lock) != 1 or len(epochs) < 1:
        raise AnchorLost("build_with: %d lock calls, %d same_epoch calls" % (len(lock), len(epochs)))
    # both snapshots taken before the lock must be re-validated under it: the block (allocation) epoch
    # and the atom-list epoch. Dropping either lets a thread continue on a retired block or list.
    kinds = set()
    for e in epochs:
        inst = mir["blocks"][e]["t"].get("inst") or ""
        kinds.add("allocation" if "InnerAtomTable" in inst else "atom-list" if "IndexSet" in inst else inst)
    R.ob("C32:epoch-recheck:both-snapshots", len(epochs) == 2 and kinds == {"allocation", "atom-list"},
         "under the update lock build_with re-validates %s; it must re-validate both the allocation (InnerAtomTable) epoch and the atom-list (IndexSet) epoch, "
         "otherwise a thread that missed in the lookup while another thread grew the table keeps writing into the retired block" % sorted(kinds), F.where(bw))
    # the branch on the two epoch results: the block where the conjunction is decided. Mutators must
    # be dominated by the `false` edge of `!(a && b)`, i.e. not reachable when a racing writer was seen:
    # approximate structurally: dominated by both same_epoch calls AND not dominating-equivalent to the
    # `continue` edge: the retry edge jumps back to the loop head, so a mutator dominated by the calls
    # and reachable without passing the loop head again is on the "no race" side.
    sites = {}
    for name, rx in MUTATORS.items():
        sites[name] = g.call_blocks(lambda t, rx=rx: re.search(rx, callee_of(t)) is not None)
    want_counts = {"alloc": 1, "grow_new": 1, "replace": 2, "write_to_ptr": 1, "insert": 1}
    for name, n in want_counts.items():
        if len(sites[name]) < n:
            raise AnchorLost("build_with: %d %s calls, expected %d" % (len(sites[name]), name, n))
    R.floor("atom-table mutation sites", sum(len(v) for v in sites.values()), 6)
    # the race check must actually branch: find the switch that separates `continue` from the mutators
    for name, blocks in sites.items():
        for i, b in enumerate(blocks):
            d = dom.get(b, set())
            R.ob("C32:under-lock:%s#%d" % (name, i), lock[0] in d,
                 "%s mutates the shared atom table on a path that does not hold the update mutex: two machines could allocate the same slot" % name, "%s (line %s)" % (F.where(bw), mir["blocks"][b]["t"]["ln"]))
            R.ob("C32:after-epoch-recheck:%s#%d" % (name, i), all(e in d for e in epochs),
                 "%s happens without the epoch re-check that detects a writer who raced between lookup and lock: the same text could be interned twice" % name, "%s (line %s)" % (F.where(bw), mir["blocks"][b]["t"]["ln"]))
    # race branch: some block dominated by both epoch checks must be able to return to the loop head without any mutator
    mut_blocks = {b for v in sites.values() for b in v}
    head_ok = False
    for b in range(len(mir["blocks"])):
        t = mir["blocks"][b]["t"]
        if t["k"] == "SwitchInt" and all(e in dom.get(b, ()) for e in epochs) and b not in mut_blocks:
            # one successor avoids all mutators until it reaches a block that dominates the lock (loop head)
            for s in t["succ"]:
                seen = g.reachable(s, avoid=frozenset(mut_blocks))
                if any(x in seen for x in dom.get(lock[0], ()) if x != 0 and x in g.reachable(lock[0])):
                    head_ok = True
    R.ob("C32:race-detected-retries", head_ok, "when the epochs changed the function must retry (loop back) without mutating", F.where(bw))
    # write before publishing the new set; explicit unlock after the last publication
    wr = sites["write_to_ptr"][0]
    ins = sites["insert"][0]
    last_pub = [b for b in sites["replace"] if ins in dom.get(b, ())]
    if len(last_pub) != 1:
        raise AnchorLost("build_with: publication of the index set not identified (%s)" % last_pub)
    R.ob("C32:write-before-publish", wr in dom.get(last_pub[0], ()), "the atom's text must be written before the index set containing it is published", F.where(bw))
    unlock = g.call_blocks(lambda t: re.search(r"mem::drop::<.*MutexGuard", t.get("inst") or "") is not None)
    R.ob("C32:unlock-after-publish", len(unlock) == 1 and last_pub[0] in dom.get(unlock[0], ()),
         "the update guard must be dropped explicitly after the last publication (found %d explicit drops)" % len(unlock), F.where(bw))
    # fast path
    fast = g.call_blocks(lambda t: callee_of(t).endswith("Atom::new_inlined"))
    R.ob("C32:inline-fast-path:lock-free", len(fast) == 1 and lock[0] not in dom.get(fast[0], ()) and not any(m in dom.get(fast[0], ()) for m in mut_blocks),
         "inlined atoms are computed from the text alone and must not touch the shared table", F.where(bw))

    # ---- RF4: who else mutates the atom table ------------------------------------------------------------------
    n = 0
    for p, cs in F.calls.items():
        for c in cs:
            inst = c.get("inst") or ""
            tgt = c.get("resolved") or c.get("callee") or ""
            if ("atom_table::AtomTable" in inst and re.search(r"RawBlock::<.*>::(alloc|grow_new|grow)$", inst)) or tgt.endswith("atom_table::write_to_ptr"):
                n += 1
                top = re.sub(r"(::\{closure#\d+\})+$", "", p)
                R.ob("C32:who-may-mutate:%s:%s" % (short(top), short(tgt)), top == bw, "%s calls %s: the atom table may only be mutated inside AtomTable::build_with" % (top, tgt), F.where(top) if top in F.items else top)
    R.floor("atom-table mutator call sites", n, 3)
