"""C18 — Text decoding does not depend on how input arrives.

Decides: (a) the panic budget of CharReader and of every CharRead/Read implementation (no new
unwrap/expect/assert/index/slice construct on the decoding path: chunk boundaries and truncated
input must surface as errors, not aborts); (b) well-formedness of every constant-bounded range
used to drain or slice the decode buffer; (c) every stream kind implements the character
interface consistently (peek/read/put_back/consume/read forward for the same kinds).
"""
import re

from .core import AnchorLost, res_name, short, walk
from . import orframe, panicbudget, scopes, streams

EXPLANATION = (
    "RF5 panic budget over the MIR call/assert facts of char_reader.rs and all CharRead/Read impls "
    "(table frozen after the three decoder panics were repaired), RF3 guard rule for ranges with a "
    "constant bound in CharReader (typed HIR, ancestor conditions), RF1 enum-dispatch sibling "
    "agreement of the five input methods of `Stream` in every analysed feature configuration."
)
ASSUMPTIONS = ["struct invariant pos <= buf.len() of CharReader is maintained by consume()'s callers (consume is the one writer that relies on them)"]
HANDLES_CONFIGS = True   # iterates ctx.configs() itself (enum Stream differs per feature configuration)


def chain(e):
    return orframe.field_chain(e)


def range_sites(h):
    """(node, lo, hi, container chain, ancestors) for `lo..hi` ranges given to drain()/index."""
    out = []

    def rec(n, anc):
        if isinstance(n, list):
            for x in n:
                rec(x, anc)
            return
        if not isinstance(n, dict):
            return
        rng = None
        cont = None
        if n.get("k") == "MethodCall" and n["name"] == "drain" and n["args"]:
            rng, cont = n["args"][0], n["recv"]
        elif n.get("k") == "Index":
            rng, cont = n["idx"], n["base"]
        if rng is not None and rng["k"] == "Struct" and re.search(r"ops::Range(From|To|Inclusive|ToInclusive)?$", res_name(rng) or ""):
            fields = dict(rng["fields"])
            out.append((n, fields.get("start"), fields.get("end"), cont, list(anc)))
        if "k" in n:
            for key, v in n.items():
                if isinstance(v, (dict, list)):
                    rec(v, anc + [(n, key)])
        else:
            for v in n.values():
                if isinstance(v, (dict, list)):
                    rec(v, anc)

    rec(h["body"], [])
    return out


def lit_int(e):
    if e is not None and e["k"] == "Lit" and "int" in e["lit"]:
        return int(e["lit"]["int"])
    return None


def run(ctx, R):
    R.rule("RF5 decoder panic budget; RF3 constant-bounded ranges guarded; RF1 input sibling agreement of Stream")
    for cfg in ctx.configs():
        F = ctx.facts(cfg)
        tag = "" if cfg == "default" else "[%s]" % cfg
        if cfg == "default":
            sc = scopes.decoder_scope(F)
            panicbudget.check(F, R, "C18:panic-budget", "c18_decoder", sc, 15)
            # ---- "each invalid sequence reported as an error at the same position": reported once, then skipped,
            # so that the characters after it are delivered (rule shared with C17)
            from . import c17
            c17.consuming_reads(F, R, "C18")
            peeks_report_bad_bytes(F, R)
            # ---- RF3: ranges with a constant bound ------------------------------------------------------
            n_rng = 0
            for p in sc:
                it = F.items[p]
                if it["file"] != "src/parser/char_reader.rs" or it["kind"] == "Closure":
                    continue
                h = F.hir(p)
                for node, lo, hi, cont, anc in range_sites(h):
                    L = lit_int(lo)
                    if L is None or L == 0:
                        continue  # variable lower bounds are covered by the struct invariant pos <= len
                    n_rng += 1
                    cont_chain = chain(cont)
                    hi_chain = chain(hi) if hi is not None else None
                    guarded = False
                    for a, key in reversed(anc):
                        if a["k"] == "If" and key == "then" and a["cond"]["k"] == "Binary":
                            c = a["cond"]
                            lhs, rhs, op = c["a"], c["b"], c["op"]
                            if lit_int(lhs) is not None:
                                lhs, rhs, op = rhs, lhs, {"Lt": "Gt", "Le": "Ge", "Gt": "Lt", "Ge": "Le"}.get(op, op)
                            k = lit_int(rhs)
                            if k is None:
                                continue
                            strong = (op == "Gt" and k >= L) or (op == "Ge" and k >= L)
                            lc = chain(lhs)
                            if hi_chain is not None:
                                if strong and lc == hi_chain:
                                    guarded = True
                            else:
                                # open range L..: the container's len() must exceed L
                                if strong and lc[-1:] == ["len()"] and lc[:-1] == cont_chain:
                                    guarded = True
                    R.ob("C18:range-guard:%s@%d" % (short(p), node["ln"] - it["line"]), guarded,
                         "range %s..%s on %s is not inside a branch that establishes %s >= %d: an inverted or out-of-bounds range panics when a chunk "
                         "ends inside a multi-byte character" % (L, ".".join(hi_chain or ["<end>"]), ".".join(cont_chain), ".".join(hi_chain) if hi_chain else ".".join(cont_chain) + ".len()", L),
                         "%s (line %s)" % (F.where(p), node["ln"]))
            R.floor("constant-bounded ranges in CharReader", n_rng, 1)
            # the read position is only ever moved BACK to a constant: `self.pos = K` with K > 0 sits in a branch that
            # established pos >= K. Moving it forward jumps over bytes that were not read yet (a split character at the
            # start of a stream is then reported as invalid, dropped, or followed by an early end of file).
            n_pos = 0
            for p, it in sorted(F.items.items()):
                if it["file"] != "src/parser/char_reader.rs" or it["kind"] not in ("Fn", "AssocFn") or "::tests::" in p:
                    continue

                def rec_pos(n, anc):
                    nonlocal n_pos
                    if isinstance(n, list):
                        for x in n:
                            rec_pos(x, anc)
                        return
                    if not isinstance(n, dict):
                        return
                    if n.get("k") == "Assign" and chain(n["lhs"])[-1:] == ["pos"] and lit_int(n["rhs"]) not in (None, 0):
                        K = lit_int(n["rhs"])
                        n_pos += 1
                        ok = False
                        for a, key in anc:
                            if a["k"] == "If" and key == "then" and a["cond"]["k"] == "Binary":
                                c = a["cond"]
                                lhs, rhs, op = c["a"], c["b"], c["op"]
                                if lit_int(lhs) is not None:
                                    lhs, rhs, op = rhs, lhs, {"Lt": "Gt", "Le": "Ge", "Gt": "Lt", "Ge": "Le"}.get(op, op)
                                k = lit_int(rhs)
                                if k is not None and chain(lhs)[-1:] == ["pos"] and ((op == "Gt" and k >= K - 1) or (op == "Ge" and k >= K)):
                                    ok = True
                        R.ob("C18:read-position:set-to-constant-only-backwards:%s@%d" % (short(p), n["ln"] - it["line"]), ok,
                             "%s sets the read position to %d outside a branch that established pos >= %d: when fewer bytes have been consumed the position jumps forward "
                             "over bytes that were never delivered" % (short(p), K, K), "%s (line %s)" % (F.where(p), n["ln"]))
                    for k2, v in n.items():
                        if k2 != "mac" and isinstance(v, (dict, list)):
                            if n.get("k") == "If" and k2 in ("then", "else"):
                                rec_pos(v, anc + [(n, k2)])
                            else:
                                rec_pos(v, anc)
                rec_pos(F.hir(p)["body"], [])
            R.notes.append("constant assignments to the read position: %d" % n_pos)
            # bytes that were not consumed yet are never discarded: an open-ended drain of the buffer (`drain(K..)`) and
            # `pos = buf.len()` throw away everything behind K / skip to the end, which is right only when everything has
            # been consumed (pos >= buf.len()). A helper that does so inherits the obligation to its call sites.
            def all_consumed_guard(anc):
                for a, key in anc:
                    if a["k"] == "If" and key == "then" and a["cond"]["k"] == "Binary" and a["cond"]["op"] in ("Ge", "Eq"):
                        c = a["cond"]
                        if chain(c["a"])[-1:] == ["pos"] and chain(c["b"])[-2:] == ["buf", "len()"]:
                            return True
                return False
            crfns = {p: it for p, it in F.items.items() if it["file"] == "src/parser/char_reader.rs" and it["kind"] in ("Fn", "AssocFn") and "::tests::" not in p}
            discards = {}    # function -> unguarded discarding sites (line, what)

            def scan(p, callees_discarding):
                out = []

                def rec_d(n, anc):
                    if isinstance(n, list):
                        for x in n:
                            rec_d(x, anc)
                        return
                    if not isinstance(n, dict):
                        return
                    what = None
                    if n.get("k") == "MethodCall" and n["name"] == "drain" and chain(n["recv"])[-1:] == ["buf"] and n.get("args"):
                        a0 = n["args"][0]
                        if a0.get("k") == "Struct" and (res_name(a0) or "").endswith("RangeFrom") or (a0.get("k") == "Struct" and "RangeFrom" in (a0.get("ty") or "")):
                            what = "buf.drain(K..)"
                    if n.get("k") == "Assign" and chain(n["lhs"])[-1:] == ["pos"] and chain(n["rhs"])[-2:] == ["buf", "len()"]:
                        what = "pos = buf.len()"
                    if n.get("k") in ("MethodCall", "Call") and (n.get("resolved") or n.get("callee")) in callees_discarding:
                        what = "call of %s" % short(n.get("resolved") or n.get("callee"))
                    if what and not all_consumed_guard(anc):
                        out.append((n["ln"], what))
                    for k2, v in n.items():
                        if k2 != "mac" and isinstance(v, (dict, list)):
                            if n.get("k") == "If" and k2 in ("then", "else"):
                                rec_d(v, anc + [(n, k2)])
                            else:
                                rec_d(v, anc)
                rec_d(F.hir(p)["body"], [])
                return out
            changed = True
            while changed:
                changed = False
                for p in crfns:
                    got = scan(p, set(discards))
                    if got and p not in discards:
                        discards[p] = got
                        changed = True
            # a discarding function is fine if it is only a helper (every call site guarded); the roots are the ones
            # nobody can guard: public entry points of the reader
            roots = [p for p in discards if re.search(r"::(peek_char|read_char|refresh_buffer|consume|put_back_char|skip_bad_bytes)$", p)]
            for p in sorted(crfns):
                if re.search(r"::(peek_char|read_char|refresh_buffer|consume|put_back_char|skip_bad_bytes)$", p):
                    bad = discards.get(p, [])
                    R.ob("C18:unread-bytes-never-discarded:%s" % short(p), not bad,
                         "%s discards buffer contents outside a `pos >= buf.len()` branch (%s): when the buffer ends inside a multi-byte character the bytes of that character "
                         "are still unread, and dropping them loses the character (a multi-byte character across an 8 KiB refill boundary reads as invalid data)"
                         % (short(p), bad), F.where(p))
        # ---- RF1: input siblings -----------------------------------------------------------------------
        variants = streams.stream_variants(F)
        fns = {
            "peek_char": F.find_impl("Stream", "parser::char_reader::CharRead", "peek_char"),
            "read_char": F.find_impl("Stream", "parser::char_reader::CharRead", "read_char"),
            "put_back_char": F.find_impl("Stream", "parser::char_reader::CharRead", "put_back_char"),
            "consume": F.find_impl("Stream", "parser::char_reader::CharRead", "consume"),
            "read": F.find_impl("Stream", "std::io::Read", "read"),
        }
        ref = streams.sibling_group(F, R, "C18" + tag, "input-interface", fns, variants)
        R.notes.append("config %s: %d stream kinds, %d input-capable" % (cfg, len(variants), len(ref)))


def peeks_report_bad_bytes(F, R):
    """peek_char/2 and peek_code/2 look at the next character through Stream::peek_char, which answers None at the end
    of the input and Some(Err(InvalidData)) for bytes that are not UTF-8. An arm that sends both to eof_action takes bad
    bytes for the end of the stream: the peek answers end_of_file, the stream is marked past its end, and the
    characters after the bad bytes are never delivered (get_char/2 alone reports the error and goes on). The match on
    the peeked result has an arm of its own for a decoding error, and that arm raises an error."""
    import re
    n = 0
    for nm in ("peek_char", "peek_code"):
        c = [p for p in F.items if re.search(r"system_calls::<impl machine::Machine>::%s$" % nm, p)]
        if len(c) != 1:
            raise AnchorLost("Machine::%s (%d)" % (nm, len(c)))
        body = F.hir(c[0])["body"]
        peeked = {x["pat"].get("name") for x in walk(body) if x["k"] == "Let" and "init" in x and x["pat"].get("k") == "PBind"
                  and any(y["k"] == "MethodCall" and y["name"] == "peek_char" for y in walk(x["init"]))}
        ms = [m for m in walk(body) if m["k"] == "Match" and any((x["k"] == "MethodCall" and x["name"] == "peek_char") or
                                                                  (x["k"] == "Path" and x.get("res", {}).get("local") in peeked) for x in walk(m["scrut"]))]
        if not ms:
            raise AnchorLost("Machine::%s: match on Stream::peek_char" % nm)
        ok = False
        for m in ms:
            n += 1
            for arm in m["arms"]:
                is_err = any(x.get("k") == "PTupleStruct" and (x.get("res", {}).get("def") or "").endswith("::Err") for x in walk(arm["pat"]))
                raises = any(x["k"] == "MethodCall" and x["name"] == "error_form" for x in walk(arm["body"])) and any(x["k"] == "Ret" for x in walk(arm["body"]))
                to_eof = any(x["k"] == "MethodCall" and x["name"] == "eof_action" for x in walk(arm["body"]))
                if is_err and raises and not to_eof:
                    ok = True
        R.ob("C18:peek:%s:a-decoding-error-is-an-error-not-the-end-of-the-stream" % nm, ok,
             "Machine::%s has no arm of its own for Some(Err(..)) from Stream::peek_char that raises: bytes that are not UTF-8 fall into the arm that runs the end-of-file action, the "
             "peek answers end_of_file and the rest of the stream is lost" % nm, F.where(c[0]))
    R.floor("matches on the peeked character", n, 2)

