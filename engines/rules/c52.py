"""C52 — random number predicates: range construction, representation coverage and the error clause.

The values drawn are run-time values of the `rand` crate and are not decided. What has a shape in the code:

  * `'$random_integer'` handles the four combinations of small and arbitrary-precision bounds, each arm fails when
    lower >= upper (the empty range) and draws from the half-open range lower..upper built from the bounds it matched,
    in that order, and the value drawn is unified with the third argument in both representations;
  * `'$set_seed'` accepts every integer: no arm narrows the seed through an unwrap (set_random(seed(-1)) and
    set_random(seed(2^70)) aborted the process), and every arm seeds the generator from the integer it matched;
  * random/1 divides the integer drawn below N by the same N, a power of two not above 2^53 (the quotient is exact and
    below 1.0);
  * random.pl reaches the primitives only under the type tests of the documented errors, names the predicate's own
    indicator and the failed argument in every error, and calls '$random_integer' for random_integer/3 only after
    Lower < Upper.
"""
import os
import re
import sys

from .core import AnchorLost, REPO, short, walk
from . import c22

sys.path.insert(0, os.path.dirname(os.path.dirname(os.path.abspath(__file__))))
from plread import plread as P  # noqa: E402

EXPLANATION = (
    "Match-arm rules over the typed HIR of Machine::random_integer and Machine::set_seed (representation "
    "coverage, empty-range test, half-open range built from the matched bounds, no unwrapped narrowing of the "
    "seed); path-condition rules over the clauses of random.pl (plread): guards before the primitives, error "
    "helper calls name the failed argument and the predicate's indicator; constant rule for random/1."
)
ASSUMPTIONS = ["rand's gen_range draws uniformly from the range it is given and StdRng::seed_from_u64 is a function of the seed (the rand crate, not decided)",
               "library(error)'s instantiation_error/1 and type_error/3 throw the ISO terms they are named after"]


def num_variant(p):
    """'Fixnum' / 'Integer' for a pattern Ok(Number::X(name)) -> (variant, binder)"""
    for x in walk(p):
        if x.get("k") == "PTupleStruct" and re.search(r"::Number::(Fixnum|Integer|Rational|Float)$", x.get("res", {}).get("def") or ""):
            names = [y["name"] for y in walk(x) if y.get("k") == "PBind"]
            return x["res"]["def"].rsplit("::", 1)[-1], (names[0] if names else None)
    return None, None


def local_sources(body, name, depth=0):
    """locals a local is computed from (through let bindings), including itself"""
    out = {name}
    if depth > 3:
        return out
    for x in walk(body):
        if x["k"] == "Let" and "init" in x:
            bound = [y["name"] for y in walk(x["pat"]) if y.get("k") == "PBind"]
            if name in bound:
                for y in walk(x["init"]):
                    if y["k"] == "Path" and "local" in y.get("res", {}) and y["res"]["local"] != name:
                        out |= local_sources(body, y["res"]["local"], depth + 1)
    return out


def run(ctx, R):
    F = ctx.facts()
    R.rule("RF10 representation coverage and RF3 guarded range construction in the Rust primitives; RF3 path conditions in random.pl")
    ri = [p for p in F.items if re.search(r"system_calls::<impl machine::Machine>::random_integer$", p)]
    ss = [p for p in F.items if re.search(r"system_calls::<impl machine::Machine>::set_seed$", p)]
    if len(ri) != 1 or len(ss) != 1:
        raise AnchorLost("Machine::random_integer (%d) / Machine::set_seed (%d)" % (len(ri), len(ss)))
    ri, ss = ri[0], ss[0]
    body = F.hir(ri)["body"]
    pair = [m for m in walk(body) if m["k"] == "Match" and m["scrut"]["k"] == "Tup" and len(m["scrut"]["elems"]) == 2
            and all(e["k"] == "Call" and (e.get("callee") or "").endswith("try_from") for e in m["scrut"]["elems"])]
    if len(pair) != 1:
        raise AnchorLost("random_integer: the match on the two bounds (%d)" % len(pair))
    # which register each bound comes from
    regs = []
    for e in pair[0]["scrut"]["elems"]:
        srcs = set()
        for y in walk(e):
            if y["k"] == "Path" and "local" in y.get("res", {}):
                srcs |= local_sources(body, y["res"]["local"])
        lits = set()
        for x in walk(body):
            if x["k"] == "Let" and "init" in x and any(y.get("k") == "PBind" and y["name"] in srcs for y in walk(x["pat"])):
                for y in walk(x["init"]):
                    if y["k"] == "MethodCall" and y["name"] == "deref_register":
                        for z in walk(y["args"][0] if y["args"] else {}):
                            if z["k"] == "Lit" and "int" in z["lit"]:
                                lits.add(int(z["lit"]["int"]))
        regs.append(lits)
    R.ob("C52:random_integer:bounds-read-from-registers-1-and-2-in-order", regs == [{1}, {2}],
         "random_integer matches the pair (lower, upper) on values read from registers %s: the first component must come from argument 1 and the second from argument 2" % regs, F.where(ri))
    seen = set()
    for arm in pair[0]["arms"]:
        pt = arm["pat"]
        if pt["k"] != "PTuple" or len(pt["pats"]) != 2:
            continue
        (v1, lo), (v2, hi) = num_variant(pt["pats"][0]), num_variant(pt["pats"][1])
        if v1 not in ("Fixnum", "Integer") or v2 not in ("Fixnum", "Integer"):
            continue
        seen.add((v1, v2))
        key = "C52:random_integer:%s-%s" % (v1, v2)
        lo_src = hi_src = None
        # names that stand for the lower / upper bound inside the arm (rebinding through let keeps the name's origin)
        lows, highs = {lo}, {hi}
        for x in walk(arm["body"]):
            if x["k"] == "Let" and "init" in x:
                bound = [y["name"] for y in walk(x["pat"]) if y.get("k") == "PBind"]
                init_locals = [y["res"]["local"] for y in walk(x["init"]) if y["k"] == "Path" and "local" in y.get("res", {})]
                if x["pat"]["k"] == "PTuple" and x["init"]["k"] == "Tup" and len(bound) == len(x["init"]["elems"]):
                    for b, e in zip(bound, x["init"]["elems"]):
                        ls = {y["res"]["local"] for y in walk(e) if y["k"] == "Path" and "local" in y.get("res", {})}
                        if ls & lows and not ls & highs:
                            lows.add(b)
                        if ls & highs and not ls & lows:
                            highs.add(b)
                elif len(bound) == 1:
                    if set(init_locals) & lows and not set(init_locals) & highs:
                        lows.add(bound[0])
                    if set(init_locals) & highs and not set(init_locals) & lows:
                        highs.add(bound[0])

        def side(e):
            ls = {y["res"]["local"] for y in walk(e) if y["k"] == "Path" and "local" in y.get("res", {})}
            if ls and ls <= lows:
                return "lower"
            if ls and ls <= highs:
                return "upper"
            return "?"
        empty = False
        for x in walk(arm["body"]):
            if x["k"] == "If" and x["cond"]["k"] == "Binary":
                c = x["cond"]
                rel = (side(c["a"]), c["op"], side(c["b"]))
                fails = any(y["k"] == "Assign" and y["lhs"].get("name") == "fail" and y["rhs"].get("lit", {}).get("bool") is True for y in walk(x["then"])) and \
                    any(y["k"] == "Ret" for y in walk(x["then"]))
                if fails and rel in (("lower", "Ge", "upper"), ("upper", "Le", "lower")):
                    empty = True
        R.ob(key + ":fails-when-lower-is-not-below-upper", empty,
             "random_integer, arm (%s, %s): no test `lower >= upper` that fails and returns before the draw: an empty range panics in gen_range (or a value outside "
             "L =< X < H is produced)" % (v1, v2), F.where(ri))
        draws = [x for x in walk(arm["body"]) if x["k"] == "MethodCall" and x["name"] == "gen_range"]
        ok = len(draws) == 1 and draws[0]["args"] and draws[0]["args"][0]["k"] == "Struct" and (draws[0]["args"][0]["res"].get("def") or "").endswith("ops::Range")
        if ok:
            f = dict((n, e) for n, e in draws[0]["args"][0]["fields"])
            ok = side(f["start"]) == "lower" and side(f["end"]) == "upper"
        R.ob(key + ":draws-from-the-half-open-range-lower..upper", ok,
             "random_integer, arm (%s, %s): the value is not drawn from the half-open range built from this arm's lower and upper bound in that order (an inclusive or swapped "
             "range yields X = H or panics)" % (v1, v2), F.where(ri))
    R.ob("C52:random_integer:all-four-representation-pairs", seen == {("Fixnum", "Fixnum"), ("Fixnum", "Integer"), ("Integer", "Fixnum"), ("Integer", "Integer")},
         "random_integer has arms for %s only: bounds beyond the small-integer range on one side fail silently" % sorted(seen), F.where(ri))
    # the value drawn reaches argument 3 in both representations
    res = [m for m in walk(body) if m["k"] == "Match" and m is not pair[0] and any(num_variant(a["pat"])[0] == "Fixnum" for a in m["arms"]) and any(num_variant(a["pat"])[0] == "Integer" for a in m["arms"])
           and m["scrut"]["k"] == "Path"]
    ok = False
    for m in res:
        good = 0
        for a in m["arms"]:
            v, nm = num_variant(a["pat"])
            if v in ("Fixnum", "Integer"):
                calls = [x for x in walk(a["body"]) if x["k"] == "MethodCall" and x["name"] in ("unify_fixnum", "unify_big_int")]
                want = "unify_fixnum" if v == "Fixnum" else "unify_big_int"
                if len(calls) == 1 and calls[0]["name"] == want and calls[0]["args"] and calls[0]["args"][0]["k"] == "Path" and calls[0]["args"][0]["res"].get("local") == nm:
                    good += 1
        ok = ok or good == 2
    R.ob("C52:random_integer:value-drawn-is-unified-in-both-representations", ok,
         "random_integer does not unify the value drawn with its third argument through unify_fixnum / unify_big_int for the respective representation", F.where(ri))

    # ---- set_seed ---------------------------------------------------------------------------------------------
    sb = F.hir(ss)["body"]
    n_arm = 0
    for m in walk(sb):
        if m["k"] != "Match":
            continue
        for arm in m["arms"]:
            v, nm = num_variant(arm["pat"])
            if v not in ("Fixnum", "Integer", "Rational"):
                continue
            n_arm += 1
            bad = [x["ln"] for x in walk(arm["body"]) if x["k"] == "MethodCall" and x["name"] in ("unwrap", "expect") and
                   any((y["k"] == "MethodCall" and y["name"] in ("try_into", "to_u64", "to_i64")) or (y["k"] == "Call" and (y.get("callee") or "").endswith("try_from")) for y in walk(x["recv"]))]
            R.ob("C52:set_seed:%s:every-integer-is-a-seed" % v, not bad,
                 "set_seed, arm %s: the seed is narrowed through an unwrap (line %s): set_random(seed(-1)) or seed(2^70) aborts the process instead of seeding the generator" % (v, bad), F.where(ss))
            seeds = [x for x in walk(arm["body"]) if x["k"] == "Call" and (x.get("callee") or "").endswith("seed_from_u64")]
            uses = False
            for x in seeds:
                srcs = set()
                for y in walk(x):
                    if y["k"] == "Path" and "local" in y.get("res", {}):
                        srcs |= local_sources(arm["body"], y["res"]["local"])
                uses = uses or nm in srcs
            assigned = any(x["k"] == "Assign" and x["lhs"].get("name") == "rng" for x in walk(arm["body"]))
            R.ob("C52:set_seed:%s:generator-reseeded-from-the-integer-matched" % v, uses and assigned,
                 "set_seed, arm %s: self.rng is not replaced by a generator seeded from the integer this arm matched: the sequence after set_random(seed(S)) does not depend on S alone" % v, F.where(ss))
    R.floor("integer arms of set_seed", n_arm, 3)

    # ---- random.pl ----------------------------------------------------------------------------------------------
    text = open(os.path.join(REPO, "src/lib/random.pl")).read()
    clauses = {}
    for term, line in P.read_clauses(text):
        if term[0] == "error":
            continue
        h, b = P.head_body(term)
        f = P.functor(h)
        if f:
            clauses.setdefault(f, []).append((h, b, line))
    for f in (("random", 1), ("random_integer", 3), ("set_random", 1)):
        if len(clauses.get(f, [])) != 1:
            raise AnchorLost("random.pl: %s/%d (%d clauses)" % (f[0], f[1], len(clauses.get(f, []))))
    names = c22.TESTS | {"<", "=", "\\+"}
    n_prim = n_err = 0
    for f in (("random_integer", 3), ("set_random", 1), ("random", 1)):
        h, b, line = clauses[f][0]
        where = "src/lib/random.pl:%d %s/%d" % (line, f[0], f[1])
        sites = []
        c22.visit(b, [], sites)
        pk = ek = 0
        for g, cx in sites:
            gf = P.functor(g)
            if gf is None:
                continue
            tests = c22.tests_on(cx, names)
            if gf[0] in ("$random_integer", "$set_seed"):
                n_prim += 1
                for ai, a in enumerate(g[2][:2] if gf[0] == "$random_integer" else g[2]):
                    if a[0] != "var":
                        continue
                    if f == ("random", 1):
                        continue  # its bounds are the constants checked below
                    # a failed condition \+ integer(X) arrives as '+' integer(X) (tests_on flips it)
                    ok = any(sign == "+" and P.functor(s) == ("integer", 1) and s[2][0] == a for sign, s in tests)
                    R.ob("C52:primitive-guarded:%s/%d:%s#%d:arg%d" % (f[0], f[1], gf[0], pk, ai + 1), ok,
                         "%s/%d calls %s with %s on a path where integer(%s) has not been established (tests: %s): a non-integer bound fails silently in the primitive instead "
                         "of raising type_error(integer, _)" % (f[0], f[1], P.show(g), a[1], a[1], [sg + P.show(s) for sg, s in tests][:8]), where)
                if f == ("random_integer", 3):
                    lt = any(sign == "+" and P.functor(s) == ("<", 2) and s[2] == [g[2][0], g[2][1]] for sign, s in tests)
                    R.ob("C52:random_integer/3:primitive-called-only-after-Lower<Upper", lt,
                         "random_integer/3 calls %s without having established Lower < Upper on the path" % P.show(g), where)
                pk += 1
            if gf in (("instantiation_error", 1), ("type_error", 3)):
                n_err += 1
                key = "C52:error-term:%s/%d:%s#%d" % (f[0], f[1], gf[0], ek)
                ek += 1
                PI = g[2][-1]
                R.ob(key + ":indicator", PI == ("cmp", "/", [("atom", f[0]), ("int", f[1])]), "%s/%d reports its error as coming from %s" % (f[0], f[1], P.show(PI)), where)
                if gf[0] == "instantiation_error":
                    ok = any(sign == "+" and P.functor(s) == ("var", 1) for sign, s in tests) or any(sign == "-" and P.functor(s) == ("nonvar", 1) for sign, s in tests)
                    R.ob(key + ":only-after-var-test", ok, "%s/%d raises instantiation_error on a path where no var/1 test has succeeded (tests: %s)" % (f[0], f[1], [sg + P.show(s) for sg, s in tests][:8]), where)
                else:
                    T, V = g[2][0], g[2][1]
                    # the failed test: integer(V) failed (else-branch) or \+ integer(V) succeeded (recorded by visit as '-' integer(V))
                    failed = [s for sign, s in tests if sign == "-" and P.functor(s) == ("integer", 1)]
                    R.ob(key + ":names-the-argument-whose-integer-test-failed", T == ("atom", "integer") and any(s[2][0] == V for s in failed),
                         "%s/%d raises %s, but integer/1 has failed on this path for %s" % (f[0], f[1], P.show(g), [P.show(s[2][0]) for s in failed]), where)
    R.floor("primitive calls in random.pl", n_prim, 3)
    R.floor("error helper calls in random.pl", n_err, 6)
    # random/1: K below N, divided by the same N = 2^k, k <= 53
    h, b, line = clauses[("random", 1)][0]
    gs = [c22.unq(g) for g in P.conj(b)]
    n_is = [g for g in gs if P.functor(g) == ("is", 2) and g[2][1][0] == "cmp" and g[2][1][1] == "^" and g[2][1][2][0] == ("int", 2) and g[2][1][2][1][0] == "int"]
    draw = [g for g in gs if P.functor(g) == ("$random_integer", 3)]
    div = [g for g in gs if P.functor(g) == ("is", 2) and g[2][1][0] == "cmp" and g[2][1][1] == "/"]
    ok = len(n_is) == 1 and len(draw) == 1 and len(div) == 1
    if ok:
        N = n_is[0][2][0]
        k = n_is[0][2][1][2][1][1]
        ok = k <= 53 and draw[0][2][0] == ("int", 0) and draw[0][2][1] == N and div[0][2][1][2] == [draw[0][2][2], N] and div[0][2][0] == h[2][0] and \
            gs.index(n_is[0]) < gs.index(draw[0]) < gs.index(div[0])
    R.ob("C52:random/1:integer-below-2^k-divided-by-the-same-2^k", ok,
         "random/1 is not `N is 2^k (k =< 53), '$random_integer'(0, N, K), R is K/N` with one N: the quotient is then not exact, or can reach 1.0", "src/lib/random.pl:%d random/1" % line)
    R.ob("C52:random/1:argument-must-be-unbound", any(P.functor(g) == ("var", 1) and g[2][0] == h[2][0] for g in gs), "random/1 does not test var(R) first", "src/lib/random.pl:%d random/1" % line)
