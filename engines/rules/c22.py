"""C22 — atom and character builtins: the error clause only.

The statement's last clause ("the builtins raise the ISO instantiation, type and representation errors for bad
arguments") has a shape in the code. On the Prolog side (src/lib/builtins.pl) every public predicate of the group is
one if-then-else tree whose leaves either call a primitive ('$atom_length', '$atom_chars', '$atom_codes',
'$char_code') or throw error(E, Name/Arity); on the Rust side the primitives receive an integer either as a small
integer or as an arbitrary-precision one and must answer representation_error for both when the value is not a
character code. Decided here:

  * every primitive call is reached only under a type test of each of its arguments;
  * every throw in the group is error(E, PI) with E an ISO error term, PI the indicator of the predicate the clause
    belongs to (or the indicator parameter of a helper), the culprit of a type_error/domain_error is a variable the
    path has tested with the test that belongs to the named type, and an instantiation_error is thrown only where a
    var/1 (or ground/1) test has spoken;
  * in the Rust primitives and the functions they call, the arm for an arbitrary-precision integer does not unwrap its
    narrowing to a machine integer: char_code(C, N) with N = 2^70 panicked there instead of raising
    representation_error(character_code).

The solution sequences of the enumerating modes (sub_atom/5, atom_concat/3 through append/3) are run-time values and
are not decided.
"""
import os
import re
import sys

from .core import AnchorLost, REPO, atom_of, short, walk

sys.path.insert(0, os.path.dirname(os.path.dirname(os.path.abspath(__file__))))
from plread import plread as P  # noqa: E402

EXPLANATION = (
    "Path-condition rules over the clause trees of atom_length/2, atom_chars/2, atom_codes/2, char_code/2, "
    "atom_concat/3, sub_atom/5 and their helpers in builtins.pl (plread): guard-before-primitive, form and "
    "indicator of every thrown error, culprit/test/type agreement. Match-arm rule over the typed HIR of the Rust "
    "primitives and their in-crate callees: no unwrap of a narrowing conversion in a Number::Integer arm."
)
ASSUMPTIONS = ["plread parses the clauses of builtins.pl as the system's own reader does",
               "error:can_be/2 and error:must_be/2 raise the ISO type errors they are named after (library(error), not decided here)"]

PUBLIC = [("atom_length", 2), ("atom_chars", 2), ("atom_codes", 2), ("char_code", 2), ("atom_concat", 3), ("sub_atom", 5)]
HELPERS = [("chars_or_vars", 2), ("chars_or_vars_", 2), ("codes_or_vars", 2)]
PRIMS = {"$atom_length", "$atom_chars", "$atom_codes", "$char_code"}
TESTS = {"var", "nonvar", "atom", "integer", "ground", "atom_length", "chars_or_vars", "codes_or_vars", "$skip_max_list", "can_be", "must_be", "==",
         "$is_partial_string", "<", ">=", "catch"}
# type named in type_error(T, _) -> the tests whose failure justifies it
TYPE_TESTS = {"atom": {"atom"}, "integer": {"integer"}, "character": {"atom", "atom_length"}, "list": {"==", "var", "$skip_max_list"}}
ISO_ERRORS = {"instantiation_error": 0, "type_error": 2, "domain_error": 2, "representation_error": 1}
RUST_PRIMS = ["atom_length", "atom_chars", "atom_codes", "char_code"]


def unq(g):
    while g[0] == "cmp" and g[1] == ":" and len(g[2]) == 2:
        g = g[2][1]
    return g


def vars_of(t):
    if t[0] == "var":
        return {t[1]}
    if t[0] == "cmp":
        s = set()
        for a in t[2]:
            s |= vars_of(a)
        return s
    return set()


def simple_goals(t):
    """every simple goal inside a control construct (used for conditions)"""
    t = unq(t)
    if t[0] == "cmp" and t[1] in (",", ";", "->", "\\+") and len(t[2]) in (1, 2):
        out = []
        for a in t[2]:
            out += simple_goals(a)
        return out
    return [t]


def visit(t, ctx, out):
    """out gets (goal, ctx) for every simple goal of the clause body; ctx is the list of (sign, goal) known on the way:
    '+' the goal succeeded, '-' the condition (whole term) failed."""
    t = unq(t)
    if t[0] == "cmp" and t[1] == "," and len(t[2]) == 2:
        for g in P.conj(t):
            ctx = visit(g, ctx, out)
        return ctx
    if t[0] == "cmp" and t[1] == ";" and len(t[2]) == 2:
        l, r = t[2]
        l = unq(l)
        if l[0] == "cmp" and l[1] == "->" and len(l[2]) == 2:
            c, th = l[2]
            cctx = visit(c, ctx, out)
            visit(th, cctx, out)
            visit(r, ctx + [("-", c)], out)
        else:
            visit(l, ctx, out)
            visit(r, ctx, out)
        return ctx
    if t[0] == "cmp" and t[1] == "->" and len(t[2]) == 2:
        c, th = t[2]
        cctx = visit(c, ctx, out)
        visit(th, cctx, out)
        return ctx
    if t[0] == "cmp" and t[1] == "\\+" and len(t[2]) == 1:
        out.append((t, ctx))
        return ctx + [("-", t[2][0])]
    out.append((t, ctx))
    return ctx + [("+", t)]


def tests_on(ctx, names=None):
    """(sign, simple test goal) for every type test on the path"""
    names = TESTS if names is None else names
    res = []
    for sign, g in ctx:
        g = unq(g)
        if sign == "-" and g[0] == "cmp" and g[1] == "\\+" and len(g[2]) == 1:
            # the failure of \+ G is the success of G
            sign, g = "+", g[2][0]
        for s in simple_goals(g):
            f = P.functor(s)
            if f and f[0] in names:
                res.append((sign, s))
    return res


def run(ctx, R):
    F = ctx.facts()
    R.rule("RF3 guard-before-primitive and error-term rules over the clause trees of builtins.pl; RF1 integer-arm rule over the Rust primitives")
    text = open(os.path.join(REPO, "src/lib/builtins.pl")).read()
    clauses = {}
    for term, line in P.read_clauses(text):
        if term[0] == "error":
            continue
        h, b = P.head_body(term)
        f = P.functor(h)
        if f in PUBLIC or f in HELPERS:
            clauses.setdefault(f, []).append((h, b, line))
    for f in PUBLIC + HELPERS:
        if f not in clauses:
            raise AnchorLost("builtins.pl: %s/%d not found or not parsed" % f)
    n_prim = n_throw = 0
    for f in PUBLIC + HELPERS:
        for ci, (h, b, line) in enumerate(clauses[f]):
            sites = []
            visit(b, [], sites)
            where = "src/lib/builtins.pl:%d %s/%d" % (line, f[0], f[1])
            pk = 0
            tk = 0
            for g, cx in sites:
                gf = P.functor(g)
                if gf is None:
                    continue
                tests = tests_on(cx)
                if gf[0] in PRIMS:
                    n_prim += 1
                    for ai, a in enumerate(g[2]):
                        if a[0] != "var":
                            continue
                        ok = any(sign == "+" and a[1] in vars_of(s) for sign, s in tests)
                        R.ob("C22:primitive-guarded:%s/%d#%d:%s#%d:arg%d" % (f[0], f[1], ci, gf[0], pk, ai + 1), ok,
                             "%s/%d calls %s with %s on a path where no type test of %s has succeeded (tests on the path: %s): an ill-typed argument reaches the "
                             "primitive, which assumes the type (cell_as_atom!) instead of raising the ISO error" % (f[0], f[1], P.show(g), a[1], a[1], [sg + P.show(s) for sg, s in tests][:8]), where)
                    pk += 1
                if gf == ("throw", 1):
                    n_throw += 1
                    key = "C22:error-term:%s/%d#%d:throw#%d" % (f[0], f[1], ci, tk)
                    tk += 1
                    e = g[2][0]
                    form = e[0] == "cmp" and e[1] == "error" and len(e[2]) == 2
                    R.ob(key + ":is-error/2", form, "%s/%d throws %s: not error(E, PI)" % (f[0], f[1], P.show(e)), where)
                    if not form:
                        continue
                    E, PI = e[2]
                    ef = P.functor(E)
                    R.ob(key + ":iso-error", ef is not None and ISO_ERRORS.get(ef[0]) == ef[1], "%s/%d throws %s: not an ISO error term" % (f[0], f[1], P.show(E)), where)
                    if f in PUBLIC:
                        want = ("cmp", "/", [("atom", f[0]), ("int", f[1])])
                        R.ob(key + ":indicator", PI == want, "%s/%d reports its error as coming from %s" % (f[0], f[1], P.show(PI)), where)
                    else:
                        R.ob(key + ":indicator", PI[0] == "var" and PI[1] in vars_of(h), "%s/%d (a helper) reports its error with %s, not with the indicator it was handed" % (f[0], f[1], P.show(PI)), where)
                    if ef is None:
                        continue
                    if ef[0] == "instantiation_error":
                        ok = any(sign == "+" and P.functor(s)[0] == "var" for sign, s in tests) or any(sign == "-" and P.functor(s)[0] in ("ground", "nonvar") for sign, s in tests)
                        R.ob(key + ":instantiation-only-after-var-test", ok,
                             "%s/%d throws instantiation_error on a path where no var/1 test has succeeded (tests: %s)" % (f[0], f[1], [sg + P.show(s) for sg, s in tests][:8]), where)
                    if ef[0] == "type_error":
                        T, V = E[2]
                        allowed = TYPE_TESTS.get(T[1] if T[0] == "atom" else None)
                        failed = [s for sign, s in tests if sign == "-" and allowed and P.functor(s)[0] in allowed]
                        tested = set()
                        for s in failed:
                            tested |= vars_of(s)
                        linked = set(tested)
                        for sign, s in tests:
                            if sign == "+" and vars_of(s) & tested:
                                linked |= vars_of(s)
                        R.ob(key + ":type-error-names-the-tested-argument", allowed is not None and V[0] == "var" and V[1] in linked,
                             "%s/%d throws %s, but the tests that failed on this path for that type are %s: the culprit (or the type) is not the one tested" %
                             (f[0], f[1], P.show(E), [P.show(s) for s in failed]), where)
                    if ef[0] == "domain_error":
                        D, V = E[2]
                        neg = [s for sign, s in tests if (sign == "+" and P.functor(s) == ("<", 2) and s[2][1] == ("int", 0)) or (sign == "-" and P.functor(s) == (">=", 2) and s[2][1] == ("int", 0))]
                        ok = D == ("atom", "not_less_than_zero") and V[0] == "var" and any(s[2][0] == V for s in neg)
                        R.ob(key + ":domain-error-names-the-negative-argument", ok,
                             "%s/%d throws %s, but the path has established a negative value only for %s" % (f[0], f[1], P.show(E), [P.show(s[2][0]) for s in neg]), where)
                    if ef[0] == "representation_error":
                        ok = any(sign == "+" and P.functor(s) == ("integer", 1) for sign, s in tests)
                        R.ob(key + ":representation-error-only-for-integers", ok, "%s/%d throws %s on a path where integer/1 has not succeeded" % (f[0], f[1], P.show(E)), where)
    R.floor("primitive calls in the atom/character group", n_prim, 9)
    R.floor("throws in the atom/character group", n_throw, 20)
    integer_arms(F, R)
    char_type_names(F, R)


def integer_arms(F, R):
    """A computed integer beyond the small-integer range arrives as Number::Integer. Its narrowing to u32/u8/usize fails
    for every such value, so an unwrap of the conversion in that arm is a certain panic for a bad argument."""
    roots = []
    for nm in RUST_PRIMS:
        c = [p for p in F.items if re.search(r"system_calls::<impl machine::Machine>::%s$" % nm, p)]
        if len(c) != 1:
            raise AnchorLost("Machine::%s (%d)" % (nm, len(c)))
        roots.append(c[0])
    scope = []
    seen = set()
    work = [(r, 0) for r in roots]
    while work:
        p, d = work.pop()
        if p in seen:
            continue
        seen.add(p)
        scope.append(p)
        if d >= 2:
            continue
        for c in F.calls.get(p, []):
            t = c.get("resolved") or c.get("callee") or ""
            if t in F.items and F.items[t]["file"].startswith("src/machine/system_calls.rs") and t not in seen:
                work.append((t, d + 1))
    n_arm = 0
    for p in sorted(scope):
        try:
            body = F.hir(p)["body"]
        except AnchorLost:
            continue
        k = 0
        for m in walk(body):
            if m["k"] != "Match":
                continue
            for arm in m["arms"]:
                if not any(x.get("k") == "PTupleStruct" and (x.get("res", {}).get("def") or "").endswith("::Number::Integer") for x in walk(arm["pat"])):
                    continue
                names = {x["name"] for x in walk(arm["pat"]) if x.get("k") == "PBind"}
                n_arm += 1
                bad = []
                for x in walk(arm["body"]):
                    if x["k"] == "MethodCall" and x["name"] in ("unwrap", "expect", "unwrap_unchecked"):
                        conv = [y for y in walk(x["recv"]) if (y["k"] == "MethodCall" and y["name"] in ("try_into", "to_u32", "to_usize", "to_u8", "to_i64", "to_u64"))
                                or (y["k"] == "Call" and re.search(r"TryFrom.*::try_from$|::try_from$", y.get("callee") or ""))]
                        if conv and any(y["k"] == "Path" and y.get("res", {}).get("local") in names for y in walk(x["recv"])):
                            bad.append(x["ln"])
                R.ob("C22:integer-arm:%s#%d:narrowing-not-unwrapped" % (short(p), k), not bad,
                     "%s: the arm for an arbitrary-precision integer unwraps its conversion to a machine integer (line %s): every integer that reaches this arm is too large, so a "
                     "bad argument (char_code(C, N) with N = 2^70) panics instead of raising representation_error" % (short(p), bad), F.where(p))
                k += 1
    R.floor("Number::Integer arms in the atom/character primitives", n_arm, 2)
    # ... and the small-integer arm narrows with a checked conversion too: `n.get_num() as u32` keeps the low 32 bits, so
    # char_code(C, 4294967393) (2^32 + 97) answers C = a instead of raising representation_error(character_code)
    n_cast = 0
    for p in sorted(scope):
        try:
            body = F.hir(p)["body"]
        except AnchorLost:
            continue
        k = 0
        for x in walk(body):
            if x["k"] == "Cast" and (x.get("ty") in ("u32", "u8", "u16", "i32", "char")) and (x["a"].get("ty") in ("i64", "i128", "u64", "usize", "isize")):
                if x.get("from_expansion") or any(m[0] in ("fixnum", "cell_as_fixnum") for m in (x.get("mac") or [])):
                    continue
                n_cast += 1
                R.ob("C22:narrowing-cast:%s#%d" % (short(p), k), False,
                     "%s narrows a %s to %s with `as` (line %s): the cast keeps the low bits, so an out-of-range code is taken for the character its low bits spell instead of "
                     "raising representation_error" % (short(p), x["a"].get("ty"), x.get("ty"), x["ln"]), F.where(p))
                k += 1
    R.notes.append("narrowing `as` casts of machine integers in the atom/character primitives: %d (expected none)" % n_cast)
    R.notes.append("Rust primitives analysed with callees (depth 2, system_calls.rs): %s" % ", ".join(short(p) for p in sorted(scope)))


# the classification atom a `char` method stands for when it is not the method's name without `is_`
METHOD_ATOM = {"is_lowercase": "lower", "is_uppercase": "upper"}
# the classification atom a lexer class macro stands for when it is not the macro's name without `_char`
MACRO_ATOM = {"alpha_numeric_char": "alnum", "capital_letter_char": "upper", "small_letter_char": "lower"}
CASE_METHOD = {"lower": "to_lowercase", "upper": "to_uppercase"}


def char_type_names(F, R):
    """char_type/2's primitive answers a classification query `chars == atom!("x")` with a test of the character. The
    test and the atom are written side by side 27 times; each pair has to name the same class: `c.is_lowercase()` next to
    atom!("lower"), the lexer class `binary_digit_char!` next to atom!("binary_digit"). The two case conversions
    lower(L) / upper(U) call the conversion their functor names. The atoms are those of ctype/1 in charsio.pl."""
    c = [p for p in F.items if re.search(r"system_calls::<impl machine::Machine>::char_type$", p)]
    if len(c) != 1:
        raise AnchorLost("Machine::char_type (%d)" % len(c))
    body = F.hir(c[0])["body"]
    rust_atoms = set()
    n = 0
    for x in walk(body):
        if x["k"] != "If" or x["cond"]["k"] != "Binary" or x["cond"]["op"] != "And":
            continue
        test, eq = x["cond"]["a"], x["cond"]["b"]
        if eq["k"] != "Binary" or eq["op"] != "Eq":
            continue
        name = atom_of(eq["b"]) or atom_of(eq["a"])
        if name is None:
            continue
        n += 1
        rust_atoms.add(name)
        macs = [m[0] for m in (test.get("mac") or []) if m[0].endswith("_char")]
        if macs:
            want = MACRO_ATOM.get(macs[0], macs[0][:-len("_char")])
            what = macs[0] + "!"
        elif test["k"] == "MethodCall" and test["recv"].get("ty") == "char":
            want = METHOD_ATOM.get(test["name"], test["name"][3:] if test["name"].startswith("is_") else test["name"])
            what = "char::" + test["name"]
        else:
            want, what = None, test["k"]
        R.ob("C22:char_type:class-test-matches-its-atom:%s" % name, want == name,
             "Machine::char_type answers the class `%s` with the test %s (line %s), which is the test of the class `%s`" % (name, what, x["ln"], want), F.where(c[0]))
    R.floor("classification tests of char_type", n, 27)
    seen = set()
    for m in walk(body):
        if m["k"] != "Match":
            continue
        for arm in m["arms"]:
            names = [atom_of(y) for y in walk(arm["pat"])]
            names = [a for a in names if a in CASE_METHOD]
            lits = [y for y in walk(arm["pat"]) if y.get("k") == "PLit" or y.get("k") == "Lit"]
            if len(names) != 1:
                continue
            conv = sorted({y["name"] for y in walk(arm["body"]) if y["k"] == "MethodCall" and y["name"] in ("to_lowercase", "to_uppercase", "to_ascii_lowercase", "to_ascii_uppercase")})
            seen.add(names[0])
            R.ob("C22:char_type:case-conversion-matches-its-functor:%s" % names[0], conv == [CASE_METHOD[names[0]]],
                 "Machine::char_type answers %s(X) with the conversion(s) %s (arm at line %s): char_type(a, lower(L)) gave L = \"A\"" % (names[0], conv, arm["ln"]), F.where(c[0]))
    R.ob("C22:char_type:both-case-conversions-present", seen == {"lower", "upper"}, "Machine::char_type has conversion arms for %s only" % sorted(seen), F.where(c[0]))
    # charsio.pl's ctype/1 enumerates exactly the atoms the primitive knows
    text = open(os.path.join(REPO, "src/lib/charsio.pl")).read()
    pl = set()
    pl_case = set()
    for term, line in P.read_clauses(text):
        if term[0] == "error":
            continue
        h, b = P.head_body(term)
        if P.functor(h) == ("ctype", 1):
            a = h[2][0]
            if a[0] == "atom":
                pl.add(a[1])
            elif a[0] == "cmp" and len(a[2]) == 1:
                pl_case.add(a[1])
    if not pl:
        raise AnchorLost("charsio.pl: ctype/1 facts")
    R.ob("C22:char_type:enumerated-classes-are-the-implemented-ones", pl == rust_atoms and pl_case == seen,
         "charsio.pl's ctype/1 enumerates %s and not %s relative to the classes Machine::char_type implements (conversions: %s vs %s): char_type(C, T) with T unbound skips or "
         "invents a class" % (sorted(pl - rust_atoms), sorted(rust_atoms - pl), sorted(pl_case), sorted(seen)), "src/lib/charsio.pl ctype/1")
