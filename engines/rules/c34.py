"""C34 — Large and deeply nested terms never crash the process.

Decides absence of native recursion proportional to term size, as call-graph and type
structure: (a) every recursive cycle (SCC) of the whole-crate call graph is on the triaged table
(bounded by something other than term size, or outside the term operations of the statement);
(b) every recursive data type — whose compiler-generated drop / clone / debug glue recurses with
the depth of the value — is on the triaged table. `parser::ast::Term` is the one recorded
finding: its Box/Vec nesting makes the drop glue recurse once per list element / nesting level.
"""
import re

from .core import AnchorLost, CallGraph, short

EXPLANATION = (
    "RF8 recursion structure: Tarjan SCCs over the whole-crate call graph built from the MIR call "
    "facts (resolved callees, closures attached to their parents, trait calls fanned out to local "
    "impls) must equal the triaged table; recursive ADTs are computed from the type facts (field "
    "types mentioning the type itself through containers) and must equal the second table, because "
    "their drop/clone/fmt glue is recursion the call facts cannot show. A new cycle or a new "
    "recursive type is reported (conservative by design)."
)
ASSUMPTIONS = ["calls through std generic code (Vec<T>::clone -> T::clone, drop_in_place) are not call-graph edges: they are covered by the recursive-type table instead"]

# SCC table, keyed by the lexicographically smallest member (short name): disposition
SCCS = {
    "arithmetic_ops::checked_signed_shl": "bounded: recurses once after negating a negative operand",
    "arithmetic_ops::shl": "bounded: shl/shr call each other once for a negative shift amount (negated argument is positive)",
    "MachineState::set_ball": "bounded: throw_resource_error <-> set_ball is cut by the re-entrancy flag",
    "Loader<'a, LS>::use_module": "bounded by module import nesting of the program text, not by term size",
    "forms::fetch_atom_op_spec": "bounded: operator lookup falls back across at most the three operator classes",
    "Term::try_conjunction": "embedding API: splits an answer conjunction; depth = number of conjuncts of the printed answer (out of the statement's operations)",
    "Term::try_disjunction": "embedding API: as try_conjunction",
    "Machine::xml_node_to_term": "bounded by XML document nesting (load_xml/2), not a term operation of the statement",
    "Machine::html_node_to_term": "bounded by HTML document nesting (load_html/2), not a term operation of the statement",
    "Machine::build_struct": "FFI struct marshalling: bounded by the nesting of declared foreign struct types",
    "Machine::map_ffi_arg": "FFI argument marshalling: bounded by declared foreign struct nesting",
    "StructImpl::read": "FFI result marshalling: bounded by declared foreign struct nesting",
    "<'val>::build_args": "FFI argument building: bounded by declared foreign struct nesting",
}
# recursive data types: disposition; FINDING entries are failing obligations matched against known_findings.json
RECURSIVE_TYPES = {
    "parser::ast::Term": "FINDING",
    "forms::ChunkedTerms": "bounded: nesting of disjunctions/if-then-else in one clause body (program text), holds Terms by reference to the clause's Term",
    "functor_macro::FunctorElement": "bounded: built by the functor! macro from static program text",
    "machine::lib_machine::Term": "embedding API value; depth = depth of an answer term handed to the host program (recorded observation, outside the statement's Prolog-level operations)",
    "ffi::Value": "FFI value: bounded by declared foreign struct nesting",
    "atom_table::AtomTable": "not term-shaped: self mention through RawBlock<AtomTable> marker type",
    "atom_table::InnerAtomTable": "not term-shaped: marker type parameter",
    "machine::Machine": "not term-shaped: mentions itself through callback/pointer types",
    "machine::machine_state::MachineState": "not term-shaped: pointer-typed back references",
    "machine::streams::Stream": "not term-shaped: arena pointers to stream layouts",
    "machine::streams::NamedTlsStream": "not term-shaped",
    "machine::stack::Stack": "not term-shaped: raw block marker type",
    "arena::AllocSlab": "intrusive slab list: freed iteratively by drop_slab_in_place",
    "arena::UntypedArenaSlab": "intrusive slab list",
}
TERM_FINDING_KEY = "C34:recursive-type:parser::ast::Term:glue-recursion"


def recursive_types(F):
    T = F.types
    defs = {}
    for e in T["enums"]:
        defs[e["path"]] = [f[1] for v in e["variants"] for f in v["fields"]]
    for s in T["structs"]:
        defs[s["path"]] = [f[1] for f in s["fields"]]
    names = set(defs)
    rx = {n: re.compile(r"(^|[^A-Za-z0-9_:])" + re.escape(n) + r"($|[^A-Za-z0-9_])") for n in names}
    g = {}
    for n, fs in defs.items():
        s = set()
        for t in fs:
            for m in names:
                if m in t and rx[m].search(t):
                    s.add(m)
        g[n] = s
    rec = []
    for n in names:
        seen, st = set(), list(g[n])
        while st:
            x = st.pop()
            if x in seen:
                continue
            seen.add(x)
            st.extend(g.get(x, ()))
        if n in seen:
            rec.append(n)
    return sorted(rec), len(names)


def run(ctx, R):
    F = ctx.facts()
    R.rule("RF8 call-graph SCCs equal the triaged table; recursive data types equal the triaged table")
    cg = CallGraph(F)
    R.floor("call-graph nodes", len(cg.edges), 3500)
    sccs = cg.sccs()
    R.floor("recursive cycles", len(sccs), 8)
    for comp in sccs:
        tops = sorted({short(re.sub(r"(::\{closure#\d+\})+$", "", p)) for p in comp})
        key = tops[0]
        disp = None
        for t in tops:
            if t in SCCS:
                disp = SCCS[t]
                key = t
                break
        files = sorted({F.items[p]["file"] for p in comp if p in F.items})
        R.ob("C34:recursion-cycle:%s" % key, disp is not None,
             ("listed: " + disp) if disp else
             "new native recursion cycle %s in %s: if its depth follows the size of a term (list length, nesting depth) a 10^6-node term "
             "overflows the native stack; make it iterative or triage it" % (tops, files), files[0] if files else "")
        R.sample({"cycle": tops, "disposition": disp})
    rec, ntypes = recursive_types(F)
    R.floor("type definitions scanned", ntypes, 150)
    for t in rec:
        disp = RECURSIVE_TYPES.get(t)
        if disp == "FINDING":
            R.ob(TERM_FINDING_KEY, False,
                 "parser::ast::Term nests through Box<Term>/Vec<Term>: its compiler-generated drop (and clone/debug) glue recurses once per nesting level / list "
                 "element; read_term/2 of a 10^5-deep term or a 10^6-element list aborts with a native stack overflow", "src/parser/ast.rs")
        else:
            R.ob("C34:recursive-type:%s" % t, disp is not None,
                 ("listed: " + disp) if disp else "new recursive data type %s: its drop/clone glue recurses with the depth of the value" % t, t)
    for t in RECURSIVE_TYPES:
        if t not in rec and RECURSIVE_TYPES[t] == "FINDING":
            R.notes.append("%s is no longer recursive: the recorded finding no longer applies" % t)
