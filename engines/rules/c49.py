"""C49 — between/3, length/2, numlist/3, succ/2: the argument-checking clause only.

The tuples enumerated are run-time values of recursive Prolog code and are not decided. What has a shape:

  * arithmetic is applied to an argument only after the path has established that it is an integer (must_be/2,
    integer/1, or the success of '$skip_max_list' for the length bound): a comparison reached without that guard
    raises type_error(evaluable, _) or an instantiation error of is/2 in place of the documented error;
  * the decrement direction of succ/2 is guarded by a positivity test of the number decremented (0 has no
    predecessor among the naturals);
  * the error helper calls name the predicate they are in, a domain error for a negative argument is raised only where
    integer/1 has succeeded, and the type error names the argument the clause received.
"""
import os
import sys

import re

from .core import AnchorLost, REPO, walk
from . import c22

sys.path.insert(0, os.path.dirname(os.path.dirname(os.path.abspath(__file__))))
from plread import plread as P  # noqa: E402

EXPLANATION = (
    "Path-condition rules (plread) over between/3 and numlist/3 (between.pl), length/2 (lists.pl) and succ/2 "
    "(iso_ext.pl): integer guard before arithmetic on an argument, positivity guard before the decrement of "
    "succ/2, indicator and culprit of every error helper call."
)
ASSUMPTIONS = ["library(error)'s must_be/2, can_be/2, type_error/3, domain_error/3, instantiation_error/1 raise the ISO terms they are named after",
               "'$skip_max_list'(M, N, Xs0, Xs) succeeds only when N is unbound or a non-negative integer (C20's walker, not decided here)"]

ARITH = {"<", "=<", ">", ">=", "=:=", "=\\="}
SITES = [("src/lib/between.pl", ("between", 3)), ("src/lib/between.pl", ("numlist", 3)),
         ("src/lib/lists.pl", ("length", 2)), ("src/lib/iso_ext.pl", ("succ", 2))]


def guards_of(tests):
    """variables the path has established as integers"""
    g = set()
    for sign, s in tests:
        f = P.functor(s)
        if sign != "+" or f is None:
            continue
        if f == ("must_be", 2) and s[2][0] in (("atom", "integer"), ("atom", "not_less_than_zero")) and s[2][1][0] == "var":
            g.add(s[2][1][1])
        if f == ("integer", 1) and s[2][0][0] == "var":
            g.add(s[2][0][1])
        if f == ("$skip_max_list", 4):
            for a in s[2][:2]:
                if a[0] == "var":
                    g.add(a[1])
    # can_be(integer, X) together with nonvar(X) is integer(X)
    canbe = {s[2][1][1] for sign, s in tests if sign == "+" and P.functor(s) == ("can_be", 2) and s[2][1][0] == "var"}
    nonvar = {s[2][0][1] for sign, s in tests if P.functor(s) == ("nonvar", 1) and sign == "+" and s[2][0][0] == "var"}
    nonvar |= {s[2][0][1] for sign, s in tests if P.functor(s) == ("var", 1) and sign == "-" and s[2][0][0] == "var"}
    return g | (canbe & nonvar)


def run(ctx, R):
    R.rule("RF3 guard-before-use over the clause trees of the integer relation predicates (plread)")
    names = c22.TESTS | {"must_be", "can_be", "integer", "nonvar", "var", "$skip_max_list", ">", "<", "=<", ">="}
    n_arith = n_err = 0
    for path, f in SITES:
        text = open(os.path.join(REPO, path)).read()
        cls = []
        for term, line in P.read_clauses(text):
            if term[0] == "error":
                continue
            h, b = P.head_body(term)
            if P.functor(h) == f:
                cls.append((h, b, line))
        if not cls:
            raise AnchorLost("%s: %s/%d not found or not parsed" % (path, f[0], f[1]))
        for ci, (h, b, line) in enumerate(cls):
            where = "%s:%d %s/%d" % (path, line, f[0], f[1])
            head_vars = c22.vars_of(h)
            sites = []
            c22.visit(b, [], sites)
            ak = ek = 0
            for g, cx in sites:
                gf = P.functor(g)
                if gf is None:
                    continue
                tests = c22.tests_on(cx, names)
                ints = guards_of(tests)
                used = set()
                if gf[0] in ARITH and gf[1] == 2:
                    used = c22.vars_of(g) & head_vars
                elif gf == ("is", 2):
                    used = c22.vars_of(g[2][1]) & head_vars
                if used:
                    n_arith += 1
                    for v in sorted(used):
                        R.ob("C49:integer-guard-before-arithmetic:%s/%d#%d:%s#%d:%s" % (f[0], f[1], ci, gf[0], ak, v), v in ints,
                             "%s/%d evaluates %s on a path that has not established that %s is an integer (established: %s): an unbound or non-integer argument raises the error "
                             "of the arithmetic comparison instead of the documented type or instantiation error" % (f[0], f[1], P.show(g), v, sorted(ints)), where)
                    ak += 1
                if f == ("succ", 2) and gf == ("is", 2) and g[2][1][0] == "cmp" and g[2][1][1] == "-":
                    src = g[2][1][2][0]
                    ok = any(sign == "+" and P.functor(s) == (">", 2) and s[2] == [src, ("int", 0)] for sign, s in tests) or \
                        any(sign == "+" and P.functor(s) == (">=", 2) and s[2] == [src, ("int", 1)] for sign, s in tests)
                    R.ob("C49:succ/2:decrement-only-of-a-positive-number", ok, "succ/2 computes %s without having established %s > 0: succ(I, 0) answers I = -1" % (P.show(g), P.show(src)), where)
                if gf in (("instantiation_error", 1), ("type_error", 3), ("domain_error", 3), ("resource_error", 2)):
                    n_err += 1
                    key = "C49:error-term:%s/%d#%d:%s#%d" % (f[0], f[1], ci, gf[0], ek)
                    ek += 1
                    PI = g[2][-1]
                    R.ob(key + ":indicator", PI == ("cmp", "/", [("atom", f[0]), ("int", f[1])]), "%s/%d reports its error as coming from %s" % (f[0], f[1], P.show(PI)), where)
                    if gf[0] == "domain_error":
                        V = g[2][1]
                        R.ob(key + ":domain-error-only-for-an-integer-argument", V[0] == "var" and V[1] in head_vars and V[1] in ints,
                             "%s/%d raises %s on a path where integer(%s) has not succeeded" % (f[0], f[1], P.show(g), P.show(V)), where)
                    if gf[0] == "type_error":
                        V = g[2][1]
                        R.ob(key + ":type-error-names-an-argument", V[0] == "var" and V[1] in head_vars and g[2][0] == ("atom", "integer"),
                             "%s/%d raises %s: the culprit is not an argument of the clause, or the type is not integer" % (f[0], f[1], P.show(g)), where)
    R.floor("arithmetic goals on arguments", n_arith, 6)
    R.floor("error helper calls", n_err, 5)
    # length/2: the clause that raises the domain error comes before the one that raises the type error, and tests integer/1 with a cut
    text = open(os.path.join(REPO, "src/lib/lists.pl")).read()
    cls = [(P.head_body(t), ln) for t, ln in P.read_clauses(text) if t[0] != "error" and P.functor(P.head_body(t)[0]) == ("length", 2)]
    kinds = []
    for (h, b), ln in cls:
        gs = [c22.unq(g) for g in P.conj(b)]
        fs = [P.functor(g) for g in gs]
        if ("domain_error", 3) in fs:
            kinds.append("domain" if fs[:2] == [("integer", 1), ("!", 0)] and gs[0][2][0] == h[2][1] else "domain-unguarded")
        elif ("type_error", 3) in fs:
            kinds.append("type")
        else:
            kinds.append("work")
    R.ob("C49:length/2:clause-order-work-domain-type", kinds == ["work", "domain", "type"],
         "length/2's clauses are %s: expected the working clause, then `integer(N), !, domain_error(..)`, then the type error (a non-integer N must not reach the domain error, an integer "
         "N must not reach the type error)" % kinds, "src/lib/lists.pl length/2")
    # length/2 terminates on length([a|L], L): the test that finds N aliased to the list's open tail compares N with the
    # tail '$skip_max_list' left (its 4th argument), not with the list it was given
    (h, b), ln = cls[0]
    sk = [c22.unq(g) for g in P.conj(b) if P.functor(c22.unq(g)) == ("$skip_max_list", 4)]
    alias = []
    if sk:
        tail, given, nvar = sk[0][2][3], sk[0][2][2], h[2][1]
        stack = [b]
        while stack:
            x = stack.pop()
            if x[0] != "cmp":
                continue
            if x[1] == "==" and len(x[2]) == 2 and nvar in x[2]:
                alias.append(x[2][0] if x[2][1] == nvar else x[2][1])
            stack.extend(x[2])
    R.ob("C49:length/2:aliasing-test-compares-the-length-with-the-open-tail", bool(sk) and bool(alias) and all(a == tail for a in alias),
         "length/2 tests whether N is the list's own tail by comparing N with %s; the open tail is the 4th argument of '$skip_max_list' (%s): length([a|L], L) otherwise runs for ever"
         % ([P.show(a) for a in alias], P.show(sk[0][2][3]) if sk else None), "src/lib/lists.pl length/2")
    negative_maximum_fails_in_both_representations(ctx, R)


def negative_maximum_fails_in_both_representations(ctx, R):
    """length/2 relies on '$skip_max_list' failing for a negative maximum (its second clause then raises the domain error).
    A maximum beyond the machine word arrives as an arbitrary-precision integer; narrowing it and treating `does not fit`
    as `no maximum` is right for a huge positive number and wrong for a huge negative one: length(L, -(2^63)-1) raised
    resource_error(memory). The arm for Number::Integer asks the integer for its sign."""
    F = ctx.facts()
    c = [p for p in F.items if re.search(r"system_calls::<impl machine::machine_state::MachineState>::skip_max_list$|MachineState>::skip_max_list$", p)]
    if len(c) != 1:
        raise AnchorLost("MachineState::skip_max_list (%d)" % len(c))
    body = F.hir(c[0])["body"]
    arms = []
    for m in walk(body):
        if m["k"] != "Match":
            continue
        for arm in m["arms"]:
            if any(y.get("k") == "PTupleStruct" and (y.get("res", {}).get("def") or "").endswith("::Number::Integer") for y in walk(arm["pat"])):
                arms.append(arm)
    if not arms:
        raise AnchorLost("skip_max_list: arm for Number::Integer")
    ok = False
    for arm in arms:
        for i in walk(arm["body"]):
            if i["k"] == "If" and any(y["k"] == "MethodCall" and y["name"] in ("sign", "is_negative", "is_positive", "signum") for y in walk(i["cond"])) and \
                    any(y["k"] == "Assign" and y["lhs"].get("name") == "fail" for y in walk(i["then"])):
                ok = True
    R.ob("C49:skip_max_list:negative-arbitrary-precision-maximum-fails", ok,
         "skip_max_list narrows an arbitrary-precision maximum and takes `does not fit` for `no maximum` without asking for its sign: length(L, N) with N below -(2^63) walks an "
         "unbounded list instead of failing into the clause that raises domain_error(not_less_than_zero, N)", F.where(c[0]))

