"""C16 — Numeric literals and number/text conversions are exact.

Decides configuration and fallback structure of the number reader and that the text<->number
builtins share it: the float parser is never put in its documented not-correctly-rounded mode and
no second float parser exists in the reader, the machine-word integer parse falls back to the
big-integer parse and is range-checked before a small integer is built, the radix prefixes are
wired to the matching radix and digit class, and number_chars/number_codes/atom_number go
through the same lexer and the same float formatter as read_term/write. Digit-level correctness
of lexical, dashu and ryu is trusted.
"""
import re

from .core import AnchorLost, CallGraph, hir_calls, matches_in, res_name, short, walk, mac_names

EXPLANATION = (
    "RF4/RF9 configuration rule on every call of lexical's ParseFloatOptionsBuilder::lossy (constant "
    "argument from the typed HIR) and who-may-parse-floats in the parser module; RF3 fallback shape "
    "of Lexer::parse_integer_by_radix; RF9 radix table of number_token; RF1 shared-reader / "
    "shared-formatter reachability on the whole-crate call graph."
)
ASSUMPTIONS = ["lexical's non-lossy float parser is correctly rounded; dashu parses big integers exactly; ryu prints the shortest round-tripping float"]


def run(ctx, R):
    F = ctx.facts()
    digit_group_rule(F, R)
    R.rule("RF4/RF9 float parser configuration; RF3 integer fallback; RF9 radix table; RF1 shared reader and formatter")
    lexer_fns = sorted(p for p, it in F.items.items() if it["file"] == "src/parser/lexer.rs" and it["kind"] in ("Fn", "AssocFn"))
    R.floor("lexer functions", len(lexer_fns), 30)

    # ---- R1: float parser configuration ------------------------------------------------------------
    n_lossy = 0
    n_float_parse = 0
    other_float_parsers = []
    for p, it in F.items.items():
        if it["kind"] not in ("Fn", "AssocFn") or not it["file"].startswith("src/"):
            continue
        if not (it["file"].startswith("src/parser/") or it["file"] in ("src/machine/system_calls.rs", "src/read.rs")):
            continue
        h = F.hir(p)
        for n in walk(h["body"]):
            if n["k"] == "MethodCall" and n["name"] == "lossy" and "lexical" in (n.get("resolved") or n.get("callee") or ""):
                n_lossy += 1
                a = n["args"][0] if n["args"] else None
                val = a["lit"].get("bool") if a is not None and a["k"] == "Lit" else None
                R.ob("C16:float-parser:lossy-mode:%s" % short(p), val is False,
                     "lexical's ParseFloatOptions are built with lossy(%s): the lossy mode is documented as not correctly rounded "
                     "(1.00000000000000011102230246251565404236316680908203126 would read as 1.0)" % (val if val is not None else "<non-constant>"),
                     "%s (line %s)" % (F.where(p), n["ln"]))
            if n["k"] in ("Call", "MethodCall"):
                r = n.get("inst") or n.get("resolved") or ""
                if re.search(r"lexical(_core|_parse_float)?::.*parse.*<f64", r) or ("parse_with_options" in r and "f64" in r):
                    n_float_parse += 1
                if it["file"].startswith("src/parser/") and re.search(r"<f64 as (std|core)::str::FromStr>::from_str|str::<impl str>::parse::<f64>", r):
                    other_float_parsers.append((short(p), n["ln"]))
    R.floor("lexical float parse calls", n_float_parse, 1)
    R.ob("C16:float-parser:single-parser", not other_float_parsers,
         "the reader parses floats through a second parser at %s: literals would round differently depending on the path" % other_float_parsers, "src/parser/")
    if n_lossy == 0:
        R.notes.append("no call to ParseFloatOptionsBuilder::lossy: default (non-lossy) configuration")
    # every float token of number_token / vacate_with_float comes from the one parse function
    pf = [p for p in lexer_fns if re.search(r"::parse_float(_lossy)?$", p)]
    if len(pf) != 1:
        raise AnchorLost("float parse function of the lexer: %s" % pf)
    callers = sorted({short(re.sub(r"(::\{closure#\d+\})+$", "", p)) for p, cs in F.calls.items() for c in cs if (c.get("resolved") or c.get("callee")) == pf[0]})
    R.ob("C16:float-parser:callers", len(callers) >= 2 and all("Lexer" in c or "<'a, R>" in c for c in callers), "float tokens are parsed by %s from %s" % (short(pf[0]), callers), F.where(pf[0]))

    # ---- R2: integer fallback ---------------------------------------------------------------------------
    pi = [p for p in lexer_fns if p.endswith("::parse_integer_by_radix")]
    if len(pi) != 1:
        raise AnchorLost("parse_integer_by_radix")
    h = F.hir(pi[0])
    word_parse = [n for n in walk(h["body"]) if n["k"] in ("Call", "MethodCall") and re.search(r"i64>?::from_str_radix$", n.get("resolved") or n.get("callee") or "")]
    big_parse = [n for n in walk(h["body"]) if n["k"] in ("Call", "MethodCall") and re.search(r"IBig>?::from_str_radix$", n.get("resolved") or n.get("callee") or "")]
    R.ob("C16:integer:word-parse-then-bignum", len(word_parse) == 1 and len(big_parse) == 1, "%d machine-word parses, %d big-integer parses" % (len(word_parse), len(big_parse)), F.where(pi[0]))
    # the bignum parse must live in the failure continuation (or_else / Err arm) of the word parse
    ok_fb = False
    ok_rng = False

    def rec(n, anc):
        nonlocal ok_fb, ok_rng
        if isinstance(n, list):
            for x in n:
                rec(x, anc)
            return
        if not isinstance(n, dict):
            return
        if n.get("k") in ("Call", "MethodCall"):
            r = n.get("resolved") or n.get("callee") or ""
            if re.search(r"IBig>?::from_str_radix$", r):
                for i, (node, key) in enumerate(anc):
                    if node["k"] == "Closure" and i > 0:
                        par, pk = anc[i - 1]
                        if par["k"] == "MethodCall" and par["name"] in ("or_else", "unwrap_or_else") and pk == "args" and any(x in word_parse for x in walk(par["recv"])):
                            ok_fb = True
                    if node["k"] == "Arm" and key == "body" and any((res_name(x) or "").endswith("::Err") for x in walk(node["pat"])):
                        ok_fb = True
            if r.endswith("Fixnum::build_with_checked"):
                for i, (node, key) in enumerate(anc):
                    if node["k"] == "Closure" and i > 0:
                        par, pk = anc[i - 1]
                        if par["k"] == "MethodCall" and par["name"] in ("map", "and_then") and pk == "args" and any(x in word_parse for x in walk(par["recv"])):
                            ok_rng = True
                    if node["k"] == "Arm" and key == "body" and any((res_name(x) or "").endswith("::Ok") for x in walk(node["pat"])):
                        ok_rng = True
        if "k" in n:
            for key, v in n.items():
                if isinstance(v, (dict, list)):
                    rec(v, anc + [(n, key)])
        else:
            for v in n.values():
                if isinstance(v, (dict, list)):
                    rec(v, anc)

    rec(h["body"], [])
    R.ob("C16:integer:overflow-falls-back-to-bignum", ok_fb,
         "when i64::from_str_radix fails (overflow) the token must be parsed as a big integer, not reported as an error", F.where(pi[0]))
    R.ob("C16:integer:word-result-range-checked", ok_rng,
         "a machine-word result must pass Fixnum::build_with_checked before a small integer is built (2^55..2^63 need a big integer)", F.where(pi[0]))

    # ---- R3: radix table -----------------------------------------------------------------------------------
    RADIX = {"hexadecimal_constant": ("16", "hexadecimal_digit_char", "x"), "octal_constant": ("8", "octal_digit_char", "o"), "binary_constant": ("2", "binary_digit_char", "b")}
    nt = [p for p in lexer_fns if p.endswith("::number_token")]
    if len(nt) != 1:
        raise AnchorLost("number_token")
    nth = F.hir(nt[0])
    for fn, (radix, cls, prefix) in RADIX.items():
        ps = [p for p in lexer_fns if p.endswith("::" + fn)]
        if len(ps) != 1:
            raise AnchorLost(fn)
        hh = F.hir(ps[0])
        radices = {a["lit"].get("int") for n in walk(hh["body"]) if n["k"] == "MethodCall" and n["name"] == "parse_integer_by_radix" for a in n["args"] if a["k"] == "Lit"}
        classes = {m for n in walk(hh["body"]) for m in mac_names(n) if m.endswith("_digit_char")}
        R.ob("C16:radix:%s" % fn, radices == {radix} and classes == {cls},
             "%s parses with radix %s and digit class %s (table: %s, %s)" % (fn, sorted(radices), sorted(classes), radix, cls), F.where(ps[0]))
        wired = False
        for n in walk(nth["body"]):
            if n["k"] == "If" and n["cond"]["k"] == "Binary" and n["cond"]["op"] == "Eq":
                lit = n["cond"]["b"]
                if lit["k"] == "Lit" and lit["lit"].get("char") == prefix:
                    wired = any(x["k"] == "MethodCall" and x["name"] == fn for x in walk(n["then"])) and \
                        not any(x["k"] == "MethodCall" and x["name"] in RADIX and x["name"] != fn for x in walk(n["then"]))
        R.ob("C16:radix-prefix:0%s" % prefix, wired, "number_token must send the prefix 0%s to %s" % (prefix, fn), F.where(nt[0]))

    # ---- R4: shared reader / shared formatter -----------------------------------------------------------------
    cg = CallGraph(F)
    lex_entry = [p for p in lexer_fns if p.endswith("::next_number_token")]
    parser_entry = [p for p in F.items if p.endswith("::read_term") and F.items[p]["file"] == "src/parser/parser.rs"]
    if len(lex_entry) != 1 or len(parser_entry) != 1:
        raise AnchorLost("lexer/parser entry points: %s %s" % (lex_entry, parser_entry))
    for b in ("chars_to_number", "codes_to_number"):
        p = F.find_impl("Machine", None, b)
        seen = cg.reach([p])
        R.ob("C16:shared-reader:%s" % b, lex_entry[0] in seen and parser_entry[0] in seen and pf[0] in seen,
             "%s must read numbers through Lexer::next_number_token / Parser::read_term (the reader used by read_term/2)" % b, F.where(p))
        own = [n for _, r, n in hir_calls(F.hir(p)["body"]) if re.search(r"from_str_radix|FromStr>::from_str|::parse::<", r)]
        R.ob("C16:shared-reader:%s:no-private-parser" % b, not own, "%s parses digits itself at lines %s" % (b, [n["ln"] for n in own]), F.where(p))
    ff = F.find("heap_print::fmt_float")
    for b in ("number_to_chars", "number_to_codes"):
        p = F.find_impl("Machine", None, b)
        calls = {r for _, r, _ in hir_calls(F.hir(p)["body"])}
        R.ob("C16:shared-formatter:%s" % b, ff in calls, "%s must format floats with fmt_float, the printer's formatter" % b, F.where(p))
    pn = [p for p in F.items if p.endswith("::print_number") and F.items[p]["file"] == "src/heap_print.rs"]
    if len(pn) != 1:
        raise AnchorLost("print_number")
    R.ob("C16:shared-formatter:printer", ff in cg.reach(pn), "HCPrinter::print_number must reach fmt_float", F.where(pn[0]))
    ffh = F.hir(ff)
    R.ob("C16:fmt_float:shortest-roundtrip", any("ryu::" in r for _, r, _ in hir_calls(ffh["body"])), "fmt_float must format through ryu (shortest representation that reads back to the same double)", F.where(ff))
    # ryu prints "1e16" for a float with no fractional digits in scientific notation; a Prolog float needs "1.0e16". Whether
    # ".0" must be inserted depends on whether the MANTISSA contains a '.', not on its length or on the position of 'e'
    # (the mantissa may carry a sign): the inserting branch must be guarded by a search for '.' in the text
    ins = []
    for n in walk(ffh["body"]):
        if n["k"] == "If":
            has_dot_zero = any(x["k"] == "Lit" and x.get("lit", {}).get("str") == ".0" for x in walk(n["then"]))
            nested = any(x is not n and x["k"] == "If" and any(y["k"] == "Lit" and y.get("lit", {}).get("str") == ".0" for y in walk(x["then"])) for x in walk(n["then"]))
            if has_dot_zero and not nested:
                searches_dot = any(x["k"] == "MethodCall" and x["name"] in ("contains", "find", "rfind", "position", "any", "split_once", "starts_with", "ends_with")
                                   and any(y["k"] == "Lit" and (y.get("lit", {}).get("char") == "." or y.get("lit", {}).get("str") == ".") for y in walk(x.get("args", [])))
                                   for x in walk(n["cond"]))
                ins.append(searches_dot)
    if not ins:
        raise AnchorLost("fmt_float: the branch that inserts \".0\" before the exponent")
    R.ob("C16:fmt_float:dot-zero-inserted-iff-mantissa-has-no-dot", all(ins),
         "fmt_float inserts \".0\" before the exponent under a condition that does not look for a '.' in the mantissa: a test on the position of 'e' forgets the sign, "
         "so -1e16 is written for -1.0e16 — text that does not read back as a number", F.where(ff))


def digit_group_rule(F, R):
    """number_chars/2, number_codes/2 read a number with the lexer's number scanner and, unlike the reader, accept the
    end of the text as the end of the number (try_nt! turns an end-of-input error inside the scanner into "the digits so
    far"). After a digit-group separator `_` that is wrong: a digit has to follow. skip_underscore_in_number must turn
    the end of the input after `_` into a syntax error itself instead of propagating it."""
    fn = [p for p, it in F.items.items() if it["file"] == "src/parser/lexer.rs" and p.endswith("::skip_underscore_in_number")]
    if len(fn) != 1:
        raise AnchorLost("Lexer::skip_underscore_in_number (%d)" % len(fn))
    body = F.hir(fn[0])["body"]
    br = [n for n in walk(body) if n["k"] == "If" and any(x["k"] == "Lit" and (x.get("lit") or {}).get("char") == "_" for x in walk(n["cond"]))]
    if len(br) != 1:
        raise AnchorLost("skip_underscore_in_number: the `c == '_'` branch (%d)" % len(br))
    then = br[0]["then"]
    propagated = [m["ln"] for m in walk(then) if m["k"] == "Match" and str(m.get("src", "")).startswith("TryDesugar")
                  and any(x["k"] == "MethodCall" and x["name"] in ("lookahead_char", "scan_for_layout") for x in walk(m["scrut"]))]
    handles = any(x["k"] == "MethodCall" and x["name"] == "is_unexpected_eof" for x in walk(then))
    R.ob("C16:digit-group:end-of-input-after-separator-is-an-error", not propagated and handles,
         "skip_underscore_in_number propagates the end of the input met after a `_` (lines %s): the number scanner's caller takes that for the end of the number, so "
         "number_chars(X, '1_') gives 1 where the reader raises a syntax error for 1_" % propagated, F.where(fn[0]))
