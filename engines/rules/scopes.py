"""Scopes (sets of bodies) shared by the reader/stream rules."""
import re

from .core import AnchorLost, CallGraph

READER_FILES = ("src/parser/lexer.rs", "src/parser/parser.rs", "src/parser/ast.rs", "src/read.rs", "src/parser/char_reader.rs")


def reader_entries(F):
    ents = []
    for suffix, file in (("::read_term", "src/parser/parser.rs"), ("::next_token", "src/parser/lexer.rs"), ("::next_number_token", "src/parser/lexer.rs"),
                         ("::read_term_and_write_to_heap", None), ("::read", "src/read.rs")):
        c = [p for p, it in F.items.items() if p.endswith(suffix) and it["kind"] in ("Fn", "AssocFn") and (file is None or it["file"] == file)]
        ents += c
    c = [p for p, it in F.items.items() if it["file"] == "src/read.rs" and it["kind"] in ("Fn", "AssocFn")]
    ents += c
    if len(ents) < 5:
        raise AnchorLost("reader entry points: %s" % ents)
    return sorted(set(ents))


def reader_scope(F, files=("src/parser/lexer.rs", "src/parser/parser.rs", "src/read.rs")):
    """Bodies of the reader files reachable (whole-crate call graph) from the reader entry points."""
    cg = CallGraph(F)
    seen = cg.reach(reader_entries(F))
    out = sorted(p for p in seen if p in F.items and F.items[p]["file"] in files and F.items[p]["kind"] in ("Fn", "AssocFn", "Closure") and "::tests::" not in p)
    return out


def decoder_scope(F):
    """CharReader and every CharRead / Read implementation of the stream types."""
    out = []
    for p, it in F.items.items():
        if it["kind"] not in ("Fn", "AssocFn", "Closure") or "::tests::" in p or "::test::" in p:
            continue
        if it["file"] == "src/parser/char_reader.rs":
            out.append(p)
        elif it["file"] == "src/machine/streams.rs" and (it.get("trait") in ("parser::char_reader::CharRead", "std::io::Read") or
                                                       (it["kind"] == "Closure" and F.items.get(it["parent"], {}).get("trait") in ("parser::char_reader::CharRead", "std::io::Read"))):
            out.append(p)
    if len(out) < 20:
        raise AnchorLost("decoder scope too small: %d" % len(out))
    return sorted(out)
