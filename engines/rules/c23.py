"""C23 — term construction and inspection builtins: the error clause of =../2 only.

functor/3, arg/3, copy_term/2 and term_variables/2 are Rust primitives whose results are run-time values; their
behaviour against a term model is not decided. (=..)/2 is Prolog: `univ_errors/3` raises the seven errors of ISO
8.5.3.3 before `univ_worker/3` runs, and that table has a shape. Decided:

  * (=..)/2 calls univ_errors/3 before univ_worker/3 with the same Term and List;
  * every throw of univ_errors/3 is error(E, (=..)/2) with E an ISO error term;
  * an instantiation error is thrown only where var/1 has succeeded for Term together with the head or the tail of the
    list; type_error(list, List) only where the tail found by '$skip_max_list' is neither unbound nor []; type_error(atom,
    H) only where H is bound, not an atom and has arguments to carry (T \\== []); type_error(atomic, H) only for a compound
    sole element; domain_error(non_empty_list, List) only for var(Term) with List = []; representation_error(max_arity)
    only for var(Term) after the length was compared with the max_arity flag;
  * the culprit of each error is the variable those tests spoke about.
"""
import os
import sys

from .core import AnchorLost, REPO, walk
from . import c22

sys.path.insert(0, os.path.dirname(os.path.dirname(os.path.abspath(__file__))))
from plread import plread as P  # noqa: E402

EXPLANATION = "Path-condition rules (plread) over univ_errors/3 and (=..)/2 in builtins.pl: per thrown error, the tests that must have spoken on its path (ISO 8.5.3.3 a-g) and the culprit."
ASSUMPTIONS = ["'$skip_max_list'(N, _, List, R) leaves in R what follows the longest list prefix of List and in N its length (C20's walker)"]

NAMES = c22.TESTS | {"var", "nonvar", "atom", "compound", "\\==", "==", "=", ">", "current_prolog_flag", "$skip_max_list"}
UNIV = ("cmp", "/", [("atom", "=.."), ("int", 2)])


def has(tests, sign, name, pred=None):
    return any(sg == sign and P.functor(s) is not None and P.functor(s)[0] == name and (pred is None or pred(s)) for sg, s in tests)


def run(ctx, R):
    R.rule("RF3 path conditions of every error thrown by univ_errors/3 (ISO 8.5.3.3); RF3 the copier is handed heap terms only")
    copy_source_is_a_heap_term(ctx, R)
    text = open(os.path.join(REPO, "src/lib/builtins.pl")).read()
    ue = uv = None
    for term, line in P.read_clauses(text):
        if term[0] == "error":
            continue
        h, b = P.head_body(term)
        f = P.functor(h)
        if f == ("univ_errors", 3):
            ue = (h, b, line)
        if f == ("=..", 2):
            uv = (h, b, line)
    if ue is None or uv is None:
        raise AnchorLost("builtins.pl: univ_errors/3 or (=..)/2 not found or not parsed")
    h, b, line = uv
    gs = [c22.unq(g) for g in P.conj(b)]
    fs = [P.functor(g) for g in gs]
    ok = ("univ_errors", 3) in fs and ("univ_worker", 3) in fs and fs.index(("univ_errors", 3)) < fs.index(("univ_worker", 3)) and \
        gs[fs.index(("univ_errors", 3))][2][:2] == h[2] and gs[fs.index(("univ_worker", 3))][2][:2] == h[2]
    R.ob("C23:univ:errors-checked-before-the-worker-on-the-same-arguments", ok, "(=..)/2 does not call univ_errors(Term, List, _) before univ_worker(Term, List, _)", "src/lib/builtins.pl:%d (=..)/2" % line)
    h, b, line = ue
    Term, List = h[2][0], h[2][1]
    where = "src/lib/builtins.pl:%d univ_errors/3" % line
    sites = []
    c22.visit(b, [], sites)
    skip = [g for g, _ in sites if P.functor(g) == ("$skip_max_list", 4)]
    if len(skip) != 1 or skip[0][2][2] != List:
        raise AnchorLost("univ_errors/3: '$skip_max_list'(N, _, List, R)")
    Rv = skip[0][2][3]
    Nv = skip[0][2][0]
    heads = [s for g, cx in sites for sg, s in c22.tests_on(cx + [("+", g)], NAMES) if P.functor(s) == ("=", 2) and s[2][0] == List and s[2][1][0] == "cmp" and s[2][1][1] == "."]
    if not heads:
        raise AnchorLost("univ_errors/3: List = [H|T]")
    H, T = heads[0][2][1][2]
    n = 0
    seen = {}
    for g, cx in sites:
        if P.functor(g) != ("throw", 1):
            continue
        n += 1
        tests = c22.tests_on(cx, NAMES)
        e = g[2][0]
        form = e[0] == "cmp" and e[1] == "error" and len(e[2]) == 2 and e[2][1] == UNIV
        E = e[2][0] if form else None
        kind = P.show(E).split("(")[0] + ("(%s)" % P.show(E[2][0]) if E is not None and E[0] == "cmp" and E[2] and E[2][0][0] == "atom" else "") if form else "?"
        k = seen.get(kind, 0)
        seen[kind] = k + 1
        key = "C23:univ-error:%s#%d" % (kind, k)
        R.ob(key + ":is-error-with-the-indicator-of-univ", form, "univ_errors/3 throws %s: not error(E, (=..)/2)" % P.show(e), where)
        if not form:
            continue
        var_term = has(tests, "+", "var", lambda s: s[2][0] == Term)
        partial = has(tests, "+", "var", lambda s: s[2][0] == Rv)
        proper = has(tests, "-", "var", lambda s: s[2][0] == Rv) and has(tests, "-", "\\==", lambda s: s[2] == [Rv, ("atom", "[]")])
        if E == ("atom", "instantiation_error"):
            ok = var_term and (partial or (proper and has(tests, "+", "var", lambda s: s[2][0] == H)))
            why = "8.5.3.3 a) Term and the list's tail unbound, or c) Term and the list's head unbound"
        elif E == ("cmp", "type_error", [("atom", "list"), List]):
            ok = has(tests, "-", "var", lambda s: s[2][0] == Rv) and has(tests, "+", "\\==", lambda s: s[2] == [Rv, ("atom", "[]")])
            why = "8.5.3.3 b) the tail after the longest list prefix is neither unbound nor []"
        elif E == ("cmp", "type_error", [("atom", "atom"), H]):
            ok = proper and has(tests, "+", "nonvar", lambda s: s[2][0] == H) and has(tests, "-", "atom", lambda s: s[2][0] == H) and has(tests, "+", "\\==", lambda s: s[2] == [T, ("atom", "[]")])
            why = "8.5.3.3 d) the head is bound, not an atom, and the list has further elements"
        elif E == ("cmp", "type_error", [("atom", "atomic"), H]):
            ok = proper and has(tests, "+", "compound", lambda s: s[2][0] == H) and has(tests, "+", "==", lambda s: s[2] == [T, ("atom", "[]")])
            why = "8.5.3.3 e) the sole element is compound"
        elif E == ("cmp", "domain_error", [("atom", "non_empty_list"), List]):
            ok = proper and var_term and has(tests, "-", "=", lambda s: s[2][0] == List)
            why = "8.5.3.3 f) Term unbound and List = []"
        elif E == ("cmp", "representation_error", [("atom", "max_arity")]):
            ok = proper and var_term and has(tests, "+", "current_prolog_flag", lambda s: s[2][0] == ("atom", "max_arity")) and \
                has(tests, "+", ">", lambda s: Nv[1] in c22.vars_of(s[2][0]))
            why = "8.5.3.3 g) Term unbound and the length of the list beyond max_arity"
        else:
            ok, why = False, "not one of the seven errors of ISO 8.5.3.3"
        R.ob(key + ":thrown-under-its-iso-condition", ok,
             "univ_errors/3 throws %s on a path whose tests are %s; expected: %s" % (P.show(E), [sg + P.show(s) for sg, s in tests][:10], why), where)
    R.floor("errors thrown by univ_errors/3", n, 7)
    want = {"instantiation_error": 2, "type_error(list)": 1, "type_error(atom)": 1, "type_error(atomic)": 1, "domain_error(non_empty_list)": 1, "representation_error(max_arity)": 1}
    R.ob("C23:univ-error:all-seven-iso-cases-present", seen == want, "univ_errors/3 throws %s; ISO 8.5.3.3 lists %s" % (seen, want), where)


def copy_source_is_a_heap_term(ctx, R):
    """The copier dispatches on heap tags (Var, AttrVar, Lis, Str, PStrLoc) and leaves every other cell in the copy as it
    is. An unbound variable of the caller's environment reaches copy_term/2 as a StackVar cell in the argument register
    (`p :- copy_term(X, Y), ...` with X first seen there): copied verbatim, the `copy` is a reference to X itself, so
    X == Y holds and binding Y binds X. MachineState::copy_term reads its source dereferenced and moves such a variable
    to the heap (binds it to a fresh heap variable) before the copier runs."""
    F = ctx.facts()
    ct = [p for p in F.items if p.endswith("MachineState>::copy_term") or p.endswith("MachineState::copy_term")]
    ct = [p for p in ct if "dispatch" in p or "machine_state" in p]
    if len(ct) != 1:
        raise AnchorLost("MachineState::copy_term (%d)" % len(ct))
    body = F.hir(ct[0])["body"]
    copier = [x for x in walk(body) if x["k"] == "Call" and (x.get("resolved") or x.get("callee") or "").endswith("copier::copy_term")]
    if len(copier) != 1:
        raise AnchorLost("MachineState::copy_term: call of copier::copy_term (%d)" % len(copier))
    glob = [n for n in walk(body) if n["k"] == "If" and any(x["k"] == "MethodCall" and x["name"] == "is_stack_var" for x in walk(n["cond"]))
            and any(x["k"] == "MethodCall" and x["name"] == "bind" for x in walk(n["then"]))]
    R.ob("C23:copy_term:an-environment-variable-is-moved-to-the-heap-before-it-is-copied", len(glob) >= 1 and glob[0]["ln"] < copier[0]["ln"],
         "MachineState::copy_term hands the argument register to the copier without moving an unbound environment variable to the heap: the copier copies a StackVar cell verbatim, "
         "so `p :- copy_term(X, Y), X == Y` succeeds and binding Y binds X", F.where(ct[0]))
    src = copier[0]["args"][1] if len(copier[0]["args"]) > 1 else None
    raw = src is not None and src["k"] == "Index" and any(y.get("name") == "registers" for y in walk(src))
    R.ob("C23:copy_term:source-is-not-the-raw-register", src is not None and not raw,
         "MachineState::copy_term passes the raw argument register to the copier", F.where(ct[0]))

