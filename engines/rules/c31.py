"""C31 — An interrupt at any point is caught cleanly (polling structure only).

Decides: both instruction loops poll the interrupt flag on every cycle of their outer loop, and
the inner loop is bounded by a wrapping u8 counter (at most 255 instructions between polls); no
`continue 'outer` can skip the poll; the poll atomically clears the flag and raises the exception
through the normal error path (throw, then backtrack); the flag is written only by the signal
handler and consumed only by the poll. Timing ("at whatever instruction") is not decided.
"""
import re

from .core import AnchorLost, CFG, callee_of, hir_calls, res_name, short, walk

EXPLANATION = (
    "RF3 loop-structure rule over the typed HIR of Machine::dispatch_loop and "
    "Machine::verify_attr_dispatch_loop (poll call is a direct statement, or the condition of an `if` statement, of the outer loop after the "
    "bounded inner loop; counter type is Wrapping<u8>; no labelled continue to the outer loop), RF2/RF3 "
    "order of swap -> throw -> backtrack in the MIR of check_for_interrupt, RF4 who touches the INTERRUPT static."
)
ASSUMPTIONS = ["every instruction handler returns (long-running builtins are outside this clause)"]


def loop_structure(F, R, fn, tag):
    h = F.hir(fn)
    outer = [n for n in walk(h["body"]) if n["k"] == "Loop" and n.get("label")]
    if len(outer) != 1:
        raise AnchorLost("%s: labelled outer loop not found (%d)" % (tag, len(outer)))
    o = outer[0]
    label = o["label"]
    ss = list(o["body"]["stmts"]) + ([o["body"]["expr"]] if "expr" in o["body"] else [])
    inner_idx = [i for i, s in enumerate(ss) if s["k"] == "Loop"]
    is_poll = lambda s: s["k"] in ("MethodCall", "Call") and (s.get("resolved") or s.get("callee") or "").endswith("::check_for_interrupt")
    # the poll is a statement of the outer loop, or the condition of an `if` that is one (evaluated on every cycle either way)
    poll_idx = [i for i, s in enumerate(ss) if is_poll(s) or (s["k"] == "If" and any(is_poll(x) for x in walk(s["cond"])))]
    R.ob("C31:%s:polls-every-outer-cycle" % tag, len(inner_idx) == 1 and len(poll_idx) >= 1 and poll_idx[0] > inner_idx[0],
         "the outer loop must consist of the bounded inner loop followed by an unconditional check_for_interrupt() (inner at %s, poll at %s of %d statements)" % (inner_idx, poll_idx, len(ss)), F.where(fn))
    # a poll that took an interrupt has already thrown and backtracked to the handler: the loop goes on dispatching there.
    # Where the poll is the condition of an `if`, neither branch may leave the loop or skip the rest of the cycle.
    leaving = []
    for s in ss:
        if s["k"] == "If" and any(is_poll(x) for x in walk(s["cond"])):
            for br in (s.get("then"), s.get("else")):
                if br is not None:
                    leaving += [x["ln"] for x in walk(br) if x["k"] in ("Break", "Ret", "Continue")]
    R.ob("C31:%s:poll-result-does-not-leave-the-loop" % tag, not leaving,
         "the outer loop leaves (break/return/continue at line %s) depending on the result of check_for_interrupt(): the interrupt has been raised and the handler's "
         "instructions still have to be dispatched by this loop" % leaving, F.where(fn))
    conts = [n for n in walk(o) if n["k"] == "Continue" and n.get("label") == label]
    R.ob("C31:%s:no-continue-outer" % tag, not conts, "`continue %s` at lines %s would restart the outer loop without polling" % (label, [c["ln"] for c in conts]), F.where(fn))
    if inner_idx:
        inner = ss[inner_idx[0]]
        iss = list(inner["body"]["stmts"])
        bump = iss[0] if iss else None
        guard = iss[1] if len(iss) > 1 else None
        okb = bump is not None and bump["k"] == "AssignOp" and bump["op"].startswith("Add") and "Wrapping<u8>" in (bump["lhs"].get("ty") or "")
        okg = guard is not None and guard["k"] == "If" and any(x["k"] == "Break" and not x.get("label") for x in walk(guard["then"])) and \
            guard["cond"]["k"] == "Binary" and guard["cond"]["op"] == "Eq" and guard["cond"]["b"]["k"] == "Lit" and guard["cond"]["b"]["lit"].get("int") == "0"
        R.ob("C31:%s:inner-loop-bounded" % tag, okb and okg,
             "the inner loop must start with `counter += 1; if counter.0 == 0 { break; }` on a Wrapping<u8> counter (bump ok: %s, guard ok: %s)" % (okb, okg), F.where(fn))
        # nothing between loop head and the bump may `continue` around it: the bump is the first statement
        lets = [n for n in walk(h["body"]) if n["k"] == "Let" and n["pat"]["k"] == "PBind" and "Wrapping<u8>" in (n["pat"].get("ty") or "")]
        R.ob("C31:%s:counter-declared-outside" % tag, len(lets) == 1 and not any(l is x for l in lets for x in walk(o)), "the counter must live across inner-loop iterations", F.where(fn))


def run(ctx, R):
    F = ctx.facts()
    R.rule("RF3 poll on every outer cycle with a bounded inner loop; RF2 swap->throw->backtrack; RF4 INTERRUPT accessors")
    loop_structure(F, R, F.find_impl("Machine", None, "dispatch_loop"), "dispatch_loop")
    loop_structure(F, R, F.find_impl("Machine", None, "verify_attr_dispatch_loop"), "verify_attr_dispatch_loop")

    cf = F.find_impl("MachineState", None, "check_for_interrupt")
    mir = F.mir(cf)
    g = CFG(mir)
    dom = g.dominators()
    swap = g.call_blocks(lambda t: re.search(r"atomic::(AtomicBool|Atomic::<bool>)::swap$", callee_of(t)) is not None)
    thr = g.call_blocks(lambda t: callee_of(t).endswith("::throw_interrupt_exception"))
    bt = g.call_blocks(lambda t: re.search(r"MachineState>?::backtrack$", callee_of(t)) is not None)
    if len(swap) != 1 or len(thr) != 1 or len(bt) > 1:
        raise AnchorLost("check_for_interrupt: swap %s throw %s backtrack %s" % (swap, thr, bt))
    args = mir["blocks"][swap[0]]["t"]["args"]
    clears = len(args) >= 2 and args[1].get("c", "").endswith("false")
    R.ob("C31:poll:clears-flag-atomically", clears, "the poll must be INTERRUPT.swap(false, ..): read and clear in one step (argument %s)" % (args[1] if len(args) > 1 else None), F.where(cf))
    # catch/3 and setup_call_cleanup/3 pop their choice point and restore the enclosing block in separate instructions;
    # a poll landing between them sees a block register that names a popped frame, and throw_exception would make that
    # frame the current choice point. The poll must test block (effective_block()) against b before it consumes the flag.
    cfh = F.hir(cf)["body"]

    def mentions(n, what):
        for y in walk(n):
            if what == "block" and ((y["k"] == "MethodCall" and y["name"] == "effective_block") or (y["k"] == "Field" and y["name"] in ("block", "scc_block"))):
                return True
            if what == "b" and y["k"] == "Field" and y["name"] == "b":
                return True
            if what == "swap" and y["k"] == "MethodCall" and y["name"] == "swap":
                return True
        return False
    guarded = False
    for n in walk(cfh):
        if n["k"] != "If":
            continue
        c = n["cond"]
        if mentions(c, "block") and mentions(c, "b"):
            # early return before the swap, or the same condition short-circuiting the swap
            if not mentions(c, "swap") and any(y["k"] == "Ret" for y in walk(n["then"])) and not mentions(n["then"], "swap"):
                guarded = True
            if mentions(c, "swap") and c["k"] == "Binary" and c.get("op") == "And" and not mentions(c["a"], "swap"):
                guarded = True
    # ... and the test comes first: the flag is consumed only on the path where the interrupt is also thrown (MIR dominance)
    eb_blocks = g.call_blocks(lambda t: callee_of(t).endswith("::effective_block"))
    guard_first = bool(eb_blocks) and any(b in dom.get(swap[0], ()) for b in eb_blocks)
    R.ob("C31:poll:flag-consumed-only-after-the-stale-block-test", guard_first,
         "check_for_interrupt clears the INTERRUPT flag before it has compared the block register with b: a poll that lands between the pop of a catch/3 choice point and "
         "'$reset_block' then returns without throwing and the interrupt is lost, not deferred", F.where(cf))
    R.ob("C31:poll:not-taken-while-block-register-is-stale", guarded,
         "check_for_interrupt consumes the flag and throws without comparing the block register with b: an interrupt polled between the pop of a catch/3 choice point "
         "and '$reset_block' backtracks into a frame that is gone (repeat, catch(throw(x), x, true), fail under repeated SIGINT: `code pointer p = ... is oob`)", F.where(cf))
    is_bt = lambda r: re.search(r"MachineState>?::backtrack$", r) is not None
    if bt:
        # shape A: the poll itself backtracks into the handler search
        R.ob("C31:poll:throw-then-backtrack", swap[0] in dom.get(thr[0], ()) and thr[0] in dom.get(bt[0], ()),
             "a set flag must raise the interrupt exception and then backtrack into the handler search", F.where(cf))
    else:
        R.ob("C31:poll:throw-then-backtrack", swap[0] in dom.get(thr[0], ()),
             "a set flag must raise the interrupt exception (the callers backtrack: see C31:poll-site:*)", F.where(cf))
    # every poll site: when the poll does not backtrack itself (shape B), the site must test the result and
    # backtrack before anything else runs; in shape A the sites are only counted
    sites = 0
    for p in F.callers_of(cf) if hasattr(F, "callers_of") else [q for q, it in F.items.items() if it["kind"] in ("Fn", "AssocFn", "Closure") and it["file"].startswith("src/")]:
        try:
            h = F.hir(p)
        except Exception:
            continue
        calls = [n for n in walk(h["body"]) if n["k"] == "MethodCall" and (n.get("resolved") or n.get("callee") or "").endswith("::check_for_interrupt")]
        if not calls:
            continue
        sites += len(calls)
        if bt:
            # shape A: the poll has already backtracked when it returns, so the caller must be a loop that dispatches on
            # p next; an instruction's builtin would return into an arm that steps (p += 1) past the handler selected
            in_loop = re.search(r"Machine::(dispatch_loop|verify_attr_dispatch_loop)$", short(p)) is not None
            R.ob("C31:poll-site:%s:poll-that-backtracks-is-called-from-a-dispatch-loop" % short(p), in_loop,
                 "%s calls check_for_interrupt(), which throws and backtracks; when it returns true the instruction arm that called this builtin still steps "
                 "(p += 1 / p = cp), skipping the first instruction of the handler: catch/3 around the blocked builtin does not fire. Builtins that wait poll with "
                 "interrupt_as_error()? and let the arm throw" % short(p), F.where(p))
            continue
        guarded = set()
        for n in walk(h["body"]):
            if n["k"] == "If" and any(is_bt(r) for _, r, _ in hir_calls(n["then"])):
                for c in walk(n["cond"]):
                    if any(c is x for x in calls):
                        guarded.add(id(c))
        for i, c in enumerate(calls):
            R.ob("C31:poll-site:%s@%d:interrupt-taken-then-backtracks" % (short(p), i), id(c) in guarded,
                 "check_for_interrupt() only raises the interrupt; this site (line %s) continues without testing the result and backtracking, so the next "
                 "instruction runs with the ball set, `fail` true and `p` still inside the interrupted goal" % c["ln"], F.where(p))
    R.floor("poll sites", sites, 2)
    # ---- RF4: accessors of the static ------------------------------------------------------------------
    users = {}
    for p, it in F.items.items():
        if it["kind"] not in ("Fn", "AssocFn") or not it["file"].startswith("src/"):
            continue
        h = F.hir(p)
        for n in walk(h["body"]):
            if n["k"] == "MethodCall" and n["recv"]["k"] == "Path" and (res_name(n["recv"]) or "").endswith("machine::INTERRUPT"):
                users.setdefault(p, set()).add(n["name"])
    R.floor("INTERRUPT accessors", len(users), 2)
    for p, ops in sorted(users.items()):
        if p == cf:
            ok = ops == {"swap"}
            why = "the poll"
        elif short(p).endswith("MachineState::interrupt_as_error"):
            ok = ops == {"swap"}
            why = "the poll of builtins that wait"
            h = F.hir(p)
            errs = [x for x in walk(h["body"]) if x["k"] == "Call" and re.search(r"(Result::|v1::)Err$", x.get("callee") or "")]
            R.ob("C31:builtin-poll:returns-the-interrupt-as-error", len(errs) >= 1 and any((r or "").endswith("::interrupt_error") for _, r, _ in hir_calls(h["body"])),
                 "interrupt_as_error must return Err(interrupt error) when the flag was set", F.where(p))
        elif F.items[p]["file"] == "src/lib.rs":
            ok = ops == {"store"}
            why = "the SIGINT handler"
        else:
            ok = False
            why = "not on the table"
        R.ob("C31:flag-accessor:%s" % short(p), ok, "%s uses INTERRUPT.%s (%s): only the handler may set it and only the poll may consume it" % (short(p), sorted(ops), why), F.where(p))
