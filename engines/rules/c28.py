"""C28 — Embedded queries return faithful answers across a query history.

Decides the acquire/release structure of one embedded query: run_query pushes a fully
initialised stub choice point and sets the success continuation before it starts the goal; the
iterator stops when the machine has backtracked to that stub; an exception read from the ball is
cleared once it has been reported (so a later query cannot see it again); dropping the iterator
pops a choice point. Contents of answers are not decided.
"""
import re

from .core import AnchorLost, CFG, callee_of, hir_calls, matches_in, pat_leaves, pat_variant, res_name, short, walk
from . import orframe

EXPLANATION = (
    "RF3 must-pass-through over the MIR CFG of QueryState::next (every path that reports the ball's "
    "exception reaches Ball::reset before returning; the only excepted exits are the allocation-failure "
    "return), RF3 dominance in Machine::run_query (stub choice point and success continuation before the "
    "goal is started), RF2 stub frame initialisation (shared or-frame table), structure of the end test "
    "and of Drop."
)
ASSUMPTIONS = ["dispatch_loop returns to the caller at LIB_QUERY_SUCCESS / BREAK_FROM_DISPATCH_LOOP_LOC (C07 covers the loop's arms)"]


def run(ctx, R):
    F = ctx.facts()
    R.rule("RF3 report-once of the exception ball; RF3 acquire order in run_query; RF2 stub frame; end test; Drop releases")
    nx = F.find_impl("QueryState", "std::iter::Iterator", "next")
    mir = F.mir(nx)
    g = CFG(mir)
    resets = set(g.call_blocks(lambda t: callee_of(t).endswith("Ball::reset")))
    raw_appends = g.call_blocks(lambda t: re.search(r"heap::Heap::append$", callee_of(t)) is not None)
    aligned = g.call_blocks(lambda t: callee_of(t).endswith("Ball::copy_and_align_to"))
    appends = aligned or raw_appends
    alloc_fail = set(g.call_blocks(lambda t: callee_of(t).endswith("AllocError::resource_error_offset") or callee_of(t).endswith("::resource_error_offset")))
    if len(appends) != 1:
        raise AnchorLost("QueryState::next: %d copies of the ball into the heap" % len(appends))
    R.ob("C28:ball-copied-with-alignment", len(aligned) == 1 and not raw_appends,
         "the ball's cells are relative to the heap top at throw time (ball.boundary); next() must copy them with Ball::copy_and_align_to. A raw Heap::append "
         "reports a wrong term (or loops) once the ball has passed through a non-matching inner catch/3", F.where(nx))
    ok, wit = g.must_pass(appends[0], resets | alloc_fail)
    R.ob("C28:report-once", ok and bool(resets),
         "after the ball's exception term has been copied out, some path returns without Ball::reset (return block %s): every later query on this "
         "machine would report the same exception again" % wit, F.where(nx))
    # the ball is inspected after the dispatch loop ran
    disp = g.call_blocks(lambda t: callee_of(t).endswith("Machine::dispatch_loop") or callee_of(t).endswith("::dispatch_loop"))
    dom = g.dominators()
    R.ob("C28:ball-read-after-run", len(disp) == 1 and disp[0] in dom.get(appends[0], ()), "the exception is read after dispatch_loop returned", F.where(nx))
    # end test: `called && b <= stub_b` returns None before running
    h = F.hir(nx)
    end_ok = False
    for n in walk(h["body"]):
        if n["k"] == "If":
            c = n["cond"]
            fields = {x["name"] for x in walk(c) if x["k"] == "Field"}
            ops = {x["op"] for x in walk(c) if x["k"] == "Binary"}
            if {"called", "b", "stub_b"} <= fields and "Le" in ops and "And" in ops:
                end_ok = any(x["k"] == "Ret" and (res_name(x.get("val", {})) or "").endswith("::None") for x in walk(n["then"]))
    R.ob("C28:end-test", end_ok, "next() must stop (return None) once the query was started and b <= stub_b, comparing with the stub recorded for THIS query", F.where(nx))

    # ---- run_query ordering --------------------------------------------------------------------------------
    rq = F.find_impl("Machine", None, "run_query")
    m2 = F.mir(rq)
    g2 = CFG(m2)
    d2 = g2.dominators()
    stub = g2.call_blocks(lambda t: callee_of(t).endswith("::allocate_stub_choice_point"))
    start = g2.call_blocks(lambda t: re.search(r"MachineState>?::execute_at_index$", callee_of(t)) is not None)
    if len(stub) != 1 or len(start) != 1:
        raise AnchorLost("run_query: stub %s start %s" % (stub, start))
    R.ob("C28:run_query:stub-before-start", stub[0] in d2.get(start[0], ()), "the stub choice point must exist before the goal is started", F.where(rq))
    cp_blocks = [i for i, b in enumerate(m2["blocks"]) if any(s.get("l") and s["l"][-1:] == [".cp"] for s in b["s"])]
    R.ob("C28:run_query:success-continuation-set", any(b in d2.get(start[0], ()) or b == start[0] for b in cp_blocks),
         "cp must be set to the query-success location before the goal is started", F.where(rq))
    hq = F.hir(rq)
    cp_val = [n for n in walk(hq["body"]) if n["k"] == "Assign" and n["lhs"]["k"] == "Field" and n["lhs"]["name"] == "cp"]
    R.ob("C28:run_query:success-continuation-value", len(cp_val) == 1 and (res_name(cp_val[0]["rhs"]) or "").endswith("LIB_QUERY_SUCCESS"),
         "cp = %s" % [res_name(n["rhs"]) for n in cp_val], F.where(rq))
    # stub_b is read from machine_st.b after the stub was pushed
    sb = [n for n in walk(hq["body"]) if n["k"] == "Let" and n["pat"]["k"] == "PBind" and n["pat"]["name"] == "stub_b"]
    R.ob("C28:run_query:records-stub", len(sb) == 1 and orframe.field_chain(sb[0]["init"])[-2:] == ["machine_st", "b"], "QueryState.stub_b must be machine_st.b", F.where(rq))
    # the ball is clean when a query starts: either reset here or guaranteed by report-once above
    # ---- stub frame + Drop ------------------------------------------------------------------------------------
    fields = orframe.prelude_fields(F)
    st = F.find_impl("Machine", None, "allocate_stub_choice_point")
    af = orframe.assigned_fields(F.hir(st)["body"])
    for f in fields:
        R.ob("C28:stub-frame:sets:%s" % f, ("prelude", f) in af, "allocate_stub_choice_point must initialise OrFramePrelude.%s" % f, F.where(st))
    R.ob("C28:stub-frame:becomes-b", ("st", "b") in af and ("st", "hb") in af, "the stub must become the current choice point and set hb", F.where(st))
    # the stub's heap mark is the heap top at push time (popping it must not cut below the machine's own cells)
    hval = [n for n in walk(F.hir(st)["body"]) if n["k"] == "Assign" and orframe.field_chain(n["lhs"])[-2:] == ["prelude", "h"]]
    R.ob("C28:stub-frame:heap-mark-is-current-top", len(hval) == 1 and any(x["k"] == "MethodCall" and x["name"] == "cell_len" for x in walk(hval[0]["rhs"])),
         "allocate_stub_choice_point must record h = heap.cell_len(): with h = 0 the end of a query truncates the heap over the pre-allocated "
         "error(resource_error(memory), []) term and a later memory exhaustion throws garbage", F.where(st))
    dr = F.find_impl("QueryState", "std::ops::Drop", "drop")
    dh = F.hir(dr)
    uses_stub = any(x["k"] == "Field" and x["name"] == "stub_b" for x in walk(dh["body"]))
    sets_b = any(x["k"] == "Assign" and orframe.field_chain(x["lhs"])[-2:] == ["machine_st", "b"] and any(y["k"] == "Field" and y["name"] == "stub_b" for y in walk(x["rhs"])) for x in walk(dh["body"]))
    R.ob("C28:drop:releases-relative-to-own-stub", uses_stub and sets_b,
         "Drop must cut back to the stub recorded for THIS query (self.stub_b) before popping: popping whatever choice point is on top leaves the stub behind "
         "when the iterator was only partially consumed", F.where(dr))
    calls = [short(r) for _, r, _ in hir_calls(F.hir(dr)["body"])]
    R.ob("C28:drop:releases-choice-point", any(c in ("Machine::trust_me", "Machine::trust_me_epilogue") for c in calls) or any("truncate" in c for c in calls),
         "dropping the iterator must pop the query's choice point; calls %s" % calls, F.where(dr))

    # ---- "bindings equal to those the same query gives inside Prolog": the heap-to-Term conversion -----------------
    fh_fn = [p for p, it in F.items.items() if p.endswith("Term::from_heapcell") and it["file"].startswith("src/machine/lib_machine")]
    if len(fh_fn) != 1:
        raise AnchorLost("Term::from_heapcell: %s" % fh_fn)
    fh = F.hir(fh_fn[0])

    def pushes(e):
        """the expression definitely pushes a term on term_stack (or diverges) on every path"""
        k = e.get("k")
        if k == "Block":
            for s in e.get("stmts", []):
                if s.get("k") == "Let" and "init" in s and pushes(s["init"]):
                    return True
                if s.get("k") != "Let" and pushes(s):
                    return True
            return "expr" in e and pushes(e["expr"])
        if k == "MethodCall":
            if e["name"] == "push" and any(x["k"] == "Path" and res_name(x) == "term_stack" for x in walk(e["recv"])):
                return True
            return any(pushes(a) for a in e.get("args", []))
        if k == "If":
            return "else" in e and pushes(e["then"]) and pushes(e["else"])
        if k == "Match":
            return all(pushes(a["body"]) for a in e["arms"])
        if k in ("Ret", "Break", "Continue"):
            return True
        if k == "Call":
            r = e.get("resolved") or e.get("callee") or ""
            if re.search(r"panicking::|unreachable|begin_panic", r):
                return True
        if k in ("MacCall",):
            return False
        if k == "DropTemps" or k == "Paren":
            inner = e.get("e") or e.get("a")
            return bool(inner) and pushes(inner)
        if k == "Semi":
            return pushes(e.get("e") or {})
        return any(m[0] in ("unreachable", "panic", "todo", "unimplemented") for m in e.get("mac", []))

    tag_matches = [m for m in matches_in(fh["body"], src=None) if any("HeapCellValueTag::" in (pat_variant(q) or res_name(q) or "") or q.get("k") == "PLit" for a in m["arms"] for q in walk(a["pat"]))]
    if not tag_matches:
        raise AnchorLost("from_heapcell: tag dispatch")
    big = max(tag_matches, key=lambda m: len(m["arms"]))
    n_arm = 0
    for i, arm in enumerate(big["arms"]):
        n_arm += 1
        names = sorted({(pat_variant(q) or res_name(q) or "").rsplit("::", 1)[-1] for q in walk(arm["pat"]) if q.get("k") in ("PPath", "PStruct", "PTupleStruct", "PBind")} - {""})
        R.ob("C28:answer-term:every-cell-kind-yields-a-term:arm%d" % i, pushes(arm["body"]),
             "Term::from_heapcell: the arm for %s (line %s) can finish without pushing a term: the sub-term is lost and the answer is wrong or the conversion panics "
             "(e.g. a packed string whose tail is an atom: partial_string(\"abc\", L, T), T = foo)" % (names[:4], arm["ln"]), F.where(fh_fn[0]))
    R.floor("from_heapcell tag arms", n_arm, 8)
    # anonymous variables: one name table per answer, not per binding
    nx = F.find_impl("QueryState", "std::iter::Iterator", "next")
    nh = F.hir(nx)
    per_binding = 0
    n_conv = 0
    for loop in walk(nh["body"]):
        if loop["k"] != "Loop":
            continue
        for x in walk(loop):
            if x["k"] == "Call" and (x.get("resolved") or x.get("callee") or "").endswith("Term::from_heapcell"):
                n_conv += 1
                last = x["args"][-1]
                if any(y["k"] == "MethodCall" and y["name"] == "clone" for y in walk(last)):
                    per_binding += 1
    if n_conv == 0:
        raise AnchorLost("QueryState::next: from_heapcell inside the bindings loop")
    R.ob("C28:answer-term:anonymous-names-shared-across-bindings", per_binding == 0,
         "QueryState::next converts each binding with a fresh clone of the variable-name table: the _A, _B numbering restarts per binding and two distinct anonymous "
         "variables of one answer get the same name (X = f(_), Y = g(_) reported as f(_A), g(_A))", F.where(nx))
    # Drop also forgets the cleanup blocks (setup_call_cleanup/3) that point into the discarded frames: unwind_stack jumps
    # to max(block, scc_block), so a stale scc_block sends the next throwing query to a frame that no longer exists
    touches_cont = any(x["k"] == "Field" and x["name"] == "cont_pts" for x in walk(dh["body"]))
    resets_scc = any(x["k"] == "Assign" and orframe.field_chain(x["lhs"])[-1:] == ["scc_block"] for x in walk(dh["body"]))
    # ... ALL of them: nested setup_call_cleanup/3 calls leave several entries, so the pop sits in a loop over cont_pts
    pops_in_loop = any(lp["k"] == "Loop" and any(x["k"] == "MethodCall" and x["name"] == "pop" and any(y.get("k") == "Field" and y.get("name") == "cont_pts" for y in walk(x["recv"])) for x in walk(lp))
                       for lp in walk(dh["body"])) or \
        any(x["k"] == "MethodCall" and x["name"] in ("retain", "truncate", "drain") and any(y.get("k") == "Field" and y.get("name") == "cont_pts" for y in walk(x["recv"])) for x in walk(dh["body"]))
    R.ob("C28:drop:forgets-every-cleanup-block-above-the-stub", pops_in_loop,
         "Drop removes at most one cont_pts entry: with two nested, still pending setup_call_cleanup/3 calls in an abandoned query the outer entry survives and its cleanup "
         "runs at the first cut of the next query", F.where(dr))
    # ... and the block restored is the one that was current before the LOWEST discarded entry was installed: either the
    # assignment sits in the loop that pops from the top (its last execution is for the lowest entry), or its value is
    # taken from the first discarded entry. The top entry's prev_block is the next lower DISCARDED entry's own block.
    def is_cont(e):
        return any(y.get("k") == "Field" and y.get("name") == "cont_pts" for y in walk(e))
    lowest = True
    why = ""
    for asg in [x for x in walk(dh["body"]) if x["k"] == "Assign" and orframe.field_chain(x["lhs"])[-1:] == ["scc_block"]]:
        in_pop_loop = any(lp["k"] == "Loop" and any(y is asg for y in walk(lp)) and
                          any(x["k"] == "MethodCall" and x["name"] == "pop" and is_cont(x["recv"]) for x in walk(lp)) for lp in walk(dh["body"]))
        if in_pop_loop:
            continue
        # the value's source: the LetCond / Let / Match that binds the local it reads
        src = None
        if asg["rhs"]["k"] == "Path" and "local" in asg["rhs"].get("res", {}):
            nm = asg["rhs"]["res"]["local"]
            for x in walk(dh["body"]):
                if x["k"] in ("LetCond", "Let") and "init" in x and nm in [l.get("name") for l in walk(x["pat"]) if l.get("k") == "PBind"]:
                    src = x["init"]
        if src is None or not is_cont(src):
            lowest, why = False, "the value stored is not read from cont_pts in a recognised way"
            continue
        picks = [y["name"] for y in walk(src) if y["k"] == "MethodCall" and y["name"] in ("last", "next_back", "rev", "pop", "first", "get", "next", "nth")]
        if any(nm in ("last", "next_back", "rev", "pop") for nm in picks) or not (picks or any(y["k"] == "Index" for y in walk(src))):
            lowest, why = False, "the value stored comes from the top discarded entry (%s)" % ",".join(picks)
    R.ob("C28:drop:block-restored-is-the-one-below-the-lowest-discarded-entry", lowest,
         "Drop restores scc_block outside the popping loop and %s: with two nested, still pending setup_call_cleanup/3 calls in an abandoned query scc_block is left "
         "pointing at the inner discarded frame and the next query that throws unwinds to it" % why, F.where(dr))
    R.ob("C28:drop:forgets-cleanup-blocks-of-discarded-frames", touches_cont and resets_scc,
         "Drop must pop the cont_pts entries installed above this query's stub and restore scc_block: after taking one answer of setup_call_cleanup(true, member(X,[1,2,3]), true) "
         "and dropping the iterator, run_query(\"throw(b).\") panics in Stack::index_or_frame", F.where(dr))
