"""C11 — Backtracking restores exactly the pre-goal state.

Decides: write/trail pairing in every function that trails, the trail-condition table, the
writer/reader totality of trail entry tags (each tag pushed is undone by an arm that restores a
self-reference of the matching kind, in reverse order), the blackboard state match of bb_b_put,
who may call unwind_trail, and choice-point save/restore field by field (shared table with C07).
Not which goals create choice points.
"""
import re

from .core import AnchorLost, hir_calls, matches_in, pat_leaves, res_name, short, walk, mac_names
from . import repo, orframe

EXPLANATION = (
    "RF3 bind-implies-trail pairing over the typed HIR of every caller of MachineState::trail (the "
    "whole-crate call facts enumerate them), RF9 condition table of MachineState::trail, RF10/RF9 tag "
    "round-trip between trail() and Machine::unwind_trail, RF10 state match of "
    "store_backtrackable_global_var, RF4 callers of unwind_trail, RF2 or-frame writer/restorer table."
)
ASSUMPTIONS = ["all variable bindings go through MachineState::bind / bind_attr_var (C10 checks the unifier side)"]

TRAIL_TAG = "types::TrailEntryTag::"


def chain(e):
    return orframe.field_chain(e)


def run(ctx, R):
    F = ctx.facts()
    R.rule("RF3 write/trail pairing; RF9 trail conditions; RF10 trail tag round-trip; RF10 bb_b_put states; RF4 unwind_trail callers; RF2 or-frame table")
    tr = F.find_impl("MachineState", None, "trail")
    callers = sorted({p for p, cs in F.calls.items() for c in cs if (c.get("resolved") or c.get("callee")) == tr})
    R.floor("functions that trail", len(callers), 7)

    # ---- R1: in every trailing function, a cell write and its trail call share a block -----------------
    n_pairs = 0
    for fn in callers:
        top = re.sub(r"(::\{closure#\d+\})+$", "", fn)
        h = F.hir(top)

        def has_trail(node):
            return [x for x in walk(node) if x["k"] == "MethodCall" and (x.get("resolved") or "") == tr]

        found = []  # (kind, write stmt, trail calls that follow it in its block or an enclosing block)

        def scan(node, outer_later):
            if isinstance(node, list):
                for x in node:
                    scan(x, outer_later)
                return
            if not isinstance(node, dict):
                return
            if node.get("k") == "Block":
                ss = list(node["stmts"]) + ([node["expr"]] if "expr" in node else [])
                for i, s in enumerate(ss):
                    later = [t for s2 in ss[i + 1:] for t in has_trail(s2)] + outer_later
                    if s["k"] == "Assign":
                        ch = chain(s["lhs"])
                        if ch and ch[-1] == "[]" and len(ch) >= 2 and ch[-2] in ("heap", "stack"):
                            found.append((ch[-2], s, later))
                    if s["k"] == "Block":
                        scan(s, later)
                    else:
                        scan({k: v for k, v in s.items() if k != "k"}, later)
                return
            for v in node.values():
                if isinstance(v, (dict, list)):
                    scan(v, outer_later)

        scan(h["body"], [])
        if True:
            for kind, s, after in found:
                n_pairs += 1
                ok = bool(after)
                detail = "cell write to %s[..] with no trail call in the same block: the binding survives backtracking" % kind
                if ok:
                    t = after[0]
                    ctors = {(x.get("resolved") or x.get("callee") or "").rsplit("::", 1)[-1] for x in walk(t) if x["k"] == "Call"}
                    want = {"stack": {"stack_cell"}, "heap": {"heap_cell", "attr_var"}}[kind]
                    named = ctors & {"stack_cell", "heap_cell", "attr_var"}
                    if named and not (named & want):
                        ok = False
                        detail = "write to %s[..] is trailed as %s" % (kind, sorted(named))
                    else:
                        detail = "write to %s[..] trailed (%s)" % (kind, sorted(named) or "by reference")
                R.ob("C11:write-trailed:%s@%d" % (short(top), s["ln"] - F.items[top]["line"]), ok, detail, "%s (line %s)" % (F.where(top), s["ln"]))
    R.floor("trailed cell writes", n_pairs, 10)
    # ---- R1c: crate-wide, a function that assigns to an indexed heap / stack cell (other than the scratch cell heap[0])
    # either trails (R1 above) or is on the table below, one reason each
    UNTRAILED_WRITERS = {
        "MachineState::verify_attributes": "un-binds the attributed variables for the duration of their hooks; the entry made by the original binding stays on the trail",
        "Machine::compile_inline_or_expanded_goal": "fills cells of the goal structure it has just allocated (h+1 ..): newer than every choice point",
        "Machine::get_continuation_chunk": "binds permanent variables of the frame to fresh heap cells and pushes the TrailedStackVar entry inline (borrow checker), under the same `< b` condition as trail()",
        "<'a>::modify_head_of_queue": "term construction in read.rs: cells of the term being written, allocated by this reader",
        "<'a>::write_term_to_heap": "term construction in read.rs: cells of the term being written, allocated by this reader",
        "Machine::unwind_trail": "the undo itself",
    }
    trailing = {re.sub(r"(::\{closure#\d+\})+$", "", c) for c in callers}
    n_w = 0
    for p, it in sorted(F.items.items()):
        if it["kind"] not in ("Fn", "AssocFn") or not it["file"].startswith("src/") or "::tests::" in p or it["file"].endswith("mock_wam.rs") or p in trailing:
            continue
        if it["file"] in ("src/machine/gc.rs", "src/machine/copier.rs", "src/machine/cycle_detection.rs", "src/heap_iter.rs", "src/machine/heap.rs", "src/machine/stack.rs"):
            continue  # collectors / iterators / the stores themselves: marks and forwarding cells, restored by their own protocols (C30 copier rule, C34)
        try:
            ph = F.hir(p)
        except AnchorLost:
            continue
        lines = []
        for x in walk(ph["body"]):
            if x["k"] == "Assign":
                ch = chain(x["lhs"])
                if ch and ch[-1] == "[]" and len(ch) >= 2 and ch[-2] in ("heap", "stack"):
                    idx = x["lhs"].get("idx") or {}
                    if idx.get("k") == "Lit" and str(idx.get("lit", {}).get("int")) == "0":
                        continue
                    lines.append(x["ln"])
        if lines:
            n_w += 1
            sp = short(p)
            R.ob("C11:untrailed-cell-write:%s" % sp, sp in UNTRAILED_WRITERS,
                 ("listed: " + UNTRAILED_WRITERS[sp]) if sp in UNTRAILED_WRITERS else
                 "%s assigns to an indexed heap/stack cell at line(s) %s and never calls MachineState::trail: if the cell is older than a choice point the write survives backtracking" % (sp, lines),
                 F.where(p))
    R.floor("functions writing indexed cells without trailing", n_w, 4)
    # ---- R1b: whether an update needs a trail entry is decided in ONE place, MachineState::trail (older than the newest
    # choice point? R2 below). A caller that skips the call because of what it sees on the trail / in tr, hb, b re-decides
    # that question without the choice-point boundary (e.g. "the top entry is already one for this key")
    TRAIL_STATE = {"trail", "tr", "hb", "b", "block"}
    n_tc = 0
    for fn in callers:
        top = re.sub(r"(::\{closure#\d+\})+$", "", fn)
        if top == tr:
            continue
        body = F.hir(top)["body"]
        lets = {x["pat"]["name"]: x["init"] for x in walk(body) if x["k"] == "Let" and x["pat"]["k"] == "PBind" and "init" in x}

        def names_of(e, depth=0):
            out = set()
            for x in walk(e):
                if x["k"] == "Field":
                    out.add(x["name"])
                if x["k"] == "Path" and depth < 3:
                    nm = res_name(x)
                    if nm in lets:
                        out |= names_of(lets[nm], depth + 1)
            return out

        sites = []

        def rec(n, conds):
            if isinstance(n, list):
                for x in n:
                    rec(x, conds)
                return
            if not isinstance(n, dict):
                return
            if n.get("k") == "MethodCall" and (n.get("resolved") or "") == tr:
                sites.append((n, list(conds)))
            if n.get("k") == "If":
                rec(n["cond"], conds)
                rec(n["then"], conds + [n["cond"]])
                if n.get("else"):
                    rec(n["else"], conds + [n["cond"]])
                return
            for k, v in n.items():
                if k != "mac" and isinstance(v, (dict, list)):
                    rec(v, conds)
        rec(body, [])
        for i, (site, conds) in enumerate(sites):
            n_tc += 1
            used = set()
            for c in conds:
                used |= names_of(c) & TRAIL_STATE
            R.ob("C11:trail-call:not-conditional-on-trail-state:%s#%d" % (short(top), i), not used,
                 "the trail call at line %s of %s is skipped or taken depending on %s: only MachineState::trail may decide (against hb / b) whether an update needs an entry; "
                 "a caller-side test such as `the top entry is already one for this key` ignores the choice points pushed since that entry and loses the value to restore"
                 % (site["ln"], short(top), sorted(used)), F.where(top))
    R.floor("trail call sites", n_tc, 14)
    # bind: the RefTag arms write the store their tag names
    bind = F.find_impl("MachineState", None, "bind")
    bh = F.hir(bind)
    for m in matches_in(bh["body"], src=None):
        for arm in m["arms"]:
            for leaf in pat_leaves(arm["pat"]):
                rn = res_name(leaf) or ""
                if rn.endswith("RefTag::StackCell") or rn.endswith("RefTag::HeapCell"):
                    want = "stack" if rn.endswith("StackCell") else "heap"
                    ws = {chain(x["lhs"])[-2] for x in walk(arm["body"]) if x["k"] == "Assign" and chain(x["lhs"])[-1:] == ["[]"]}
                    R.ob("C11:bind:%s-arm-writes-%s" % (rn.rsplit("::", 1)[1], want), ws == {want}, "arm writes %s" % sorted(ws), F.where(bind))

    # ---- R2: trail condition table ------------------------------------------------------------------------
    th = F.hir(tr)
    cond_table = {}
    for m in matches_in(th["body"], src=None):
        for arm in m["arms"]:
            for leaf in pat_leaves(arm["pat"]):
                rn = res_name(repo.strip_ref(leaf)) or ""
                key = None
                if "RefTag::" in rn:
                    key = rn.rsplit("::", 1)[1]
                elif "TrailRef::" in rn and not rn.endswith("TrailRef::Ref"):
                    key = rn.rsplit("::", 1)[1]
                if not key:
                    continue
                conds = []
                for n in walk(arm["body"]):
                    if n["k"] == "If":
                        c = n["cond"]
                        if c["k"] == "Binary":
                            conds.append((c["op"], (chain(c["b"]) or ["?"])[-1], any((x.get("resolved") or "").endswith("::push") for x in walk(n["then"]) if x["k"] == "MethodCall")))
                pushes = sum(1 for x in walk(arm["body"]) if x["k"] == "MethodCall" and x["name"] == "push")
                cond_table[key] = (conds, pushes)
    ORACLE = {"HeapCell": [("Lt", "hb", True)], "StackCell": [("Lt", "b", True)], "AttrVar": [("Lt", "hb", True)],
              "AttrVarListLink": [("Lt", "hb", True)], "BlackboardEntry": [], "BlackboardOffset": []}
    for k, want in ORACLE.items():
        got = cond_table.get(k)
        if got is None:
            raise AnchorLost("trail(): no arm for %s" % k)
        R.ob("C11:trail-condition:%s" % k, got[0] == want and got[1] >= 1,
             "trail(%s) pushes under %s (oracle: %s; the boundary is strict: a cell at the boundary belongs to the newer segment)" % (k, got[0], want or "unconditional"), F.where(tr))

    # ---- R3: tag round trip ---------------------------------------------------------------------------------
    pushed = set()
    for n in walk(th["body"]):
        rn = res_name(n) or ""
        if n["k"] == "Path" and rn.startswith(TRAIL_TAG):
            pushed.add(rn[len(TRAIL_TAG):])
    uw = F.find_impl("Machine", None, "unwind_trail")
    uh = F.hir(uw)
    arms = {}
    wild = False
    for m in matches_in(uh["body"], src=None):
        if "TrailEntryTag" not in (m["scrut"].get("ty") or ""):
            continue
        for arm in m["arms"]:
            for leaf in pat_leaves(arm["pat"]):
                rn = res_name(leaf) or ""
                if rn.startswith(TRAIL_TAG):
                    arms[rn[len(TRAIL_TAG):]] = arm
                elif leaf["k"] in ("PWild", "PBind"):
                    wild = True
    R.floor("trail tags pushed", len(pushed), 7)
    R.ob("C11:unwind_trail:no-wildcard", not wild, "a wildcard arm would silently skip a new trail entry kind", F.where(uw))
    for t in sorted(pushed):
        R.ob("C11:unwind_trail:handles:%s" % t, t in arms, "trail() pushes %s entries; unwind_trail must undo them" % t, F.where(uw))
    SELFREF = {"TrailedHeapVar": ("heap", "heap_loc_as_cell"), "TrailedStackVar": ("stack", "stack_loc_as_cell"), "TrailedAttrVar": ("heap", "attr_var_as_cell")}
    for t, (store, mac) in SELFREF.items():
        arm = arms.get(t)
        ok = False
        detail = "no arm"
        if arm:
            ws = [(chain(x["lhs"]), x) for x in walk(arm["body"]) if x["k"] == "Assign"]
            macs = {mm for _, x in ws for y in walk(x["rhs"]) for mm in mac_names(y)}
            stores = {c[-2] for c, _ in ws if len(c) >= 2}
            ok = stores == {store} and mac in macs
            detail = "writes %s with %s (oracle: %s[h] = %s!(h))" % (sorted(stores), sorted(macs), store, mac)
        R.ob("C11:unwind_trail:restores-self-reference:%s" % t, ok, detail, F.where(uw))
    rev = any(x["k"] == "MethodCall" and x["name"] == "rev" for x in walk(uh["body"]))
    R.ob("C11:unwind_trail:reverse-order", rev, "entries must be undone newest first (two-cell records, attribute undeletion)", F.where(uw))

    # ---- R4: bb_b_put state match -----------------------------------------------------------------------------
    sb = F.find_impl("Machine", None, "store_backtrackable_global_var")
    sh = F.hir(sb)
    states = set()
    top_wild = False
    for m in matches_in(sh["body"], src=None):
        if not any(x["k"] == "MethodCall" and x["name"] == "get_mut" for x in walk(m["scrut"])):
            continue

        def shapes(p):
            p = repo.strip_ref(p)
            rn = res_name(p) or ""
            if p["k"] in ("PWild",):
                return ["_"]
            if p["k"] == "PBind" and "sub" not in p:
                return ["_"]
            if rn.endswith("::None"):
                return ["None"]
            if p["k"] == "PTupleStruct" and rn.endswith("::Some"):
                inner = repo.strip_ref(p["pats"][0])
                if inner["k"] == "PTuple":
                    return ["Some(" + s + ")" for s in shapes(inner["pats"][1])]
                return ["Some(_)"]
            return ["?"]

        for arm in m["arms"]:
            for leaf in pat_leaves(arm["pat"]):
                for s in shapes(leaf):
                    if s == "_":
                        top_wild = True
                    states.add(s)
                    if s == "Some(_)":
                        # inner match on the location
                        for m2 in matches_in(arm["body"], src=None):
                            for a2 in m2["arms"]:
                                for l2 in pat_leaves(a2["pat"]):
                                    for s2 in shapes(l2):
                                        states.add("Some(" + s2 + ")" if not s2.startswith("Some(") or True else s2)
    need = {"None", "Some(None)"}
    have_some_some = any(s.startswith("Some(Some") for s in states)
    # the value outlives the clause that stores it: an unbound variable of the environment (a stack cell) is moved to the
    # heap before it is stored, the way term_variables/2 does
    sbb = F.hir(sb)["body"]
    glob = [n for n in walk(sbb) if n["k"] == "If" and any(x["k"] == "MethodCall" and x["name"] == "is_stack_var" for x in walk(n["cond"]))
            and any(x["k"] == "MethodCall" and x["name"] == "bind" for x in walk(n["then"]))]
    R.ob("C11:bb_b_put:value-stored-is-not-an-environment-variable", len(glob) >= 1,
         "store_backtrackable_global_var stores the dereferenced argument as it is: for an unbound variable of the calling clause's environment that is a reference "
         "into the stack, dead once the clause returns (a :- bb_b_put(k, X), p(X). ?- a, bb_get(k, V). reads a stale stack slot and answers V = k)", F.where(sb))
    # the trail entry of a replaced value holds the OLD value: it is made before the cell is overwritten
    order_ok, n_pairs_bb = True, 0
    for blk in walk(sbb):
        if blk.get("k") != "Block":
            continue
        ss = list(blk.get("stmts", [])) + ([blk["expr"]] if "expr" in blk else [])
        tr_i = [i for i, st in enumerate(ss) if any(x["k"] == "MethodCall" and x["name"] == "trail" and any(((y.get("ctor") or y.get("callee") or res_name(y) or "") if isinstance(y, dict) else "").endswith("TrailRef::BlackboardOffset") for y in walk(x)) for x in walk(st))]
        as_i = [i for i, st in enumerate(ss) if st.get("k") == "Assign" and st["lhs"].get("k") == "Unary" and "Deref" in str(st["lhs"].get("op"))]
        if tr_i and as_i:
            n_pairs_bb += 1
            if not (max(tr_i) < min(as_i)):
                order_ok = False
    if n_pairs_bb < 1:
        raise AnchorLost("store_backtrackable_global_var: the arm that replaces a live value (trail + overwrite)")
    # the non-backtrackable sibling copies its value out of the heap: it must copy the VALUE (dereferenced), not the
    # argument register's cell, which can be a reference to a bound cell of the caller's environment that the copier
    # takes for a fresh variable
    sg = F.find_impl("Machine", None, "store_global_var")
    sgb = F.hir(sg)["body"]
    raw = [x["ln"] for x in walk(sgb) if x["k"] == "Let" and "init" in x and x["init"].get("k") == "Index" and any(y.get("k") == "Field" and y.get("name") == "registers" for y in walk(x["init"]))
           and (x["init"].get("idx") or x["init"].get("index") or {}).get("lit", {}).get("int") == "2"]
    der = any(x["k"] == "MethodCall" and x["name"] == "deref_register" for x in walk(sgb))
    R.ob("C11:bb_put:value-read-dereferenced", not raw and der,
         "store_global_var copies registers[2] as it is (line %s): a value that reaches bb_put/2 through a permanent variable of the caller is a reference to a stack cell, "
         "and the stored copy is an unbound variable (fresh(V) :- bb_get(ctr,V0), V is V0+1, bb_put(ctr,V). called from d(H) :- fresh(V), H = p(V). leaves ctr unbound)" % raw, F.where(sg))
    R.ob("C11:bb_b_put:old-value-trailed-before-overwrite", order_ok,
         "store_backtrackable_global_var overwrites the stored value before it builds the BlackboardOffset trail entry from it: the entry then records the NEW value and "
         "backtracking restores the key to what it was supposed to undo (bb_b_put(k, outer), ( bb_b_put(k, inner), fail ; bb_get(k, V) ) gives V = inner)", F.where(sb))
    R.ob("C11:bb_b_put:distinguishes-states", need <= states and have_some_some and not top_wild,
         "store_backtrackable_global_var must treat 'key absent', 'key present without backtrackable value' (keeps the bb_put value) and "
         "'key present with value' separately; found states %s%s" % (sorted(states), " with a catch-all arm" if top_wild else ""), F.where(sb))

    # ---- R5: who may call unwind_trail -----------------------------------------------------------------------------
    ucallers = sorted({short(p) for p, cs in F.calls.items() for c in cs if (c.get("resolved") or c.get("callee")) == uw})
    want = sorted(["Machine::retry_me_else", "Machine::retry", "Machine::trust", "Machine::trust_me"])
    R.ob("C11:unwind_trail:callers", ucallers == want, "unwind_trail is called from %s (table: %s)" % (ucallers, want), F.where(uw))

    # ---- R6: or-frame table ------------------------------------------------------------------------------------------
    n = orframe.check(F, R, "C11")
    R.floor("or-frame obligations", n, 60)
