"""C17 — Malformed input never crashes or desynchronises the reader (no-panic clause only).

Decides the panic-freedom *structure* of the reader: the multiset of potentially panicking
constructs (unwrap/expect, panic!/unreachable!/assert!, Index/slice operations, RefCell borrows,
integer division) in the bodies of lexer.rs / parser.rs / read.rs reachable from the reader entry
points equals the triaged table; any construct beyond it is a violation. Termination and
resynchronisation after a syntax error are not decided.
"""
from . import panicbudget, scopes

EXPLANATION = (
    "RF5 panic budget: constructs are enumerated from the MIR call/assert facts (after macro "
    "expansion and type resolution) of every body of src/parser/lexer.rs, src/parser/parser.rs and "
    "src/read.rs reachable in the whole-crate call graph from Parser::read_term, Lexer::next_token, "
    "Lexer::next_number_token and the read.rs entry points, keyed by (function, kind, callee) and "
    "compared with engines/rules/tables/c17_reader.json. Conservative by design: a new panicking "
    "construct in the reader path is reported even if a human could prove it unreachable."
)
ASSUMPTIONS = ["table dispositions were assigned by reading the constructs of the reviewed tree; a disposition can go stale if its guard is removed (stated limit)"]


def run(ctx, R):
    R.rule("RF5 reader panic budget against a triaged table")
    F = ctx.facts()
    sc = scopes.reader_scope(F)
    R.floor("reader bodies in scope", len(sc), 100)
    panicbudget.check(F, R, "C17:panic-budget", "c17_reader", sc, 20)
