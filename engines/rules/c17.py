"""C17 — Malformed input never crashes or desynchronises the reader (no-panic and progress clauses).

Decides (a) the panic-freedom *structure* of the reader: the multiset of potentially panicking
constructs (unwrap/expect, panic!/unreachable!/assert!, Index/slice operations, RefCell borrows,
integer division) in the bodies of lexer.rs / parser.rs / read.rs reachable from the reader entry
points equals the triaged table; (b) *progress*: no lexical error leaves Lexer::next_token
without having consumed input, an error of the byte decoder is not mistaken for the end of the
input, the end-of-input error is made only where the reader said so, and the consuming reads skip
the invalid bytes they report — otherwise the same error is raised on every later read and the rest
of the text is never reached ("never loops", "the next read continues ..."); (c) whether the rest
of the offending clause is skipped after a lexical error (it is not: recorded finding).
Termination of the parser proper and the values read are not decided.
"""
import re

from . import panicbudget, progress, scopes
from .core import AnchorLost, hir_calls, pat_leaves, pat_variant, short, walk, res_name

EXPLANATION = (
    "RF5 panic budget: constructs are enumerated from the MIR call/assert facts (after macro "
    "expansion and type resolution) of every body of src/parser/lexer.rs, src/parser/parser.rs and "
    "src/read.rs reachable in the whole-crate call graph from Parser::read_term, Lexer::next_token, "
    "Lexer::next_number_token and the read.rs entry points, keyed by (function, kind, callee) and "
    "compared with engines/rules/tables/c17_reader.json. Conservative by design: a new panicking "
    "construct in the reader path is reported even if a human could prove it unreachable. "
    "RF3 progress: interprocedural must-pass-through over the MIR CFGs of the Lexer methods reachable "
    "from next_token (every locally made error exit of a function that next_token reaches through "
    "call sites without prior consumption is preceded, on every path from the function's entry, by "
    "skip_char/read_char/consume; a callee that has consumed whenever it returns Ok covers the Ok edge "
    "of the match on its result). RF10 on the matches that turn reader results into lexer errors."
)
ASSUMPTIONS = ["table dispositions were assigned by reading the constructs of the reviewed tree; a disposition can go stale if its guard is removed (stated limit)",
               "errors made inside closures (Result combinators) are attributed to the call that receives the closure"]

RESYNC_FINDING_KEY = "C17:resync:lexical-error-skips-rest-of-clause"
BOM_FINDING_KEY = "C18:bom:skipped-only-at-stream-start"
# error kinds that can only be detected while scanning characters (triaged by reading lexer.rs)
LEXICAL_KINDS = {"BackQuotedString", "IncompleteReduction", "InvalidSingleQuotedCharacter", "MissingQuote", "NonPrologChar", "ParseBigInt", "ParseFloat",
                 "UnexpectedChar", "Utf8Error", "IO"}
# reader methods that move past reported bytes (read_char does NOT: it reports an error without consuming)
SKIP_RX = re.compile(r"CharRead>?::(skip_bad_bytes|consume)$")


def _arms_on(h, method_names):
    """Arms of the match whose scrutinee is a call of one of `method_names` on the reader."""
    for n in walk(h["body"]):
        if n["k"] == "Match" and n["scrut"]["k"] == "MethodCall" and n["scrut"]["name"] in method_names:
            return n["arms"]
    return None


def _pat_shape(p):
    """('Some', 'Err') for Some(Err(_)) etc.; '_' for wildcards/bindings."""
    out = []
    while True:
        if p["k"] in ("PTupleStruct", "PStruct", "PPath"):
            out.append((pat_variant(p) or "?").rsplit("::", 1)[-1])
            subs = p.get("pats") or []
            if len(subs) == 1:
                p = subs[0]
                continue
            break
        out.append("_")
        break
    return tuple(out)


def run(ctx, R):
    R.rule("RF5 reader panic budget against a triaged table; RF3 no lexical error without progress; RF10 reader-result matches")
    F = ctx.facts()
    sc = scopes.reader_scope(F)
    R.floor("reader bodies in scope", len(sc), 100)
    panicbudget.check(F, R, "C17:panic-budget", "c17_reader", sc, 20)
    reduce_term_guards(F, R)
    functor_arity_checked(F, R)
    end_of_input_and_bad_bytes_in_the_lexer(F, R)
    separators_are_not_elements(F, R)
    comment_scanners_defer_every_decoding_error(F, R)

    # ---- progress ---------------------------------------------------------------------------------------------
    entry, local_bad, edges, counts = progress.analyse(F)
    R.floor("lexer functions reached from next_token through uncovered call sites", len(local_bad), 8)
    R.floor("error exits classified", counts["exits"], 40)
    R.notes.append("progress analysis: %s" % counts)
    for p in sorted(local_bad):
        chain = [q for q in local_bad if any(c == p for c, _ in edges.get(q, []))]
        where = F.where(p)
        R.ob("C17:progress:%s" % short(p).split("::")[-1], not local_bad[p],
             "%s can return a lexical error without having consumed any input (error made at line(s) %s; reached from next_token through %s without prior consumption): "
             "the offending character stays in the input, every later read_term/2 raises the same error and the rest of the text is never read"
             % (short(p), ["%s: %s" % x for x in local_bad[p]], [short(c) for c in chain] or "its own entry"), where)
        if len(R.samples) < 12:
            R.sample({"fn": short(p), "uncovered_local_error_exits": local_bad[p], "uncovered_calls": [(short(c), ln) for c, ln in edges.get(p, [])]})

    # ---- the end-of-input error is made only where the reader said "no more input" ---------------------------
    lex = {}
    for name in ("lookahead_char", "read_char", "next_token"):
        c = [p for p, it in F.items.items() if p.endswith("::" + name) and it["file"] == "src/parser/lexer.rs" and it["kind"] == "AssocFn" and "Lexer" in p]
        if len(c) != 1:
            raise AnchorLost("Lexer::%s: %s" % (name, c))
        lex[name] = c[0]
    for name, meth in (("lookahead_char", "peek_char"), ("read_char", "read_char")):
        h = F.hir(lex[name])
        arms = _arms_on(h, (meth,))
        if arms is None:
            raise AnchorLost("Lexer::%s no longer matches on reader.%s()" % (name, meth))
        some_err = [a for a in arms if any(_pat_shape(q)[:2] == ("Some", "Err") for q in pat_leaves(a["pat"]))]
        calls_eof = lambda a: any(re.search(r"ParserError::unexpected_eof$", r or "") for _, r, _ in hir_calls(a["body"]))
        ok = bool(some_err) and not any(calls_eof(a) for a in some_err)
        R.ob("C17:decoder-error-is-not-eof:%s" % name, ok,
             "Lexer::%s must have an arm for Some(Err(_)) of reader.%s() that does not answer with the end-of-file error: otherwise bytes that are not UTF-8 "
             "end the text silently (read_term/2 then succeeds with an unbound term, forever)" % (name, meth), F.where(lex[name]))
        consumes = any(any(SKIP_RX.search(r or "") for _, r, _ in hir_calls(a["body"])) for a in some_err)
        R.ob("C17:decoder-error-is-consumed:%s" % name, consumes,
             "the Some(Err(_)) arm of Lexer::%s must skip the reported bytes (reader.skip_bad_bytes()/consume): peek_char and read_char leave them in the buffer" % name, F.where(lex[name]))
    # next_token: no end-of-file error on a path where a character was successfully peeked
    h = F.hir(lex["next_token"])
    n_eof = 0
    for n in walk(h["body"]):
        if n["k"] == "Match" and n.get("src") == "Normal":
            for a in n["arms"]:
                if any(_pat_shape(q)[:1] == ("Ok",) for q in pat_leaves(a["pat"])) and a["body"]["k"] != "Closure":
                    for x in walk_no_closures(a["body"]):
                        if x["k"] == "Call" and re.search(r"ParserError::unexpected_eof$", x.get("resolved") or x.get("callee") or ""):
                            n_eof += 1
            break
    R.ob("C17:eof-only-at-end-of-input:next_token", n_eof == 0,
         "Lexer::next_token makes the end-of-file error %d time(s) after a character was successfully peeked: the character is not consumed and read_term/2 "
         "treats the error as end of file although the stream is not at its end (succeeds with an unbound term, forever)" % n_eof, F.where(lex["next_token"]))

    # ---- consuming reads skip the invalid bytes they report (shared with C18) ---------------------------------
    consuming_reads(F, R, "C17")

    # ---- resynchronisation: the rest of the offending clause is skipped after a lexical error -----------------
    rt = [p for p, it in F.items.items() if p.endswith("parser::read_tokens") and it["kind"] == "Fn"]
    if len(rt) != 1:
        raise AnchorLost("parser::read_tokens: %s" % rt)
    h = F.hir(rt[0])
    arms = None
    for n in walk(h["body"]):
        if n["k"] == "Match" and n["scrut"]["k"] == "MethodCall" and n["scrut"]["name"] == "next_token":
            arms = n["arms"]
    if arms is None:
        raise AnchorLost("read_tokens no longer matches on lexer.next_token()")
    err_arms = [a for a in arms if any(_pat_shape(q)[:1] == ("Err",) for q in pat_leaves(a["pat"]))]
    if not err_arms:
        raise AnchorLost("read_tokens: no Err arm")
    # the arm that returns the lexical error itself (not the end-of-file conversion)
    plain = [a for a in err_arms if not any(re.search(r"incomplete_reduction$", r or "") for _, r, _ in hir_calls(a["body"]))]
    resync = False
    for a in plain:
        for _, r, _ in hir_calls(a["body"]):
            if r and r in F.items and F.items[r]["file"].startswith("src/parser/") and _loops_and_consumes(F, r):
                resync = True
    # while that finding stands, every error kind raised *inside the lexer* aborts tokenisation in the middle of a clause;
    # errors detected on complete tokens belong in the parser, which has consumed the clause up to its end token.
    # The kinds the lexer raises are therefore a closed table: a new one widens the desynchronisation.
    from .core import CallGraph, res_name
    cg = CallGraph(F)
    under = sorted(p for p in cg.reach([lex["next_token"]]) if p in F.items and F.items[p]["file"] == "src/parser/lexer.rs")
    kinds = {}
    for p in under:
        try:
            ph = F.hir(p)
        except AnchorLost:
            continue
        for x in walk(ph["body"]):
            r = res_name(x) if x["k"] == "Path" else (x.get("resolved") or x.get("callee")) if x["k"] == "Call" else None
            if r and "ParserErrorKind::" in r:
                kinds.setdefault(r.split("ParserErrorKind::")[1], set()).add(short(p))
    R.floor("error kinds raised by the lexer", len(kinds), 8)
    for k in sorted(kinds):
        R.ob("C17:resync:lexical-error-kind:%s" % k, k in LEXICAL_KINDS,
             "%s raise(s) ParserErrorKind::%s inside the lexer: the error aborts tokenisation in the middle of the clause, and (recorded finding) the rest of the clause is "
             "then read as the next clause. Errors that can be detected on the complete token (%s is not on the lexer's table) must be raised by the parser, after the clause "
             "has been consumed up to its end token" % (sorted(kinds[k]), k, k), F.where(lex["next_token"]))
    R.ob(RESYNC_FINDING_KEY, resync,
         "read_tokens returns a lexical error at once: the rest of the offending clause stays in the input and is read as the next clause(s). "
         "`a. 'x\\qy'. c. d.` read term by term gives a, two syntax errors, a third error that swallows `c. d.`, end_of_file — c and d are lost; "
         "the property asks for the next read to continue after the offending clause's end token", F.where(rt[0]))


def walk_no_closures(n):
    if isinstance(n, dict):
        if n.get("k") == "Closure":
            return
        if "k" in n:
            yield n
        for k, v in n.items():
            if k != "mac" and isinstance(v, (dict, list)):
                yield from walk_no_closures(v)
    elif isinstance(n, list):
        for x in n:
            yield from walk_no_closures(x)


def _loops_and_consumes(F, fn):
    """A resynchronising helper: loops, and consumes input inside the loop."""
    try:
        h = F.hir(fn)
    except AnchorLost:
        return False
    for n in walk(h["body"]):
        if n["k"] == "Loop":
            for _, r, _ in hir_calls(n):
                if re.search(r"::(skip_char|read_char|consume|next_token)$", r or ""):
                    return True
    return False


def consuming_reads(F, R, pid):
    """The decoder (peek_char / read_char) reports invalid bytes without consuming them and leaves the skipping to its
    caller (the reader's own unit test documents that contract): the consuming stream reads and the lexer must do it."""
    rc = [p for p, it in F.items.items() if p.endswith("char_reader::CharRead::read_char")]
    if len(rc) != 1:
        raise AnchorLost("CharRead::read_char default method: %s" % rc)
    h = F.hir(rc[0])
    arms = _arms_on(h, ("peek_char",))
    if arms is None:
        raise AnchorLost("CharRead::read_char no longer matches on peek_char()")
    # a skipping helper, if there is one, really consumes what the error names
    sk = [p for p, it in F.items.items() if re.search(r"char_reader::CharRead::skip_bad_bytes$", p)]
    for s in sk:
        sh_ = F.hir(s)
        names = [r or "" for _, r, _ in hir_calls(sh_["body"])]
        R.ob("%s:skip_bad_bytes:consumes-reported-bytes" % pid,
             any(re.search(r"CharRead::consume$", c) for c in names) and any(x["k"] == "Field" and x["name"] == "bytes" for x in walk(sh_["body"])),
             "CharRead::skip_bad_bytes must consume exactly the bytes the BadUtf8Error names (consume(bad.bytes.len()))", F.where(s))
    ok_arm = [a for a in arms if any(_pat_shape(q)[:2] == ("Some", "Ok") for q in pat_leaves(a["pat"]))]
    R.ob("%s:read_char:consumes-decoded-char" % pid, any(any(re.search(r"CharRead::consume$", r or "") for _, r, _ in hir_calls(a["body"])) for a in ok_arm),
         "CharRead::read_char consumes the character it returns", F.where(rc[0]))
    ops = [p for p, it in F.items.items() if p.endswith("::open_parsing_stream") and it["kind"] == "AssocFn"]
    if len(ops) != 1:
        raise AnchorLost("open_parsing_stream: %s" % ops)
    h = F.hir(ops[0])
    arms = _arms_on(h, ("peek_char",))
    if arms is None:
        raise AnchorLost("open_parsing_stream no longer matches on peek_char()")
    some_err = [a for a in arms if any(_pat_shape(q)[:2] == ("Some", "Err") for q in pat_leaves(a["pat"]))]
    R.ob("%s:open_parsing_stream:skips-reported-bytes" % pid,
         any(any(SKIP_RX.search(r or "") for _, r, _ in hir_calls(a["body"])) for a in some_err),
         "open_parsing_stream (the entry of get_char/2, get_code/2, get_n_chars/3) must skip the invalid bytes it reports (skip_bad_bytes/consume): otherwise "
         "the same error is raised for the same bytes on every call and the characters after them are never delivered", F.where(ops[0]))
    if pid == "C18":
        # a byte-order mark is skipped at the start of the stream only: open_parsing_stream runs on EVERY get_char/get_code,
        # so an unconditional skip drops U+FEFF anywhere in the text (and get_char then disagrees with peek_char)
        some_ok = [a for a in arms if any(_pat_shape(q)[:2] == ("Some", "Ok") for q in pat_leaves(a["pat"]))]
        guarded = None
        for a in some_ok:
            for ifn in walk(a["body"]):
                if ifn["k"] == "If" and any(x["k"] == "MethodCall" and x["name"] == "consume" for x in walk(ifn["then"])):
                    mentions_bom = any(x["k"] == "Lit" and "feff" in str(x.get("lit")).lower() or x["k"] == "Lit" and x.get("lit", {}).get("char") == "﻿" for x in walk(ifn["cond"]))
                    if mentions_bom:
                        guarded = any(x["k"] in ("MethodCall", "Call") and re.search(r"position|stream_position|lines_read|bytes_read|is_first|at_start", (x.get("name") or "") + (x.get("resolved") or x.get("callee") or ""))
                                      for x in walk(ifn["cond"])) or any(x["k"] == "Field" and re.search(r"pos|start|first|bom", x["name"]) for x in walk(ifn["cond"]))
        if guarded is not None:
            R.ob(BOM_FINDING_KEY, guarded,
                 "open_parsing_stream skips a leading U+FEFF whenever it is the next character, and it runs on every get_char/get_code/get_n_chars: a U+FEFF in the middle of "
                 "the text is dropped (file `a<U+FEFF>b`: peek_char gives U+FEFF, get_char gives b). The skip must depend on the stream being at its start", F.where(ops[0]))
    # only consuming builtins may call it (a peek must not skip input)
    callers = sorted({short(p) for p, cs in F.calls.items() for c in cs if (c.get("resolved") or c.get("callee")) == ops[0]})
    bad = [c for c in callers if re.search(r"peek", c)]
    R.ob("%s:open_parsing_stream:callers-are-consuming-reads" % pid, not bad and len(callers) >= 3,
         "callers of open_parsing_stream: %s (a peek_* builtin must not go through it: it skips input on error)" % callers, F.where(ops[0]))


def reduce_term_guards(F, R):
    """The panic budget counts the indexing and unsigned subtractions of the parser; it cannot see a guard that was
    weakened. Parser::reduce_term turns `name ( a1, .., an )` on its two stacks into one term: it subtracts the arity
    from the lengths of the stacks and indexes just below the arguments (the functor). Each such access needs
    len >= arity-expression + offset, and the early returns in front of it must establish exactly that (linear forms
    c0 + c1*arity, compared component by component)."""
    fn = [p for p in F.items if p.endswith("Parser::<'a, R>::reduce_term") or p.endswith("::reduce_term")]
    fn = [p for p in fn if F.items[p]["file"] == "src/parser/parser.rs"]
    if len(fn) != 1:
        raise AnchorLost("Parser::reduce_term (%d)" % len(fn))
    body = F.hir(fn[0])["body"]

    def lin(e):
        k = e.get("k")
        if k in ("Paren", "DropTemps", "Cast") and ("e" in e or "a" in e):
            return lin(e.get("e") or e.get("a"))
        if k == "Lit" and "int" in (e.get("lit") or {}):
            return (int(e["lit"]["int"]), 0)
        if k == "Path" and res_name(e) == "arity":
            return (0, 1)
        if k == "Binary" and e.get("op") in ("Add", "Sub", "Mul"):
            a, b = lin(e["a"]), lin(e["b"])
            if a is None or b is None:
                return None
            if e["op"] == "Add":
                return (a[0] + b[0], a[1] + b[1])
            if e["op"] == "Sub":
                return (a[0] - b[0], a[1] - b[1])
            if a[1] == 0:
                return (a[0] * b[0], a[0] * b[1])
            if b[1] == 0:
                return (a[0] * b[0], a[1] * b[0])
        return None

    def len_of(e):
        """name of the field whose len() this is"""
        if e.get("k") == "MethodCall" and e.get("name") == "len" and e["recv"].get("k") == "Field":
            return e["recv"]["name"]
        return None
    guaranteed = {}
    for n in walk(body):
        if n["k"] != "If" or n["cond"].get("k") != "Binary":
            continue
        c = n["cond"]
        fld = len_of(c["a"])
        l = lin(c["b"]) if fld else None
        if not l:
            continue
        returns = lambda br: br is not None and any(x["k"] == "Ret" for x in walk(br)) and len(list(walk(br))) < 12
        if c["op"] == "Lt" and returns(n["then"]):          # if len < L { return }      => len >= L afterwards
            g = l
        elif c["op"] == "Gt" and returns(n.get("else")):    # if len > L {..} else { return } => len >= L + 1 afterwards
            g = (l[0] + 1, l[1])
        else:
            continue
        old = guaranteed.get(fld)
        guaranteed[fld] = g if old is None else (max(old[0], g[0]), max(old[1], g[1]))
    # needs: let v = <fld>.len() - S  => len >= S ; then  <fld>[v - k]  => len >= S + k
    lets = {}
    needs = []
    for n in walk(body):
        if n["k"] == "Let" and n["pat"]["k"] == "PBind" and "init" in n and n["init"].get("k") == "Binary" and n["init"]["op"] == "Sub":
            chain, e = [], n["init"]
            while e.get("k") == "Binary" and e["op"] == "Sub":
                chain.append(e["b"])
                e = e["a"]
            fld = len_of(e)
            parts = [lin(x) for x in chain]
            if fld and all(parts):
                sub = (sum(q[0] for q in parts), sum(q[1] for q in parts))
                lets[n["pat"]["name"]] = (fld, sub)
                needs.append((fld, sub, "%s.len() - .. at line %s" % (fld, n["ln"])))
    for n in walk(body):
        if n["k"] == "Index" and n["base"].get("k") == "Field":
            idx = n.get("idx") or n.get("index")
            if idx and idx.get("k") == "Binary" and idx["op"] == "Sub" and idx["a"].get("k") == "Path" and res_name(idx["a"]) in lets and lin(idx["b"]):
                fld, sub = lets[res_name(idx["a"])]
                if fld == n["base"]["name"]:
                    k = lin(idx["b"])
                    needs.append((fld, (sub[0] + k[0], sub[1] + k[1]), "%s[%s - %d] at line %s" % (fld, res_name(idx["a"]), k[0], n["ln"])))
    if len(needs) < 4 or set(guaranteed) != {"stack", "terms"}:
        raise AnchorLost("reduce_term: guards %s, needs %d" % (guaranteed, len(needs)))
    for i, (fld, need, what) in enumerate(sorted(set(needs))):
        g = guaranteed[fld]
        R.ob("C17:reduce_term:guard-covers:%s>=%d+%d*arity" % (fld, need[0], need[1]), g[0] >= need[0] and g[1] >= need[1],
             "reduce_term uses %s, which needs self.%s.len() >= %d + %d*arity, but the early returns in front of it only establish >= %d + %d*arity: "
             "with `|` declared as an operator, the clause `foo(|).` makes the parser index below the start of its term stack and the process panics"
             % (what, fld, need[0], need[1], g[0], g[1]), F.where(fn[0]))


def functor_arity_checked(F, R):
    """A functor cell holds its arity in 8 bits. The reader's term writer (read.rs, TermWriter::write_term_to_heap) builds
    a functor cell for every compound of the term read, at the root and below it; each arm that does so must refuse an
    arity above MAX_ARITY first — otherwise the arity wraps and read_term silently returns another term
    (x(f(0,..,299)) read as x(f(0,..,43)))."""
    from .core import matches_in
    fn = [p for p, it in F.items.items() if p.endswith("::write_term_to_heap") and it["file"] == "src/read.rs" and it["kind"] == "AssocFn"]
    if len(fn) != 1:
        raise AnchorLost("TermWriter::write_term_to_heap (%d)" % len(fn))
    body = F.hir(fn[0])["body"]
    n = 0
    for m in matches_in(body, src=None):
        for arm in m["arms"]:
            if not any((res_name(l) or "").endswith("TermRef::Clause") for l in walk(arm["pat"]) if isinstance(l, dict)):
                continue
            n += 1
            root = any((res_name(l) or "").endswith("Level::Root") for l in walk(arm["pat"]) if isinstance(l, dict))
            checked = any(x["k"] == "If" and any((res_name(y) or "").endswith("MAX_ARITY") for y in walk(x["cond"]))
                          and any((res_name(y) or "").endswith("ExceededMaxArity") for y in walk(x["then"])) for x in walk(arm["body"]))
            R.ob("C17:term-writer:%s-compound:arity-checked-before-functor-cell" % ("root" if root else "nested"), checked,
                 "the arm of write_term_to_heap for a %s compound (line %s) writes atom_as_cell!(name, arity) without comparing the arity with MAX_ARITY" % ("root" if root else "nested", arm["ln"]),
                 F.where(fn[0]))
    R.floor("term-writer arms that build a functor cell", n, 2)


def end_of_input_and_bad_bytes_in_the_lexer(F, R):
    """Four places where the lexer's look-ahead can fail and what must happen there (typed HIR of lexer.rs):
    * a variable token cut short by the end of the input is still a token (the loop breaks, the error is not propagated);
    * a '/' followed by the end of the input is returned to be read as a name token;
    * inside a comment a decoding error does not end the scan: the two comment scanners read through comment_char, which
      remembers the error and goes on, so that reading resumes behind the comment;
    * scan_for_layout does not turn a decoding error into "no more layout" (.ok())."""
    from .core import matches_in
    L = {}
    for name in ("variable_token", "bracketed_comment", "single_line_comment", "scan_for_layout", "comment_char"):
        c = [p for p, it in F.items.items() if it["file"] == "src/parser/lexer.rs" and p.endswith("::" + name)]
        if len(c) != 1 and name != "comment_char":
            raise AnchorLost("Lexer::%s (%d)" % (name, len(c)))
        L[name] = c[0] if c else None

    def is_la(x):
        return x["k"] == "MethodCall" and x["name"] == "lookahead_char"

    def propagated_in_loop(body):
        """lookahead_char()? inside a loop (or a closure called in one)"""
        out = []
        for lp in walk(body):
            if lp["k"] not in ("Loop", "Closure"):
                continue
            for m in walk(lp):
                if m["k"] == "Match" and str(m.get("src", "")).startswith("TryDesugar") and any(is_la(x) for x in walk(m["scrut"])):
                    out.append(m["ln"])
        return sorted(set(out))
    vt = F.hir(L["variable_token"])["body"]
    bad = propagated_in_loop(vt)
    R.ob("C17:variable_token:end-of-input-ends-the-token", not bad and any(is_la(x) for x in walk(vt)),
         "variable_token propagates the error of its look-ahead from inside the token loop (lines %s): a variable in front of the end of the input is dropped and the "
         "partial clause reads as end_of_file" % bad, F.where(L["variable_token"]))
    bc = F.hir(L["bracketed_comment"])["body"]
    first = None
    for m in matches_in(bc, src=None):
        if any(is_la(x) for x in walk(m["scrut"])) and not str(m.get("src", "")).startswith("TryDesugar"):
            first = m
            break
    returns_slash = first is not None and any(any(x["k"] == "MethodCall" and x["name"] == "return_char" for x in walk(a["body"])) and
                                              any(x["k"] == "MethodCall" and x["name"] == "is_unexpected_eof" for x in walk(a)) for a in first["arms"])
    R.ob("C17:bracketed_comment:slash-before-end-of-input-is-returned", returns_slash,
         "bracketed_comment consumes '/' and then propagates the end of the input: a lone '/' at the end of the text disappears and the read answers end_of_file", F.where(L["bracketed_comment"]))
    for name in ("single_line_comment", "bracketed_comment"):
        b = F.hir(L[name])["body"]
        bad = propagated_in_loop(b)
        via = [x for x in walk(b) if x["k"] == "MethodCall" and x["name"] == "comment_char"]
        R.ob("C17:comment:decoder-error-does-not-leave-the-comment:%s" % name, not bad and len(via) >= 1,
             "%s reads the comment's characters with lookahead_char()? (lines %s): bytes that are not UTF-8 end the scan inside the comment and the rest of the comment is "
             "read as program text by the next read" % (name, bad), F.where(L[name]))
    if L["comment_char"]:
        cc = F.hir(L["comment_char"])["body"]
        loops_on = any(lp["k"] == "Loop" and any(is_la(x) for x in walk(lp)) for lp in walk(cc))
        keeps = any(x["k"] == "MethodCall" and x["name"] in ("get_or_insert", "get_or_insert_with", "replace", "insert") for x in walk(cc))
        R.ob("C17:comment_char:keeps-the-error-and-goes-on", loops_on and keeps and any(x["k"] == "MethodCall" and x["name"] == "is_unexpected_eof" for x in walk(cc)),
             "comment_char must loop past decoding errors, remembering the first, and stop only at a character or the end of the input", F.where(L["comment_char"]))
    # the same discipline everywhere in the lexer and the parser: the result of a look-ahead / read is matched or
    # propagated, never thrown away
    dropped = []
    n_fns = 0
    for p, it in sorted(F.items.items()):
        if it["file"] not in ("src/parser/lexer.rs", "src/parser/parser.rs") or it["kind"] not in ("Fn", "AssocFn") or "::tests::" in p:
            continue
        n_fns += 1
        for x in walk(F.hir(p)["body"]):
            if x["k"] == "MethodCall" and x["name"] in ("ok", "unwrap_or", "unwrap_or_default", "unwrap_or_else", "is_ok", "is_err") and \
                    any(y["k"] == "MethodCall" and y["name"] in ("lookahead_char", "read_char", "next_token", "scan_for_layout") for y in walk(x["recv"])):
                dropped.append("%s:%s .%s()" % (short(p), x["ln"], x["name"]))
    R.floor("lexer and parser functions scanned for discarded read results", n_fns, 60)
    R.ob("C17:reader:no-read-result-discarded", not dropped,
         "the error of a look-ahead or read is discarded at %s: invalid bytes consumed by that call are never reported and the text after them is read as if they were not there" % dropped,
         "src/parser/lexer.rs")
    sl = F.hir(L["scan_for_layout"])["body"]
    okd = [x["ln"] for x in walk(sl) if x["k"] == "MethodCall" and x["name"] in ("ok", "unwrap_or", "unwrap_or_default") and any(is_la(y) for y in walk(x["recv"]))]
    R.ob("C17:scan_for_layout:decoder-error-is-reported", not okd,
         "scan_for_layout discards the error of its look-ahead (lines %s): the bytes of an invalid sequence after a blank are consumed and never reported" % okd, F.where(L["scan_for_layout"]))


def separators_are_not_elements(F, R):
    """The parser keeps two stacks: descriptors and terms. When it closes `name(..)` or `[..]` it counts the elements from
    the descriptors and then takes that many terms. A descriptor counted as an element must own a term. '|' declared as an
    infix operator (library(dcgs)) has an operator's specifier and no term: counted as an element it makes the parser take a
    term that belongs to the enclosing expression (`X = [|].` read as a bare variable)."""
    n = 0
    for name in ("compute_arity_in_brackets", "compute_arity_in_list"):
        fn = [p for p, it in F.items.items() if it["file"] == "src/parser/parser.rs" and p.endswith("::" + name)]
        if len(fn) != 1:
            raise AnchorLost("Parser::%s (%d)" % (name, len(fn)))
        body = F.hir(fn[0])["body"]
        # the branch for the positions where an element is expected: `if i % 2 == 0 { .. }`
        even = [x for x in walk(body) if x["k"] == "If" and any(y["k"] == "Binary" and y.get("op") == "Rem" for y in walk(x["cond"]))]
        if len(even) != 1:
            raise AnchorLost("%s: the `i %% 2 == 0` branch (%d)" % (name, len(even)))
        rejected = set()
        for x in walk(even[0]["then"]):
            if x["k"] == "If" and any(y.get("k") == "Ret" for y in walk(x["then"])):
                for lc in walk(x["cond"]):
                    if lc.get("k") == "LetCond":
                        for l in walk(lc["pat"]):
                            rn = res_name(l) if isinstance(l, dict) else None
                            if rn and "TokenType::" in rn:
                                rejected.add(rn.rsplit("::", 1)[-1])
        # descriptors that end the count with None: collect TokenType variants in patterns whose arm/then returns None
        from .core import matches_in
        for m in matches_in(even[0]["then"], src=None):
            for arm in m["arms"]:
                if any((res_name(y) or "").endswith("Option::None") or (res_name(y) or "").endswith("::None") for y in walk(arm["body"]) if isinstance(y, dict) and y.get("k") in ("Path", "Ret")) or \
                        any(y.get("k") == "Ret" for y in walk(arm["body"])):
                    for l in walk(arm["pat"]):
                        rn = res_name(l) if isinstance(l, dict) else None
                        if rn and "TokenType::" in rn:
                            rejected.add(rn.rsplit("::", 1)[-1])
        n += 1
        R.ob("C17:arity-count:%s:separators-are-not-elements" % name, {"Comma", "HeadTailSeparator"} <= rejected,
             "%s counts the elements of a bracketed sequence and, where an element is expected, refuses only %s: a '|' declared as an operator is counted as an "
             "element although it owns no term, and the parser then consumes a term of the enclosing expression (X = [|]. and X = foo(|). read as a bare variable)"
             % (name, sorted(rejected)), F.where(fn[0]))
    R.floor("element counters of the parser", n, 2)


def comment_scanners_defer_every_decoding_error(F, R):
    """Inside a comment a byte sequence that does not decode is not an error of the clause: the scanners keep the first such
    error in a local slot and report it after the comment has been skipped, so the next read starts behind the comment.
    Every character they read after that slot exists comes through `comment_char` (which fills it); a direct
    `lookahead_char()?` returns from the middle of the comment, and the rest of the comment is then read as clause text."""
    n = 0
    for nm in ("bracketed_comment", "single_line_comment"):
        c = [p for p in F.items if re.search(r"lexer::Lexer<.*>::%s$|lexer::<impl .*Lexer.*>::%s$|Lexer::<.*>::%s$" % (nm, nm, nm), p)]
        if len(c) != 1:
            c = [p for p in F.items if p.endswith("::" + nm) and "lexer" in p]
        if len(c) != 1:
            raise AnchorLost("Lexer::%s (%d)" % (nm, len(c)))
        body = F.hir(c[0])["body"]
        slots = [x for x in walk(body) if x["k"] == "Let" and x["pat"].get("k") == "PBind" and "Option<" in (x["pat"].get("ty") or "") and "ParserError" in (x["pat"].get("ty") or "")]
        if not slots:
            raise AnchorLost("Lexer::%s: the slot for a deferred decoding error" % nm)
        first = min(x["ln"] for x in slots)
        direct = [x["ln"] for x in walk(body) if x["k"] == "MethodCall" and x["name"] == "lookahead_char" and x["ln"] > first]
        through = [x for x in walk(body) if x["k"] == "MethodCall" and x["name"] == "comment_char"]
        n += len(through)
        R.ob("C17:comment:%s:every-read-inside-the-comment-defers-its-decoding-error" % nm, not direct and len(through) >= 1,
             "Lexer::%s reads a character with lookahead_char() (line %s) after the deferred-error slot exists: a byte sequence that does not decode at that place ends the read in "
             "the middle of the comment, and the rest of the comment is taken for clause text" % (nm, direct), F.where(c[0]))
    R.floor("reads through comment_char in the comment scanners", n, 3)

