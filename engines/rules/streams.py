"""RF1 enum-dispatch siblings over `enum Stream`: the methods that make up one interface must
partition the stream kinds the same way into "forwarded to the kind's own reader/writer" and
"refused / no-op"."""
import re

from .core import AnchorLost, matches_in, pat_leaves, res_name, walk
from . import repo

STREAM = "machine::streams::Stream::"


def variant_table(F, fn):
    """{variant: 'forward' | 'other'} for the `match self` of a Stream method."""
    h = F.hir(fn)
    best = None
    for m in matches_in(h["body"], src=None):
        tbl = {}
        wild = False
        for arm in m["arms"]:
            for leaf in pat_leaves(arm["pat"]):
                lf = repo.strip_ref(leaf)
                rn = res_name(lf) or ""
                if rn.startswith(STREAM):
                    binds = {n["name"] for n in walk(lf) if n["k"] == "PBind"}
                    fwd = False
                    for n in walk(arm["body"]):
                        if n["k"] in ("MethodCall", "Field", "Assign", "AssignOp"):
                            root = n.get("recv") or n.get("base") or n.get("lhs")
                            while root is not None and root["k"] in ("MethodCall", "Field", "Unary", "AddrOf", "Index"):
                                root = root.get("recv") or root.get("base") or root.get("a")
                            if root is not None and root["k"] == "Path" and res_name(root) in binds:
                                fwd = True
                    tbl[rn[len(STREAM):]] = "forward" if fwd else "other"
                elif lf["k"] in ("PWild", "PBind"):
                    wild = True
        if tbl and (best is None or len(tbl) > len(best[0])):
            best = (tbl, wild)
    if best is None:
        raise AnchorLost("%s: no match over Stream variants" % fn)
    return best


def sibling_group(F, R, prefix, group_name, fns, variants):
    """All functions of the group must forward exactly the same set of stream kinds."""
    tabs = {}
    for label, fn in fns.items():
        tbl, wild = variant_table(F, fn)
        tabs[label] = tbl
        R.ob("%s:%s:%s:no-wildcard" % (prefix, group_name, label), not wild,
             "%s has a catch-all arm: a new stream kind would silently get the default behaviour" % label, F.where(fn))
        missing = [v for v in variants if v not in tbl]
        if wild:
            continue
        R.ob("%s:%s:%s:every-kind-has-an-arm" % (prefix, group_name, label), not missing, "stream kinds without an arm: %s" % missing, F.where(fn))
    ref_label = sorted(tabs)[0]
    fwd_sets = {l: {v for v, k in t.items() if k == "forward"} for l, t in tabs.items()}
    # majority set as the reference (exact rule: every member must equal it)
    from collections import Counter
    cnt = Counter(frozenset(s) for s in fwd_sets.values())
    ref = set(cnt.most_common(1)[0][0])
    for l, s in sorted(fwd_sets.items()):
        extra, lack = sorted(s - ref), sorted(ref - s)
        R.ob("%s:%s:%s:same-kinds-forwarded" % (prefix, group_name, l), s == ref,
             "%s forwards %s%s; its siblings %s forward %s" % (l, sorted(s), (" (missing %s, extra %s)" % (lack, extra)) if s != ref else "", sorted(x for x in fwd_sets if x != l), sorted(ref)),
             F.where(fns[l]))
    return ref


def stream_variants(F):
    return [v["name"] for v in F.enum("machine::streams::Stream")["variants"]]
