"""Core of the rule engine: fact extraction (through the sfacts rustc driver), lazy fact
loading, CFG / dominator / call-graph utilities, HIR walkers, result + evidence writing.

Nothing here executes scryer-prolog: `cargo +nightly check` only type-checks /repo's current
working tree through the driver, which dumps the resolved program as JSON facts.
"""
import fcntl
import hashlib
import json
import os
import re
import shutil
import subprocess
import sys
import time

VERIF = os.path.dirname(os.path.dirname(os.path.dirname(os.path.abspath(__file__))))
REPO = os.environ.get("VERIF_REPO", "/repo")
CACHE = os.path.join(VERIF, ".cache")
DRIVER_DIR = os.path.join(VERIF, "engines", "sfacts")
DRIVER = os.path.join(DRIVER_DIR, "target", "release", "sfacts")
RUSTFLAGS = "-Zmir-opt-level=0 -Awarnings -Coverflow-checks=off -Cdebug-assertions=off"

FEATURE_SETS = {
    "default": [],
    "nodefault": ["--no-default-features"],
    "allpure": ["--no-default-features", "--features", "all-pure"],
}


class AnchorLost(Exception):
    """A rule could not locate the code it is anchored in: the check is broken, not the repo."""


class BuildFailed(Exception):
    pass


# ------------------------------------------------------------------------------------------
# extraction


def _hash_tree(paths, extra=b""):
    h = hashlib.sha256()
    h.update(extra)
    for root in paths:
        if os.path.isfile(root):
            files = [root]
        else:
            files = []
            for d, dn, fn in os.walk(root):
                dn.sort()
                for f in sorted(fn):
                    files.append(os.path.join(d, f))
        for f in files:
            h.update(f.encode())
            try:
                with open(f, "rb") as fh:
                    h.update(hashlib.sha256(fh.read()).digest())
            except OSError:
                h.update(b"?")
    return h.hexdigest()[:24]


def driver_hash():
    return _hash_tree(
        [os.path.join(DRIVER_DIR, "src"), os.path.join(DRIVER_DIR, "Cargo.toml")]
    )


def repo_hash(repo=None):
    repo = repo or REPO
    return _hash_tree(
        [
            os.path.join(repo, "src"),
            os.path.join(repo, "build"),
            os.path.join(repo, "Cargo.toml"),
            os.path.join(repo, "Cargo.lock"),
        ],
        extra=(driver_hash() + RUSTFLAGS).encode(),
    )


def _sysroot():
    return subprocess.check_output(
        ["rustc", "+nightly", "--print", "sysroot"], text=True
    ).strip()


def build_driver():
    """Build the sfacts driver if its binary is missing or older than its sources."""
    stamp = os.path.join(DRIVER_DIR, "target", "release", ".srchash")
    want = driver_hash()
    if os.path.exists(DRIVER) and os.path.exists(stamp) and open(stamp).read() == want:
        return
    env = dict(os.environ, CARGO_NET_OFFLINE="true")
    env.pop("RUSTFLAGS", None)
    env.pop("RUSTC_WORKSPACE_WRAPPER", None)
    r = subprocess.run(
        ["cargo", "+nightly", "build", "--release", "--offline"],
        cwd=DRIVER_DIR,
        env=env,
        stdout=subprocess.PIPE,
        stderr=subprocess.STDOUT,
        text=True,
    )
    if r.returncode != 0:
        sys.stderr.write(r.stdout[-4000:])
        raise BuildFailed("sfacts driver does not build")
    with open(stamp, "w") as f:
        f.write(want)


def ensure_facts(config="default", repo=None, quiet=False):
    """Return the directory holding the facts of /repo's current tree for a feature config,
    extracting them if the tree hash is new. Fails closed: BuildFailed if /repo does not
    type-check or the driver produced no complete fact set."""
    repo = repo or REPO
    os.makedirs(os.path.join(CACHE, "facts"), exist_ok=True)
    lock = open(os.path.join(CACHE, "lock"), "w")
    fcntl.flock(lock, fcntl.LOCK_EX)
    try:
        build_driver()
        key = repo_hash(repo) + "-" + config
        out = os.path.join(CACHE, "facts", key)
        if os.path.exists(os.path.join(out, "scryer_prolog", "index.json")):
            os.utime(out, None)
            return out
        tmp = out + ".tmp"
        shutil.rmtree(tmp, ignore_errors=True)
        os.makedirs(tmp)
        target = os.path.join(CACHE, "target")
        # cargo's freshness cache would skip the wrapper: drop the member's fingerprints
        fp = os.path.join(target, "debug", ".fingerprint")
        if os.path.isdir(fp):
            for d in os.listdir(fp):
                if d.startswith("scryer-prolog-"):
                    shutil.rmtree(os.path.join(fp, d), ignore_errors=True)
        env = dict(os.environ)
        env.update(
            LD_LIBRARY_PATH=_sysroot() + "/lib",
            CARGO_TARGET_DIR=target,
            RUSTFLAGS=RUSTFLAGS,
            RUSTC_WORKSPACE_WRAPPER=DRIVER,
            CARGO_NET_OFFLINE="true",
            SFACTS_OUT=tmp,
        )
        cmd = ["cargo", "+nightly", "check", "--offline", "--lib"] + FEATURE_SETS[config]
        t0 = time.time()
        r = subprocess.run(
            cmd, cwd=repo, env=env, stdout=subprocess.PIPE, stderr=subprocess.STDOUT, text=True
        )
        if r.returncode != 0:
            sys.stderr.write(r.stdout[-6000:])
            raise BuildFailed("cargo check of %s failed (config %s)" % (repo, config))
        if not os.path.exists(os.path.join(tmp, "scryer_prolog", "index.json")):
            sys.stderr.write(r.stdout[-3000:])
            raise BuildFailed("driver produced no facts for scryer_prolog")
        os.rename(tmp, out)
        if not quiet:
            sys.stderr.write("[facts] extracted %s in %.1fs\n" % (key, time.time() - t0))
        # prune old fact sets (keep the 6 most recent)
        fdir = os.path.join(CACHE, "facts")
        ents = sorted(
            (e for e in os.listdir(fdir) if not e.endswith(".tmp")),
            key=lambda e: os.path.getmtime(os.path.join(fdir, e)),
        )
        for e in ents[:-6]:
            shutil.rmtree(os.path.join(fdir, e), ignore_errors=True)
        return out
    finally:
        fcntl.flock(lock, fcntl.LOCK_UN)
        lock.close()


# ------------------------------------------------------------------------------------------
# fact loading


def _sanitize(f):
    return re.sub(r"[^A-Za-z0-9]", "_", f)


class Facts:
    def __init__(self, root, crate="scryer_prolog"):
        self.root = os.path.join(root, crate)
        self.crate = crate
        idx = json.load(open(os.path.join(self.root, "index.json")))
        self.items = {}
        self.item_list = idx["items"]
        for it in idx["items"]:
            self.items[it["path"]] = it
        self._mir = {}
        self._hir = {}
        self._mir_files = set()
        self._hir_files = set()
        self._calls = None
        self._types = None
        self.nbodies = idx["nbodies"]

    # -- lookup ------------------------------------------------------------------------
    def find(self, suffix, kind=None, required=True):
        """Unique item whose def-path ends with `suffix`."""
        c = [
            p
            for p, it in self.items.items()
            if p.endswith(suffix)
            and (len(p) == len(suffix) or p[-len(suffix) - 1] in ":> ")
            and (kind is None or it["kind"] == kind)
        ]
        if len(c) == 1:
            return c[0]
        if not c and not required:
            return None
        raise AnchorLost("anchor %r matches %d items %s" % (suffix, len(c), c[:5]))

    def find_impl(self, self_ty, trait, method, required=True, trait_args=None):
        """Method `method` of `impl trait for self_ty` (trait None = inherent impl); self_ty is
        matched as a suffix of the impl's self type (lifetimes ignored)."""
        c = []
        for p, it in self.items.items():
            if it["kind"] != "AssocFn" or not p.endswith("::" + method):
                continue
            st = re.sub(r"<'[a-z_]+>", "", it.get("self_ty", ""))
            if not (st == self_ty or st.endswith("::" + self_ty)):
                continue
            if (it.get("trait") or None) != trait:
                continue
            if trait_args is not None:
                # trait_ref looks like `<Self as Trait<Args>>`; '' means no generic arguments
                m = re.search(r" as [A-Za-z0-9_:]+(<.*>)?>$", it.get("trait_ref", ""))
                got = (m.group(1) or "") if m else ""
                if got != trait_args:
                    continue
            c.append(p)
        if len(c) == 1:
            return c[0]
        if not c and not required:
            return None
        raise AnchorLost("impl anchor %s for %s :: %s matches %d items" % (trait, self_ty, method, len(c)))

    def find_all(self, regex, kinds=("Fn", "AssocFn")):
        rx = re.compile(regex)
        return sorted(
            p for p, it in self.items.items() if it["kind"] in kinds and rx.search(p)
        )

    def _load(self, kind, file):
        name = "%s__%s.json" % (kind, _sanitize(file))
        fp = os.path.join(self.root, name)
        if not os.path.exists(fp):
            return
        data = json.load(open(fp))
        store = self._mir if kind == "mir" else self._hir
        for b in data:
            store[b["path"]] = b[kind]

    def mir(self, path):
        it = self.items.get(path)
        if it is None:
            raise AnchorLost("no item " + path)
        if it["file"] not in self._mir_files:
            self._mir_files.add(it["file"])
            self._load("mir", it["file"])
        if path not in self._mir:
            raise AnchorLost("no MIR for " + path)
        return self._mir[path]

    def hir(self, path):
        it = self.items.get(path)
        if it is None:
            raise AnchorLost("no item " + path)
        if it["file"] not in self._hir_files:
            self._hir_files.add(it["file"])
            self._load("hir", it["file"])
        if path not in self._hir:
            raise AnchorLost("no HIR for " + path)
        return self._hir[path]

    @property
    def calls(self):
        if self._calls is None:
            data = json.load(open(os.path.join(self.root, "calls.json")))
            self._calls = {b["path"]: b["calls"] for b in data}
        return self._calls

    @property
    def types(self):
        if self._types is None:
            self._types = json.load(open(os.path.join(self.root, "types.json")))
        return self._types

    def enum(self, suffix):
        c = [e for e in self.types["enums"] if e["path"].endswith(suffix)]
        if len(c) != 1:
            raise AnchorLost("enum %r matches %d" % (suffix, len(c)))
        return c[0]

    def const(self, suffix):
        c = [
            e
            for e in self.types["consts"]
            if e["path"].endswith(suffix) and e.get("val") is not None
        ]
        if len(c) != 1:
            raise AnchorLost("const %r matches %d" % (suffix, len(c)))
        return int(c[0]["val"]["int"])

    def where(self, path):
        it = self.items.get(path)
        if not it:
            return path
        return "%s:%s %s" % (it["file"], it["line"], short(path))

    # -- closures -----------------------------------------------------------------------
    def closures_of(self, path):
        return sorted(
            p for p, it in self.items.items() if it["kind"] == "Closure" and it["parent"] == path
        )

    def body_and_closures(self, path):
        """The item plus, transitively, every closure defined inside it."""
        out = [path]
        i = 0
        while i < len(out):
            out.extend(self.closures_of(out[i]))
            i += 1
        return out


def short(path):
    """Human-size name of a def path (last impl segment + name)."""
    m = re.findall(r"<impl ([^<>]*(?:<[^<>]*>)?[^<>]*)>::(.*)$", path)
    if m:
        ty, rest = m[-1]
        ty = ty.split(" for ")[-1].split("::")[-1]
        return ty + "::" + rest
    return "::".join(path.split("::")[-2:])


# ------------------------------------------------------------------------------------------
# HIR helpers


def walk(node):
    """Yield every HIR node (dict with 'k') below node, pre-order."""
    stack = [node]
    while stack:
        n = stack.pop()
        if isinstance(n, dict):
            if "k" in n:
                yield n
            for v in reversed(list(n.values())):
                if isinstance(v, (dict, list)):
                    stack.append(v)
        elif isinstance(n, list):
            for v in reversed(n):
                if isinstance(v, (dict, list)):
                    stack.append(v)


def hir_calls(node):
    """All resolved callee paths below node: list of (callee, resolved_or_callee, node)."""
    out = []
    for n in walk(node):
        if n["k"] in ("Call", "MethodCall", "Binary", "Unary", "AssignOp", "Index") and "callee" in n:
            out.append((n["callee"], n.get("resolved") or n["callee"], n))
    return out


def callee_names(node):
    return set(r for _, r, _ in hir_calls(node))


def mac_names(n):
    return [m[0] for m in n.get("mac", [])]


def mac_snippet(n, name):
    """Call-site snippet of the expansion of macro `name` at node n (if n roots it)."""
    for m in n.get("mac", []):
        if m[0] == name:
            return m[1]
    return None


_ATOM_RX = re.compile(r'atom!\s*\(\s*"((?:[^"\\]|\\.)*)"\s*\)')


def atom_of(n):
    """If node n is the expansion root of atom!("x") return 'x'."""
    s = mac_snippet(n, "atom")
    if s is None:
        return None
    m = _ATOM_RX.match(s)
    if not m:
        return None
    return bytes(m.group(1), "utf-8").decode("unicode_escape") if "\\" in m.group(1) else m.group(1)


def pat_leaves(p):
    """Flatten or-patterns: list of alternative patterns."""
    if p["k"] == "POr":
        out = []
        for q in p["pats"]:
            out.extend(pat_leaves(q))
        return out
    return [p]


def res_name(n):
    r = n.get("res") or {}
    return r.get("def") or r.get("local") or r.get("selfctor") or r.get("selfty")


def pat_variant(p):
    """Resolved variant/ctor path of a pattern leaf (PStruct/PTupleStruct/PPath), else None."""
    if p["k"] in ("PStruct", "PTupleStruct", "PPath"):
        return res_name(p)
    if p["k"] == "PRef":
        return pat_variant(p["sub"])
    if p["k"] == "PBind" and "sub" in p:
        return pat_variant(p["sub"])
    return None


def field_path(e):
    """`self.machine_st.heap` -> ['self','machine_st','heap'] for Path/Field chains, else None."""
    out = []
    while True:
        if e["k"] == "Field":
            out.append(e["name"])
            e = e["base"]
        elif e["k"] == "Path":
            out.append(res_name(e) or "?")
            break
        elif e["k"] in ("AddrOf", "Unary") and "a" in e and (e["k"] == "AddrOf" or e.get("op") == "Deref"):
            e = e["a"]
        elif e["k"] == "MethodCall" and e["name"] in ("deref", "deref_mut", "borrow", "borrow_mut", "as_mut", "as_ref"):
            e = e["recv"]
        elif e["k"] == "Index":
            out.append("[]")
            e = e["base"]
        else:
            return None
    return list(reversed(out))


def matches_in(node, src="Normal"):
    for n in walk(node):
        if n["k"] == "Match" and (src is None or n.get("src") == src):
            yield n


# ------------------------------------------------------------------------------------------
# CFG helpers over MIR facts


class CFG:
    def __init__(self, mir):
        self.mir = mir
        self.blocks = mir["blocks"]
        n = len(self.blocks)
        self.succ = [[] for _ in range(n)]
        self.usucc = [[] for _ in range(n)]  # including unwind edges
        for i, b in enumerate(self.blocks):
            t = b["t"]
            s = list(t.get("succ", []))
            self.succ[i] = s
            u = list(s)
            if t.get("unwind") is not None:
                u.append(t["unwind"])
            self.usucc[i] = u
        self.pred = [[] for _ in range(n)]
        for i, ss in enumerate(self.succ):
            for s in ss:
                self.pred[s].append(i)
        self.returns = [i for i, b in enumerate(self.blocks) if b["t"]["k"] == "Return"]

    def reachable(self, start=0, avoid=frozenset(), succ=None):
        succ = succ or self.succ
        seen = set()
        st = [start]
        while st:
            x = st.pop()
            if x in seen or x in avoid:
                continue
            seen.add(x)
            st.extend(succ[x])
        return seen

    def dominators(self):
        """idom-free dominator sets via iterative dataflow (bodies are small enough)."""
        n = len(self.blocks)
        reach = self.reachable(0)
        order = self._rpo()
        dom = {0: {0}}
        allb = set(reach)
        for b in reach:
            if b != 0:
                dom[b] = set(allb)
        changed = True
        while changed:
            changed = False
            for b in order:
                if b == 0:
                    continue
                ps = [p for p in self.pred[b] if p in reach]
                if not ps:
                    continue
                new = set.intersection(*(dom[p] for p in ps)) | {b}
                if new != dom[b]:
                    dom[b] = new
                    changed = True
        return dom

    def _rpo(self):
        seen = set()
        out = []
        st = [(0, iter(self.succ[0]))]
        seen.add(0)
        while st:
            b, it = st[-1]
            for s in it:
                if s not in seen:
                    seen.add(s)
                    st.append((s, iter(self.succ[s])))
                    break
            else:
                out.append(b)
                st.pop()
        out.reverse()
        return out

    def call_blocks(self, pred):
        """Blocks whose terminator is a Call satisfying pred(term)."""
        return [
            i
            for i, b in enumerate(self.blocks)
            if b["t"]["k"] == "Call" and pred(b["t"])
        ]

    def must_pass(self, start, through, targets=None):
        """True iff every path from block `start` (exclusive of its own terminator effects)
        to any block in `targets` (default: Return blocks) passes through a block in
        `through`. Returns (ok, witness_target)."""
        targets = set(self.returns if targets is None else targets)
        seen = set()
        st = list(self.succ[start])
        while st:
            x = st.pop()
            if x in seen:
                continue
            seen.add(x)
            if x in through:
                continue
            if x in targets:
                return False, x
            st.extend(self.succ[x])
        return True, None


def callee_of(term):
    return term.get("resolved") or term.get("callee") or ""


def mir_calls(mir):
    for i, b in enumerate(mir["blocks"]):
        t = b["t"]
        if t["k"] == "Call":
            yield i, t


# ------------------------------------------------------------------------------------------
# call graph


class CallGraph:
    """Whole-crate call graph over the `calls` facts. Edges: direct calls (resolved callee when
    the driver could resolve it, else the declared callee; a call through a trait method that
    stays unresolved fans out to every local impl method of the same name), closures to their
    creating body, function items whose address is taken (`ref`)."""

    def __init__(self, F):
        self.F = F
        self.edges = {}
        self.ext = {}  # path -> list of call facts to non-local functions
        local = F.items
        by_trait_method = {}
        for p, it in local.items():
            if it.get("trait"):
                by_trait_method.setdefault((it["trait"], p.rsplit("::", 1)[-1]), []).append(p)
        self.by_trait_method = by_trait_method
        for p, cs in F.calls.items():
            es = set()
            ex = []
            for c in cs:
                if "closure" in c:
                    es.add(c["closure"])
                    continue
                if "ref" in c:
                    t = c.get("resolved") or c["ref"]
                    if t in local:
                        es.add(t)
                    continue
                if "assert" in c:
                    ex.append(c)
                    continue
                tgt = c.get("resolved") or c.get("callee")
                if tgt is None:
                    ex.append(c)
                    continue
                if tgt in local:
                    it = local[tgt]
                    # unresolved call to a trait's own (default/required) method: fan out
                    if "resolved" not in c and it.get("in_trait"):
                        name = tgt.rsplit("::", 1)[-1]
                        for q in by_trait_method.get((it["in_trait"], name), []):
                            es.add(q)
                    es.add(tgt)
                else:
                    ex.append(c)
            self.edges[p] = es
            self.ext[p] = ex

    def reach(self, roots):
        seen = {}
        st = [(r, None) for r in roots]
        while st:
            x, par = st.pop()
            if x in seen:
                continue
            seen[x] = par
            for y in self.edges.get(x, ()):
                if y not in seen:
                    st.append((y, x))
        return seen

    def path_to(self, seen, x):
        out = [x]
        while seen.get(x) is not None:
            x = seen[x]
            out.append(x)
        return list(reversed(out))

    def sccs(self, nodes=None):
        """Tarjan SCCs (iterative) restricted to `nodes`."""
        nodes = set(self.edges if nodes is None else nodes)
        index = {}
        low = {}
        onst = set()
        st = []
        out = []
        counter = [0]
        for root in sorted(nodes):
            if root in index:
                continue
            work = [(root, iter(sorted(self.edges.get(root, ()))))]
            index[root] = low[root] = counter[0]
            counter[0] += 1
            st.append(root)
            onst.add(root)
            while work:
                v, it = work[-1]
                adv = False
                for w in it:
                    if w not in nodes:
                        continue
                    if w not in index:
                        index[w] = low[w] = counter[0]
                        counter[0] += 1
                        st.append(w)
                        onst.add(w)
                        work.append((w, iter(sorted(self.edges.get(w, ())))))
                        adv = True
                        break
                    elif w in onst:
                        low[v] = min(low[v], index[w])
                if adv:
                    continue
                work.pop()
                if work:
                    u = work[-1][0]
                    low[u] = min(low[u], low[v])
                if low[v] == index[v]:
                    comp = []
                    while True:
                        w = st.pop()
                        onst.discard(w)
                        comp.append(w)
                        if w == v:
                            break
                    if len(comp) > 1 or v in self.edges.get(v, ()):
                        out.append(sorted(comp))
        return out


# ------------------------------------------------------------------------------------------
# results


class Result:
    """Collects obligations of one property check."""

    def __init__(self, pid):
        self.pid = pid
        self.obligations = []  # (key, ok, detail, where)
        self.samples = []
        self.notes = []
        self.rules = []

    def rule(self, text):
        self.rules.append(text)

    def ob(self, key, ok, detail="", where=""):
        self.obligations.append((key, bool(ok), detail, where))
        return ok

    def sample(self, s):
        if len(self.samples) < 12:
            self.samples.append(s)

    def floor(self, name, count, minimum):
        """Instance-count floor: a rule that matches fewer sites than were confirmed by reading
        has lost its anchor (fail closed, not a repo violation)."""
        if count < minimum:
            raise AnchorLost("%s: %d instances, floor %d" % (name, count, minimum))
        self.notes.append("%s: %d instances (floor %d)" % (name, count, minimum))
