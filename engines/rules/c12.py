"""C12 — Exceptions unwind precisely and leave the machine consistent (control skeleton of catch/throw only).

Decides the structure that every throw and every catch goes through:
  * Prolog side (src/lib/builtins.pl, read by plread): throw/1 stores the ball (an
    instantiation error for an unbound ball) and then unwinds; catch/3 captures the current block
    before it installs its own; the recovery clause of catch/4 restores the outer block, *then*
    fetches a copy of the ball, parks it on the ball stack and hands it to handle_ball/3, which
    unifies ball and catcher in its head, commits, drops the parked ball and calls the recovery —
    or, in its second clause, restores the parked ball and unwinds again (re-throw to the next
    outer catch/3);
  * Rust side (typed HIR / MIR): set_ball resets the old ball and stores a *copy* of the thrown
    term; unwind_stack cuts back to the innermost active block and fails; get_ball re-creates the
    copy on the heap and binds it; install/reset/clean_up_block maintain the block register as the
    statement needs; the ball stack push/pop pair is inverse; throw_exception stores the ball
    before it unwinds;
  * every error a builtin raises is built by MachineState::error_form, i.e. is error(Formal,
    Context): each `Err(stub)` of a function returning CallResult takes its stub from error_form,
    from a helper that returns error_form's result, from a caller-supplied generator, from a
    propagated error, or is the empty sentinel that follows throw_resource_error.
setup_call_cleanup/3 ("cleanup exactly once") and the binding-undo clause (C11) are not decided
here.
"""
import os
import re
import sys

from .core import REPO, AnchorLost, CFG, callee_of, hir_calls, mac_names, pat_leaves, pat_variant, res_name, short, walk
from . import orframe

sys.path.insert(0, os.path.join(os.path.dirname(os.path.abspath(__file__)), ".."))
from plread import plread as P  # noqa: E402

EXPLANATION = (
    "RF3 goal-order rules over the clauses of throw/1, catch/3, catch/4, end_block/2 and handle_ball/3 read "
    "from src/lib/builtins.pl by plread (variable identity between head and body positions, order of the "
    "'$'-primitives); RF2 effect summaries of the Rust primitives they call (typed HIR; MIR order in "
    "throw_exception); RF4 who-may-build-a-thrown-error over every Err(..) expression of type "
    "Result<_, MachineStub> in the crate (typed HIR, resolved callees, let-bound locals followed)."
)
ASSUMPTIONS = ["plread parses the five predicates as the system's own reader does",
               "backtracking into catch/4's second clause happens because unwind_stack made the block's choice point current (C07/C11 cover choice-point restoration)"]

STUB_TY = re.compile(r"Result<.*, std::vec::Vec<functor_macro::FunctorElement>>$")
VEC_STUB = "std::vec::Vec<functor_macro::FunctorElement>"


def goals(body):
    """flatten a clause body into its sequence of goals (if-then-else kept as one goal)"""
    return P.conj(body)


def fn(g):
    return P.functor(g)


def index_of(gs, name):
    for i, g in enumerate(gs):
        if g[0] in ("cmp", "atom") and g[1] == name:
            return i
    return None


def run(ctx, R):
    F = ctx.facts()
    R.rule("RF3 goal order in throw/catch clauses; RF2 effect summaries of the exception primitives; RF4 every raised error is built by error_form")
    text = open(os.path.join(REPO, "src/lib/builtins.pl")).read()
    want = {("throw", 1), ("catch", 3), ("catch", 4), ("end_block", 2), ("handle_ball", 3)}
    cl = {}
    for t, line in P.read_clauses(text):
        if t[0] == "error":
            continue
        h, b = P.head_body(t)
        f = P.functor(h)
        if f in want:
            cl.setdefault(f, []).append((h, b, line))
    for f in want:
        if f not in cl:
            raise AnchorLost("builtins.pl: %s/%d not found or not parsed" % f)
    W = lambda f, i=0: "src/lib/builtins.pl:%s %s/%d" % (cl[f][i][2], f[0], f[1])

    # ---- throw/1 ----------------------------------------------------------------------------------------------
    R.ob("C12:throw/1:one-clause", len(cl[("throw", 1)]) == 1, "throw/1 has %d clauses" % len(cl[("throw", 1)]), W(("throw", 1)))
    h, b, _ = cl[("throw", 1)][0]
    ball = h[2][0]
    gs = goals(b)
    last = gs[-1]
    R.ob("C12:throw/1:ends-with-unwind", last == ("atom", "$unwind_stack"), "throw/1 must end with '$unwind_stack'; last goal is %s" % P.show(last), W(("throw", 1)))
    ite = [g for g in gs if g[0] == "cmp" and g[1] == ";"]
    ok_store = False
    ok_inst = False
    if ball[0] == "var":
        for g in ite:
            c_t, e = g[2]
            if c_t[0] == "cmp" and c_t[1] == "->":
                c, t = c_t[2]
                if c == ("cmp", "var", [ball]):
                    tb = [x for x in goals(t) if x[0] == "cmp" and x[1] == "$set_ball"]
                    eb = [x for x in goals(e) if x[0] == "cmp" and x[1] == "$set_ball"]
                    ok_inst = len(tb) == 1 and tb[0][2][0][0] == "cmp" and tb[0][2][0][1] == "error" and tb[0][2][0][2][0] == ("atom", "instantiation_error")
                    ok_store = len(eb) == 1 and eb[0][2][0] == ball
        direct = [x for x in gs if x[0] == "cmp" and x[1] == "$set_ball" and x[2][0] == ball]
        if direct and not ite:
            ok_store = True
    R.ob("C12:throw/1:stores-the-thrown-term", ok_store, "throw(Ball) must call '$set_ball'(Ball) with the head's own argument before unwinding", W(("throw", 1)))
    R.ob("C12:throw/1:unbound-ball-is-instantiation-error", ok_inst, "throw(Ball) with var(Ball) must store error(instantiation_error, _)", W(("throw", 1)))
    i_set = min([i for i, g in enumerate(gs) if "$set_ball" in P.show(g)] or [99])
    R.ob("C12:throw/1:store-before-unwind", i_set < len(gs) - 1, "the ball must be stored before '$unwind_stack'", W(("throw", 1)))

    # ---- catch/3 ----------------------------------------------------------------------------------------------
    R.ob("C12:catch/3:one-clause", len(cl[("catch", 3)]) == 1, "", W(("catch", 3)))
    h, b, _ = cl[("catch", 3)][0]
    gs = goals(b)
    i_blk = index_of(gs, "$get_current_block")
    i_c4 = index_of(gs, "catch")
    ok = i_blk is not None and i_c4 is not None and i_blk < i_c4
    if ok:
        bb = gs[i_blk][2][0]
        c4 = gs[i_c4]
        ok = len(c4[2]) == 4 and c4[2][:3] == h[2] and c4[2][3] == bb and bb[0] == "var"
    R.ob("C12:catch/3:captures-outer-block-first", ok,
         "catch(G,C,R) must read the current block with '$get_current_block'(Bb) and pass G, C, R and that Bb to catch/4", W(("catch", 3)))

    # ---- catch/4 ----------------------------------------------------------------------------------------------
    c4 = cl[("catch", 4)]
    R.ob("C12:catch/4:two-clauses", len(c4) == 2, "catch/4 has %d clauses (call clause, recovery clause)" % len(c4), W(("catch", 4)))
    if len(c4) == 2:
        h, b, _ = c4[0]
        G, C, Rv, Bb = h[2]
        gs = goals(b)
        i_new, i_call, i_end = index_of(gs, "$install_new_block"), index_of(gs, "call"), index_of(gs, "end_block")
        ok = None not in (i_new, i_call, i_end) and i_new < i_call < i_end
        if ok:
            nbb = gs[i_new][2][0]
            ok = gs[i_call][2] == [G] and gs[i_end][2] == [Bb, nbb] and nbb[0] == "var" and nbb != Bb
        R.ob("C12:catch/4:call-clause", ok,
             "catch/4's first clause must be '$install_new_block'(NBb), call(G), end_block(Bb, NBb) in that order on the head's G and Bb; found %s" % [P.show(g) for g in gs], W(("catch", 4)))
        h, b, _ = c4[1]
        G, C, Rv, Bb = h[2]
        gs = goals(b)
        i_rst, i_get, i_push, i_hb = index_of(gs, "$reset_block"), index_of(gs, "$get_ball"), index_of(gs, "$push_ball_stack"), index_of(gs, "handle_ball")
        ok_order = None not in (i_rst, i_get, i_push, i_hb) and i_rst < i_get < i_push < i_hb
        R.ob("C12:catch/4:recovery-order", ok_order,
             "catch/4's recovery clause must restore the outer block, then fetch the ball, then park it, then call handle_ball/3; found %s" % [P.show(g) for g in gs], W(("catch", 4), 1))
        if ok_order:
            ballv = gs[i_get][2][0]
            R.ob("C12:catch/4:restores-the-block-it-was-given", gs[i_rst][2] == [Bb] and Bb[0] == "var", "'$reset_block' must be given the head's Bb", W(("catch", 4), 1))
            R.ob("C12:catch/4:hands-ball-catcher-recovery", gs[i_hb][2] == [ballv, C, Rv] and ballv[0] == "var" and ballv not in (G, C, Rv, Bb),
                 "handle_ball must be called with the fetched ball (a fresh variable), the head's catcher and the head's recovery goal; found %s" % P.show(gs[i_hb]), W(("catch", 4), 1))

    # ---- end_block/2 -------------------------------------------------------------------------------------------
    eb = cl[("end_block", 2)]
    R.ob("C12:end_block/2:two-clauses", len(eb) == 2, "end_block/2 has %d clauses" % len(eb), W(("end_block", 2)))
    if len(eb) == 2:
        h, b, _ = eb[0]
        Bb, NBb = h[2]
        gs = goals(b)
        i_cl, i_rs = index_of(gs, "$clean_up_block"), index_of(gs, "$reset_block")
        R.ob("C12:end_block/2:exit-restores-outer-block", None not in (i_cl, i_rs) and i_cl < i_rs and gs[i_cl][2] == [NBb] and gs[i_rs][2] == [Bb] and Bb[0] == "var" and NBb[0] == "var" and Bb != NBb,
             "on exit of the protected goal: '$clean_up_block'(NBb) then '$reset_block'(Bb); found %s" % [P.show(g) for g in gs], W(("end_block", 2)))
        h, b, _ = eb[1]
        NBb2 = h[2][1]
        gs = goals(b)
        i_rs, i_f = index_of(gs, "$reset_block"), index_of(gs, "$fail")
        R.ob("C12:end_block/2:redo-reinstalls-inner-block", None not in (i_rs, i_f) and i_rs < i_f and gs[i_rs][2] == [NBb2] and NBb2[0] == "var",
             "on backtracking into the protected goal: '$reset_block'(NBb) then fail; found %s" % [P.show(g) for g in gs], W(("end_block", 2), 1))

    # ---- handle_ball/3 -----------------------------------------------------------------------------------------
    hb = cl[("handle_ball", 3)]
    R.ob("C12:handle_ball/3:two-clauses", len(hb) == 2, "handle_ball/3 has %d clauses" % len(hb), W(("handle_ball", 3)))
    if len(hb) == 2:
        h, b, _ = hb[0]
        a1, a2, a3 = h[2]
        gs = goals(b)
        R.ob("C12:handle_ball/3:unifies-ball-with-catcher", a1 == a2 and a1[0] == "var" and a3[0] == "var" and a3 != a1,
             "the first clause's head must be handle_ball(C, C, R): ball and catcher unified by the head; found %s" % P.show(h), W(("handle_ball", 3)))
        i_cut, i_pop, i_call = index_of(gs, "!"), index_of(gs, "$pop_ball_stack"), index_of(gs, "call")
        R.ob("C12:handle_ball/3:commit-drop-recover", None not in (i_cut, i_pop, i_call) and i_cut < i_pop < i_call and gs[i_call][2] == [a3],
             "the first clause must commit (!), drop the parked ball ('$pop_ball_stack') and call the recovery goal; found %s" % [P.show(g) for g in gs], W(("handle_ball", 3)))
        h, b, _ = hb[1]
        gs = goals(b)
        i_res, i_unw = index_of(gs, "$pop_from_ball_stack"), index_of(gs, "$unwind_stack")
        R.ob("C12:handle_ball/3:rethrow-restores-ball", None not in (i_res, i_unw) and i_res < i_unw and i_unw == len(gs) - 1,
             "the second clause must restore the parked ball ('$pop_from_ball_stack') and then unwind again; found %s" % [P.show(g) for g in gs], W(("handle_ball", 3), 1))
        R.ob("C12:handle_ball/3:rethrow-for-any-ball", all(x[0] == "var" for x in h[2]) and len({x[1] for x in h[2] if x[1] != "_"}) == len([x for x in h[2] if x[1] != "_"]),
             "the second clause must apply to every ball and catcher (distinct variables in its head); found %s" % P.show(h), W(("handle_ball", 3), 1))

    # ---- Rust primitives ---------------------------------------------------------------------------------------
    ms_set = F.find_impl("MachineState", None, "set_ball")
    h = F.hir(ms_set)
    calls = [(r, n) for _, r, n in hir_calls(h["body"])]
    names = [c for c, _ in calls]
    reset_i = next((i for i, c in enumerate(names) if c.endswith("Ball::reset")), None)
    copy_i = next((i for i, c in enumerate(names) if c.endswith("copier::copy_term")), None)
    R.ob("C12:set_ball:clears-previous-ball-first", reset_i is not None and copy_i is not None and reset_i < copy_i, "set_ball must reset the old ball before storing the new one; calls %s" % names, F.where(ms_set))
    tgt = [n for c, n in calls if re.search(r"CopyBallTerm(::<.*>)?::new$", c)]
    into_stub = bool(tgt) and any(x["k"] == "Field" and x["name"] == "stub" for x in walk(tgt[0]["args"]))
    R.ob("C12:set_ball:stores-a-copy", copy_i is not None and into_stub, "set_ball must copy the thrown term (copy_term into CopyBallTerm over ball.stub): the catcher is unified with a copy of B", F.where(ms_set))
    from_reg = copy_i is not None and any(x["k"] == "Index" and any(y["k"] == "Field" and y["name"] == "registers" for y in walk(x)) for x in walk(h["body"]))
    R.ob("C12:set_ball:copies-the-thrown-term", from_reg, "set_ball copies registers[1]", F.where(ms_set))
    bnd = [n for n in walk(h["body"]) if n["k"] == "Assign" and orframe.field_chain(n["lhs"])[-2:] == ["ball", "boundary"]]
    R.ob("C12:set_ball:records-heap-boundary", len(bnd) == 1 and any(x["k"] == "MethodCall" and x["name"] == "cell_len" for x in walk(bnd[0]["rhs"])),
         "set_ball must record ball.boundary = heap.cell_len() (the copy is re-aligned against it)", F.where(ms_set))

    uw = F.find_impl("MachineState", None, "unwind_stack")
    h = F.hir(uw)
    asg = {}
    for n in walk(h["body"]):
        if n["k"] == "Assign" and n["lhs"]["k"] == "Field":
            asg[n["lhs"]["name"]] = n["rhs"]
    ok_b = "b" in asg and asg["b"]["k"] == "MethodCall" and asg["b"]["name"] == "effective_block"
    ok_f = "fail" in asg and asg["fail"]["k"] == "Lit" and asg["fail"].get("lit") == {"bool": True}
    R.ob("C12:unwind_stack:cuts-to-innermost-block", ok_b, "unwind_stack must set b = effective_block()", F.where(uw))
    R.ob("C12:unwind_stack:fails", ok_f, "unwind_stack must set fail = true (the block's choice point is then resumed)", F.where(uw))
    eb_fn = F.find_impl("MachineState", None, "effective_block")
    h = F.hir(eb_fn)
    mx = [n for _, r, n in hir_calls(h["body"]) if re.search(r"cmp::max$", r)]
    flds = {x["name"] for x in walk(h["body"]) if x["k"] == "Field"}
    R.ob("C12:effective_block:innermost-of-catch-and-cleanup-blocks", len(mx) == 1 and {"block", "scc_block"} <= flds, "effective_block = max(block, scc_block)", F.where(eb_fn))

    gb = F.find_impl("Machine", None, "get_ball")
    h = F.hir(gb)
    names = [short(r) for _, r, _ in hir_calls(h["body"])]
    R.ob("C12:get_ball:recreates-copy-on-heap", any(c.endswith("Ball::copy_and_align_to") for c in names), "'$get_ball' must copy the stored ball back to the heap (re-aligned)", F.where(gb))
    R.ob("C12:get_ball:binds-argument", any(c.endswith("MachineState::bind") for c in names), "'$get_ball' binds its argument to the copy", F.where(gb))
    fails = [n for n in walk(h["body"]) if n["k"] == "Assign" and n["lhs"]["k"] == "Field" and n["lhs"]["name"] == "fail"]
    R.ob("C12:get_ball:fails-without-ball", len(fails) >= 1 and any(x["k"] == "MethodCall" and x["name"] == "is_empty" for x in walk(h["body"])),
         "'$get_ball' fails when no ball is stored (plain failure of the protected goal reaches the recovery clause too)", F.where(gb))

    inb = F.find_impl("MachineState", None, "install_new_block")
    h = F.hir(inb)
    blk = [n for n in walk(h["body"]) if n["k"] == "Assign" and n["lhs"]["k"] == "Field" and n["lhs"]["name"] == "block"]
    R.ob("C12:install_new_block:block-is-current-choice-point", len(blk) == 1 and blk[0]["rhs"]["k"] == "Field" and blk[0]["rhs"]["name"] == "b",
         "install_new_block must set block = b (the catch/4 choice point)", F.where(inb))
    R.ob("C12:install_new_block:returns-block", any(short(r).endswith("unify_fixnum") for _, r, _ in hir_calls(h["body"])), "the new block is unified with the argument", F.where(inb))
    rb = F.find_impl("Machine", None, "reset_block")
    h = F.hir(rb)
    blk = [n for n in walk(h["body"]) if n["k"] == "Assign" and orframe.field_chain(n["lhs"])[-2:] == ["machine_st", "block"]]
    R.ob("C12:reset_block:sets-block-from-argument", len(blk) == 1 and any(x["k"] == "MethodCall" and x["name"] == "get_num" for x in walk(blk[0]["rhs"])),
         "'$reset_block'(B) must set block to the value of its argument", F.where(rb))
    cb = F.find_impl("Machine", None, "get_current_block")
    h = F.hir(cb)
    R.ob("C12:get_current_block:reads-block", any(x["k"] == "Field" and x["name"] == "block" for x in walk(h["body"])) and not any(x["k"] == "Field" and x["name"] == "scc_block" for x in walk(h["body"])),
         "'$get_current_block' reports machine_st.block", F.where(cb))
    cu = F.find_impl("Machine", None, "clean_up_block")
    h = F.hir(cu)
    ifs = [n for n in walk(h["body"]) if n["k"] == "If"]
    asg_b = [n for n in walk(h["body"]) if n["k"] == "Assign" and orframe.field_chain(n["lhs"])[-2:] == ["machine_st", "b"]]
    guarded = bool(ifs) and any(any(a is x for x in walk(i["then"])) for i in ifs for a in asg_b)
    cond_ok = bool(ifs) and any(c["k"] == "Binary" and c["op"] == "Eq" for c in walk(ifs[0]["cond"]))
    R.ob("C12:clean_up_block:pops-only-its-own-determinate-frame", len(asg_b) == 1 and guarded and cond_ok and orframe.resolve(asg_b[0]["rhs"], h["body"])[-2:] == ["prelude", "b"],
         "'$clean_up_block'(NBb) may pop the catch frame only when it is the newest frame below b (an equality test guards b = frame(NBb).prelude.b)", F.where(cu))

    psh = F.find_impl("Machine", None, "push_ball_stack")
    h = F.hir(psh)
    names = [r for _, r, _ in hir_calls(h["body"])]
    R.ob("C12:push_ball_stack:moves-ball", any(re.search(r"vec::Vec::<.*>::push$", c) for c in names) and any(c.endswith("mem::replace") for c in names) and any(c.endswith("Ball::new") for c in names),
         "'$push_ball_stack' moves the ball onto the ball stack and leaves a fresh one; calls %s" % names, F.where(psh))
    pfb = F.find_impl("Machine", None, "pop_from_ball_stack")
    h = F.hir(pfb)
    names = [r for _, r, _ in hir_calls(h["body"])]
    back = [n for n in walk(h["body"]) if n["k"] == "Assign" and orframe.field_chain(n["lhs"])[-2:] == ["machine_st", "ball"]]
    R.ob("C12:pop_from_ball_stack:restores-ball", any(re.search(r"vec::Vec::<.*>::pop$", c) for c in names) and len(back) == 1, "'$pop_from_ball_stack' puts the parked ball back; calls %s" % names, F.where(pfb))
    pb = F.find_impl("Machine", None, "pop_ball_stack")
    h = F.hir(pb)
    names = [r for _, r, _ in hir_calls(h["body"])]
    back = [n for n in walk(h["body"]) if n["k"] == "Assign"]
    R.ob("C12:pop_ball_stack:drops-parked-ball", any(re.search(r"vec::Vec::<.*>::pop$", c) for c in names) and not back, "'$pop_ball_stack' drops the parked ball", F.where(pb))

    # throw_exception / throw_resource_error: the ball is stored before the stack is unwound (MIR order)
    for name in ("throw_exception", "throw_resource_error"):
        te = F.find_impl("MachineState", None, name)
        cfg = CFG(F.mir(te))
        sb = cfg.call_blocks(lambda t: re.search(r"MachineState>?::set_ball$", callee_of(t)))
        ub = cfg.call_blocks(lambda t: re.search(r"MachineState>?::unwind_stack$", callee_of(t)))
        if not sb or not ub:
            raise AnchorLost("%s: set_ball/unwind_stack calls (%d/%d)" % (name, len(sb), len(ub)))
        dom = cfg.dominators()
        R.ob("C12:%s:stores-ball-before-unwinding" % name, all(any(s in dom[u] for s in sb) for u in ub),
             "%s must call set_ball before unwind_stack on every path" % name, F.where(te))

    cut_runs_cleaners(F, R)
    cleaner_loops_ignore_outcome(R)
    cleaner_due_when_choice_point_gone(F, R)
    # ---- error_form builds error(Formal, Context) ---------------------------------------------------------------
    ef = F.find_impl("MachineState", None, "error_form")
    h = F.hir(ef)
    from .core import atom_of
    atoms = [atom_of(n) for n in walk(h["body"])]
    atoms = [a for a in atoms if a]
    R.ob("C12:error_form:functor-is-error", "error" in atoms, "error_form builds the functor `error`; atoms %s" % sorted(set(atoms)), F.where(ef))
    uses = {res_name(x) for x in walk(h["body"]) if x["k"] == "Path"}
    flds = {x["name"] for x in walk(h["body"]) if x["k"] == "Field"}
    R.ob("C12:error_form:formal-and-context", "stub" in flds and "src" in uses, "error_form(err, src) = error(err.stub, src[:line])", F.where(ef))

    # ---- who may build a thrown error --------------------------------------------------------------------------
    # helper functions returning a stub that is error_form's result (fixpoint over tail/return values)
    stub_fns = [p for p, it in F.items.items() if it["kind"] in ("Fn", "AssocFn") and (it.get("output") or "") == VEC_STUB]
    good = {ef}
    changed = True

    def value_sources(p):
        h = F.hir(p)
        outs = []

        def tail(e):
            if e["k"] == "Block":
                if e.get("expr"):
                    tail(e["expr"])
                return
            if e["k"] == "If":
                tail(e["then"])
                if e.get("else"):
                    tail(e["else"])
                return
            if e["k"] == "Match":
                for a in e["arms"]:
                    tail(a["body"])
                return
            if e["k"] in ("DropTemps", "Paren"):
                tail(e.get("e") or e.get("a"))
                return
            outs.append(e)
        tail(h["body"])
        for n in walk(h["body"]):
            if n["k"] == "Ret" and n.get("e"):
                tail(n["e"])
        return outs, h

    while changed:
        changed = False
        for p in stub_fns:
            if p in good:
                continue
            try:
                outs, h = value_sources(p)
            except AnchorLost:
                continue
            ok = bool(outs)
            for e in outs:
                if e["k"] in ("Call", "MethodCall") and (e.get("resolved") or e.get("callee")) in good:
                    continue
                if e["k"] == "Path":
                    ch = orframe.resolve(e, h["body"])
                    # let err = self.error_form(..); err
                    init = None
                    for x in walk(h["body"]):
                        if x["k"] == "Let" and x["pat"]["k"] == "PBind" and x["pat"]["name"] == res_name(e) and "init" in x:
                            init = x["init"]
                    if init is not None and init["k"] in ("Call", "MethodCall") and (init.get("resolved") or init.get("callee")) in good:
                        continue
                ok = False
            if ok:
                good.add(p)
                changed = True
    R.notes.append("error-building helpers (return error_form's result): %s" % sorted(short(g) for g in good))
    R.floor("error-building helpers", len(good), 6)

    # error generators (Box<dyn Fn(&mut MachineState) -> MachineStub>, used by the arithmetic evaluator): the boxed
    # closure must end in error_form (or a helper returning its result)
    GEN_TY = re.compile(r"^std::boxed::Box<\(?dyn .*Fn\(&'a mut machine::machine_state::MachineState\) -> std::vec::Vec<functor_macro::FunctorElement>")
    gens = [p for p, it in sorted(F.items.items()) if it["kind"] in ("Fn", "AssocFn") and GEN_TY.search(it.get("output") or "") and it["file"].startswith("src/")]
    R.floor("error generator constructors", len(gens), 3)
    for g in gens:
        gh = F.hir(g)
        cls_n = [x for x in walk(gh["body"]) if x["k"] == "Closure" and any(re.search(r"MachineState", json_ty(q)) for q in x.get("params", []))]
        ok = bool(cls_n)
        why = []
        for c in cls_n:
            inner = {}
            for x in walk(c["body"]):
                if x["k"] == "Let" and x["pat"]["k"] == "PBind" and "init" in x:
                    inner[x["pat"]["name"]] = x["init"]
            k = classify(c["body"], inner, set(), good, c, c["body"])
            why.append(k)
            if k not in ("error_form", "helper"):
                ok = False
        if not cls_n:
            # delegation: returns another generator constructor's result
            outs, _ = value_sources(g)
            ok = bool(outs) and all(e["k"] in ("Call", "MethodCall") and (e.get("resolved") or e.get("callee")) in gens for e in outs)
            why = ["delegates" if ok else "no closure found"]
        R.ob("C12:error-generator:%s" % short(g), ok, "the generator built by %s must end in error_form; its closure(s) end in %s" % (short(g), why), F.where(g))

    # every Err(generator): a generator constructor's result, or a boxed closure ending in error_form
    GEN_RES = re.compile(r"Result<.*, std::boxed::Box<\(?dyn .*Fn\(&'a mut machine::machine_state::MachineState\) -> std::vec::Vec<functor_macro::FunctorElement>")
    n_gen_sites = 0
    for p, it in sorted(F.items.items()):
        if it["kind"] not in ("Fn", "AssocFn", "Closure") or not it["file"].startswith("src/") or "::tests::" in p:
            continue
        try:
            ph = F.hir(p)
        except AnchorLost:
            continue
        badl = []
        for x in walk(ph["body"]):
            if x["k"] == "Call" and (x.get("resolved") or x.get("callee")) == "std::prelude::v1::Err" and GEN_RES.search(x.get("ty") or ""):
                n_gen_sites += 1
                a = x["args"][0]
                while a["k"] in ("Cast", "DropTemps", "Paren") and (a.get("a") or a.get("e")):
                    a = a.get("a") or a.get("e")
                okk = False
                if a["k"] in ("Call", "MethodCall"):
                    c = a.get("resolved") or a.get("callee") or ""
                    if c in gens:
                        okk = True
                    elif re.search(r"boxed::Box::<.*>::new$", c) and a.get("args") and a["args"][0]["k"] == "Closure":
                        cb = a["args"][0]["body"]
                        inner = {}
                        for y in walk(cb):
                            if y["k"] == "Let" and y["pat"]["k"] == "PBind" and "init" in y:
                                inner[y["pat"]["name"]] = y["init"]
                        okk = classify(cb, inner, set(), good, x, cb) in ("error_form", "helper")
                elif a["k"] == "Path":
                    okk = True   # a generator received from a callee and passed on
                if not okk:
                    badl.append(x["ln"])
        if badl:
            R.ob("C12:error-generator-site:%s" % short(p), False, "Err(generator) at line(s) %s is neither a generator constructor's result nor a boxed closure ending in error_form" % badl, F.where(p))
    R.floor("Err(generator) sites", n_gen_sites, 50)

    classes = {}
    bad = {}
    fns = [p for p, it in sorted(F.items.items()) if it["kind"] in ("Fn", "AssocFn", "Closure") and it["file"].startswith("src/") and "::tests::" not in p and "::test::" not in p
           and not it["file"].endswith("mock_wam.rs")]
    n_sites = 0
    for p in fns:
        try:
            h = F.hir(p)
        except AnchorLost:
            continue
        body = h["body"]
        lets = {}
        pat_bound = set()
        for x in walk(body):
            if x["k"] == "Let" and x["pat"]["k"] == "PBind" and "init" in x:
                lets[x["pat"]["name"]] = x["init"]
            if x["k"] in ("Arm",) or (x["k"] == "LetCond") or (x["k"] == "Let" and x["pat"]["k"] != "PBind"):
                pat = x.get("pat")
                if pat:
                    for q in walk(pat):
                        if q["k"] == "PBind":
                            pat_bound.add(q["name"])
            if x["k"] == "Closure":
                for q in walk(x.get("params", [])):
                    if isinstance(q, dict) and q.get("k") == "PBind":
                        pat_bound.add(q["name"])
        params = set(h.get("params", []) if isinstance(h.get("params"), list) and all(isinstance(a, str) for a in h.get("params", [])) else [])
        for x in walk(body):
            if x["k"] == "Call" and (x.get("resolved") or x.get("callee")) == "std::prelude::v1::Err" and STUB_TY.search(x.get("ty") or ""):
                n_sites += 1
                a = x["args"][0]
                cls = classify(a, lets, pat_bound, good, x, body)
                classes[cls] = classes.get(cls, 0) + 1
                if cls.startswith("BAD"):
                    bad.setdefault((p, cls), []).append(x["ln"])
    # direct throws: the argument of throw_exception is a propagated error or error_form's result
    n_thr = 0
    for p in fns:
        try:
            h = F.hir(p)
        except AnchorLost:
            continue
        body = h["body"]
        sites = [x for x in walk(body) if x["k"] in ("MethodCall", "Call") and re.search(r"MachineState>?::throw_exception$", x.get("resolved") or x.get("callee") or "")]
        if not sites:
            continue
        lets = {}
        pat_bound = set()
        for x in walk(body):
            if x["k"] == "Let" and x["pat"]["k"] == "PBind" and "init" in x:
                lets[x["pat"]["name"]] = x["init"]
            if x["k"] in ("Arm", "LetCond") or (x["k"] == "Let" and x["pat"]["k"] != "PBind"):
                for q in walk(x.get("pat") or {}):
                    if q["k"] == "PBind":
                        pat_bound.add(q["name"])
        badl = []
        for x in sites:
            n_thr += 1
            a = (x.get("args") or [None])[-1]
            cls = classify(a, lets, pat_bound, good, x, body) if a else "BAD:no argument"
            if cls.startswith("BAD") or cls == "param":
                badl.append((x["ln"], cls))
        if badl:
            R.ob("C12:direct-throw:not-an-error-term:%s" % short(p), False, "throw_exception is given a term that is not built by error_form at %s" % badl, F.where(p))
    R.floor("throw_exception call sites", n_thr, 300)
    R.floor("Err(stub) construction sites", n_sites, 200)
    R.notes.append("thrown-error sources: %s" % dict(sorted(classes.items())))
    R.ob("C12:raised-errors:built-by-error_form:sites", classes.get("error_form", 0) + classes.get("helper", 0) >= 150,
         "%d Err(stub) sites take their stub directly from error_form or a helper returning its result" % (classes.get("error_form", 0) + classes.get("helper", 0)), "crate-wide")
    for (p, cls), lines in sorted(bad.items()):
        R.ob("C12:raised-errors:not-an-error-term:%s:%s" % (short(p), cls[4:]), False,
             "%d Err(..) value(s) at line(s) %s are not built by error_form (source: %s): the builtin would throw a term that is not error(Formal, Context)" % (len(lines), lines, cls[4:]), F.where(p))


def classify(a, lets, pat_bound, good, errnode, body, depth=0):
    k = a["k"]
    if k in ("Call", "MethodCall"):
        c = a.get("resolved") or a.get("callee")
        if c in good:
            return "error_form" if c.endswith("::error_form") else "helper"
        if c is None and k == "Call" and a.get("f", {}).get("k") == "Path" and "Fn(" in (a["f"].get("ty") or ""):
            return "generator"          # caller-supplied closure producing the whole error
        if c is None and k == "Call" and a.get("f", {}).get("k") == "Path" and res_name(a["f"]) in lets and lets[res_name(a["f"])]["k"] == "Closure" and depth < 4:
            # a local closure: its value is what its body ends in
            cb = lets[res_name(a["f"])]["body"]
            inner_lets = dict(lets)
            for x in walk(cb):
                if x["k"] == "Let" and x["pat"]["k"] == "PBind" and "init" in x:
                    inner_lets[x["pat"]["name"]] = x["init"]
            return classify(cb, inner_lets, pat_bound, good, errnode, body, depth + 1)
        if c and re.search(r"Vec::<.*>::new$|Vec<T>::new$|vec::Vec::<.*>::new$", c):
            # the empty sentinel: only right after the resource error has been thrown
            if "resource_error_call_result" in mac_names(errnode) or "step_or_resource_error" in mac_names(errnode) or \
               any(re.search(r"throw_resource_error$", r or "") for _, r, _ in hir_calls(body)):
                return "sentinel-after-resource-error"
            return "BAD:empty stub without a thrown resource error"
        if c and c in lets:
            return "BAD:call " + short(c)
        if c:
            # a local closure (stub_gen-style) whose body ends in error_form is resolved through its def path
            return "BAD:call " + short(c)
        return "BAD:unresolved call"
    if k == "Path":
        nm = res_name(a)
        if nm in lets and depth < 4:
            return classify(lets[nm], lets, pat_bound, good, errnode, body, depth + 1)
        if nm in pat_bound:
            return "propagated"
        return "param"
    if k in ("DropTemps", "Paren", "AddrOf", "Cast"):
        inner = a.get("e") or a.get("a")
        if inner:
            return classify(inner, lets, pat_bound, good, errnode, body, depth + 1)
    if k == "Block" and a.get("expr"):
        return classify(a["expr"], lets, pat_bound, good, errnode, body, depth + 1)
    if k == "Match":
        cs = {classify(arm["body"], lets, pat_bound, good, errnode, body, depth + 1) for arm in a["arms"]}
        b = [c for c in cs if c.startswith("BAD")]
        return b[0] if b else sorted(cs)[0]
    if k == "If":
        cs = {classify(a["then"], lets, pat_bound, good, errnode, body, depth + 1)}
        if a.get("else"):
            cs.add(classify(a["else"], lets, pat_bound, good, errnode, body, depth + 1))
        b = [c for c in cs if c.startswith("BAD")]
        return b[0] if b else sorted(cs)[0]
    return "BAD:" + k


def json_ty(q):
    """type string of a closure parameter node (params are pattern nodes with a `ty`)"""
    if isinstance(q, dict):
        return q.get("ty") or ""
    return ""


CUT_WITHOUT_CLEANERS = {
    "Machine::set_cut_point_by_default": "'$set_cp_by_default': the cut used by setup_call_cleanup/3 itself (after its setup goal and inside its cleaner loops); running the cleaners from there would re-enter the loop that is running them",
}


def cut_runs_cleaners(F, R):
    """setup_call_cleanup/3: "runs its cleanup ... when the goal is cut". Every site that cuts choice points away with
    cut_body / cut_prev_body must give the installed cleaners a chance to run (run_cleaners_fn) before execution goes on."""
    from . import repo
    n = 0

    def calls_cleaners(node):
        return any(x["k"] == "Call" and x.get("f", {}).get("k") in ("Field", "Paren") and any(y["k"] == "Field" and y["name"] == "run_cleaners_fn" for y in walk(x["f"])) for x in walk(node))

    def cuts(node):
        return [x for x in walk(node) if x["k"] in ("Call", "MethodCall") and re.search(r"MachineState>?::cut(_prev)?_body$", x.get("resolved") or x.get("callee") or "")]

    m, arms, wild = repo.dispatch_arms(F)
    dl = repo.dispatch_loop(F)
    for v, a in sorted(arms.items()):
        arm = a[0]
        if cuts(arm["body"]):
            n += 1
            R.ob("C12:cut-runs-cleaners:%s" % v, calls_cleaners(arm["body"]),
                 "the %s instruction cuts choice points away without calling run_cleaners_fn: the cleanup of a setup_call_cleanup/3 goal pruned by this cut does not run at the cut "
                 "(it runs at some later, unrelated cut, or never)" % v, "%s:%s dispatch_loop arm %s" % (F.items[dl]["file"], arm["ln"], v))
    for p, it in sorted(F.items.items()):
        if it["kind"] not in ("Fn", "AssocFn") or p == dl or not it["file"].startswith("src/machine/") or re.search(r"::cut(_prev)?_body$", p):
            continue
        try:
            ph = F.hir(p)
        except AnchorLost:
            continue
        if cuts(ph["body"]):
            n += 1
            if short(p) in CUT_WITHOUT_CLEANERS:
                R.ob("C12:cut-runs-cleaners:%s:exception" % short(p), True, "listed: " + CUT_WITHOUT_CLEANERS[short(p)], F.where(p))
                continue
            R.ob("C12:cut-runs-cleaners:%s" % short(p), calls_cleaners(ph["body"]),
                 "%s cuts with cut_body/cut_prev_body and does not call run_cleaners_fn afterwards" % short(p), F.where(p))
    R.floor("cut sites", n, 3)


def cleaner_loops_ignore_outcome(R):
    """setup_call_cleanup/3: the outcome of a cleanup is ignored. The two loops that run the pending cleanups (after a cut,
    an exit, a failure or an exception several may be pending at once) must go on to the next cleanup whether the current
    one succeeded or failed: the goal that runs the cleaner C is wrapped so that it cannot fail the loop's clause."""
    text = open(os.path.join(REPO, "src/lib/iso_ext.pl")).read()
    loops = {}
    for t, line in P.read_clauses(text):
        head, body = P.head_body(t)
        f = P.functor(head)
        if f in (("run_cleaners_with_handling", 0), ("run_cleaners_without_handling", 1)):
            loops.setdefault(f, []).append((line, head, body))
    if len(loops) != 2:
        raise AnchorLost("iso_ext.pl: cleaner loops found: %s" % sorted(loops))

    def subterms(t):
        yield t
        if t[0] == "cmp":
            for a in t[2]:
                yield from subterms(a)
    for f, cls in sorted(loops.items()):
        line, head, body = cls[0]
        items = P.conj(body)
        getc = [g for g in items if P.functor(g) == ("$get_scc_cleaner", 1)]
        rec = [g for g in items if P.functor(g) == f]
        if len(getc) != 1 or not rec:
            raise AnchorLost("iso_ext.pl: first clause of %s/%d is not the loop (get cleaner, run it, recurse)" % f)
        c = getc[0][2][0]
        runs = [g for g in items if g is not getc[0] and any(x == c for x in subterms(g))]
        ok = bool(runs)
        for g in runs:
            shielded = (g[0] == "cmp" and g[1] == ";" and len(g[2]) == 2 and g[2][1] == ("atom", "true")) or P.functor(g) == ("ignore", 1) or \
                (P.functor(g) == ("\\+", 1) and P.functor(g[2][0]) == ("\\+", 1))
            ok = ok and shielded
        R.ob("C12:cleaner-loop:%s/%d:goes-on-when-a-cleanup-fails" % f, ok,
             "%s/%d runs the cleanup as %s: when it fails the loop's clause fails and the cleanups still pending are not run now "
             "((scc(true, member(_,[1,2]), write(c1)), scc(true, member(_,[1,2]), (write(c2), fail)), !) runs c1 only much later)"
             % (f[0], f[1], [P.show(g) for g in runs]), "src/lib/iso_ext.pl (line %s)" % line)


def cleaner_due_when_choice_point_gone(F, R):
    """"cleanup runs exactly once when the goal finishes deterministically, fails, raises an exception or is cut" — and not
    before. Every pending cleanup is recorded with the choice point of its setup_call_cleanup/3 call (b_cutoff). It is due
    when that choice point is gone: b < b_cutoff, STRICTLY — the choice point of an enclosing call that is still running
    is exactly at b while a cut inside its goal prunes an inner call. The two places that make the test (run_cleaners,
    which starts the loop after a cut, and '$get_scc_cleaner', which feeds it) agree on the strict form, and the two
    clauses of scc_helper/3 that run the call's own cleanup while its choice point still exists (deterministic exit,
    exception) drop that choice point first."""
    tests = {}
    for label, fn in (("run_cleaners", F.find_impl("Machine", None, "run_cleaners")), ("get_scc_cleaner", F.find_impl("Machine", None, "get_scc_cleaner"))):
        body = F.hir(fn)["body"]
        ops = []
        for n in walk(body):
            if n["k"] == "If" and n["cond"].get("k") == "Binary" and n["cond"]["op"] in ("Lt", "Le", "Gt", "Ge"):
                names = {res_name(x) for x in walk(n["cond"]) if x["k"] == "Path"} | {x["name"] for x in walk(n["cond"]) if x["k"] == "Field"}
                if "b_cutoff" in names and "b" in names:
                    c = n["cond"]
                    cut_on_right = any(x["k"] == "Path" and res_name(x) == "b_cutoff" for x in walk(c["b"]))
                    ops.append(c["op"] if cut_on_right else {"Lt": "Gt", "Le": "Ge", "Gt": "Lt", "Ge": "Le"}[c["op"]])
        if len(ops) != 1:
            raise AnchorLost("%s: the comparison of b with b_cutoff (%d)" % (label, len(ops)))
        tests[label] = (ops[0], fn)
    for label, (op, fn) in sorted(tests.items()):
        R.ob("C12:cleaner-due:%s:only-when-its-choice-point-is-gone" % label, op == "Lt",
             "%s takes a cleanup as due when b %s b_cutoff: with equality the cleanup of an ENCLOSING setup_call_cleanup/3 that is still running is run as soon as a cut "
             "inside its goal prunes an inner one (scc(true, (scc(true, member(X,[1,2]), write(inner)), !, write(after)), write(outer)) prints inner outer after)"
             % (label, {"Lt": "<", "Le": "<=", "Gt": ">", "Ge": ">="}[op]), F.where(fn))
    text = open(os.path.join(REPO, "src/lib/iso_ext.pl")).read()
    cls = [(line, P.head_body(t)) for t, line in P.read_clauses(text) if P.functor(P.head_body(t)[0]) == ("scc_helper", 3)]
    if len(cls) != 3:
        raise AnchorLost("iso_ext.pl: scc_helper/3 clauses (%d)" % len(cls))

    def flat(t):
        out, st = [], [t]
        while st:
            g = st.pop()
            if g[0] == "cmp" and g[1] in (",", ";", "->") and len(g[2]) == 2:
                st.extend(reversed(g[2]))
            else:
                out.append(g)
        return out
    for idx, loop in ((0, ("run_cleaners_without_handling", 1)), (1, ("run_cleaners_with_handling", 0))):
        line, (head, body) = cls[idx]
        gs = flat(body)
        li = [i for i, g in enumerate(gs) if P.functor(g) == loop]
        ci = [i for i, g in enumerate(gs) if P.functor(g) == ("$set_cp_by_default", 1)]
        R.ob("C12:cleaner-due:scc_helper-clause-%d:own-choice-point-dropped-before-its-cleanup" % (idx + 1), bool(li) and bool(ci) and min(ci) < min(li),
             "clause %d of scc_helper/3 (line %s) runs %s/%d while the call's own choice point is still on the stack: with the strict test its cleanup is then not due"
             % (idx + 1, line, loop[0], loop[1]), "src/lib/iso_ext.pl (line %s)" % line)
