"""C04 — Arithmetic comparison is exact and self-consistent.

Decides (a) the six comparison predicates are the six correct subsets of ONE ordering function
in every instruction variant (24 dispatch arms + the name->variant->instruction tables), and
(b) that ordering function (Ord for Number) has one explicit arm per representation pair, goes
through f64 exactly when one side is a float, and PartialEq::eq uses the same conversion family
arm by arm; PartialOrd is Some(cmp).
"""
import re

from .core import AnchorLost, atom_of, hir_calls, matches_in, pat_leaves, res_name, short, walk
from . import repo

EXPLANATION = (
    "Oracle-table agreement (RF9) for the 24 number-comparison dispatch arms and the generated "
    "name->CompareNumber->Instruction tables, plus exhaustive-pair (RF10) and sibling agreement "
    "(RF1) checks of Ord/PartialEq for Number, all over the typed HIR of /repo. Decides the "
    "structure that makes the six predicates subsets of one exact ordering; does not decide "
    "dashu/num_order internals."
)
ASSUMPTIONS = ["dashu Integer/Rational Ord and num_order::NumOrd are exact", "OrderedFloat is a total order on f64"]

ORACLE = {
    "NumberLessThan": ({"Less"}, "<"),
    "NumberLessThanOrEqual": ({"Less", "Equal"}, "=<"),
    "NumberGreaterThan": ({"Greater"}, ">"),
    "NumberGreaterThanOrEqual": ({"Greater", "Equal"}, ">="),
    "NumberEqual": ({"Equal"}, "=:="),
    "NumberNotEqual": ({"Less", "Greater"}, "=\\="),
}
PREFIXES = ["Call", "Execute", "DefaultCall", "DefaultExecute"]
FLIP = {"Less": "Greater", "Greater": "Less", "Equal": "Equal"}
BINOP_SETS = {"Lt": {"Less"}, "Le": {"Less", "Equal"}, "Gt": {"Greater"}, "Ge": {"Greater", "Equal"},
              "Eq": {"Equal"}, "Ne": {"Less", "Greater"}}
NUM_CMP = "arithmetic::<impl std::cmp::Ord for forms::Number>::cmp"


def local_of(e):
    while e["k"] in ("AddrOf",) or (e["k"] == "Unary" and e.get("op") == "Deref"):
        e = e["a"]
    if e["k"] == "Path":
        return res_name(e)
    return None


def operand_bindings(arm):
    """{local: arithmetic-term parameter} from `let nX = ..get_number(at_Y)..` in the arm."""
    out = {}
    for n in walk(arm["body"]):
        if n["k"] == "Let" and n["pat"]["k"] == "PBind" and "init" in n:
            for callee, res, c in hir_calls(n["init"]):
                if res.endswith("MachineState>::get_number"):
                    args = c.get("args", [])
                    if args:
                        out[n["pat"]["name"]] = local_of(args[0])
    return out


def comparison_sites(arm):
    """(kind, left local, right local, success set, fail set) for each comparison of two locals
    through Number's ordering in the arm."""
    sites = []
    for m in matches_in(arm["body"], src=None):
        s = m["scrut"]
        if s["k"] == "MethodCall" and s["name"] in ("cmp", "partial_cmp") and (s.get("resolved") or "").endswith("for forms::Number>::" + s["name"]):
            l, r = local_of(s["recv"]), local_of(s["args"][0])
            succ, fail, other = repo.success_orderings(m)
            sites.append(("match-" + s["name"], l, r, succ, fail, other))
    for n in walk(arm["body"]):
        if n["k"] == "If":
            c = n["cond"]
            if c["k"] == "Binary" and c["op"] in BINOP_SETS and "forms::Number" in (c["a"].get("ty", "") + c["b"].get("ty", "")):
                l, r = local_of(c["a"]), local_of(c["b"])
                t = repo.arm_effect(n["then"])
                e = repo.arm_effect(n["else"]) if "else" in n else "none"
                s = BINOP_SETS[c["op"]]
                if t == "advance":
                    sites.append(("if-" + c["op"], l, r, set(s), repo.ALL_ORD - s if e == "backtrack" else set(), set()))
                elif t == "backtrack" and e == "advance":
                    sites.append(("if-" + c["op"], l, r, repo.ALL_ORD - s, set(s), set()))
    return sites


def run(ctx, R):
    F = ctx.facts()
    R.rule("RF9 oracle table for 24 comparison arms and the name/variant/instruction tables; RF10+RF1 on Ord/PartialEq for Number")
    m, arms, wild = repo.dispatch_arms(F)
    dl = repo.dispatch_loop(F)
    n_arm = 0
    for base, (oracle, opname) in ORACLE.items():
        for pre in PREFIXES:
            v = pre + base
            key = "C04:arm:%s" % v
            a = arms.get(v, [])
            if len(a) != 1:
                R.ob(key + ":exists", False, "expected exactly one dispatch arm, found %d" % len(a), F.where(dl))
                continue
            arm = a[0]
            n_arm += 1
            where = "%s:%s dispatch_loop arm %s" % (F.items[dl]["file"], arm["ln"], v)
            # parameters by position
            params = []
            for leaf in pat_leaves(arm["pat"]):
                pv = repo.strip_ref(leaf)
                if pv["k"] == "PTupleStruct":
                    params = [repo.strip_ref(q).get("name") for q in pv["pats"]]
            binds = operand_bindings(arm)
            sites = comparison_sites(arm)
            if len(sites) != 1:
                R.ob(key + ":single-comparison", False, "found %d comparisons of Number operands" % len(sites), where)
                continue
            kind, l, r, succ, fail, other = sites[0]
            pl, pr = binds.get(l), binds.get(r)
            if len(params) == 2 and pl == params[1] and pr == params[0]:
                succ = {FLIP[x] for x in succ}
                fail = {FLIP[x] for x in fail}
                order_ok = True
            else:
                order_ok = len(params) == 2 and pl == params[0] and pr == params[1]
            R.ob(key + ":operands-in-order", order_ok,
                 "compares %s(%s) with %s(%s); instruction fields %s" % (l, pl, r, pr, params), where)
            R.ob(key + ":success-set", succ == oracle,
                 "%s succeeds on %s, oracle for %s is %s" % (v, sorted(succ), opname, sorted(oracle)), where)
            R.ob(key + ":failure-set", fail == repo.ALL_ORD - oracle and not other,
                 "%s backtracks on %s (other: %s), expected %s" % (v, sorted(fail), sorted(other), sorted(repo.ALL_ORD - oracle)), where)
            R.sample({"arm": v, "via": kind, "left": pl, "right": pr, "success_on": sorted(succ)})
    R.floor("comparison arms", n_arm, 24)

    # ---- name -> CompareNumber variant (generated ClauseType::from) ---------------------------
    cf = F.find("instructions::ClauseType::from")
    name2var = {}
    for mm in matches_in(F.hir(cf)["body"], src=None):
        for arm in mm["arms"]:
            for leaf in pat_leaves(arm["pat"]):
                if leaf["k"] != "PTuple" or len(leaf["pats"]) != 2:
                    continue
                at = atom_of(leaf["pats"][0])
                ar = leaf["pats"][1]
                if at is None or ar["k"] != "PLit":
                    continue
                for n in walk(arm["body"]):
                    if n["k"] in ("Call", "Path"):
                        c = n.get("ctor") or res_name(n) or ""
                        if c.startswith("instructions::CompareNumber::"):
                            name2var[(at, int(ar["lit"]["int"]))] = c.rsplit("::", 1)[1]
    R.floor("CompareNumber names", len(name2var), 6)
    want = {(op, 2): base for base, (_, op) in ORACLE.items()}
    for k in sorted(set(want) | set(name2var)):
        R.ob("C04:name-table:%s/%d" % k, name2var.get(k) == want.get(k),
             "ClauseType::from maps %s/%d to %s, oracle %s" % (k[0], k[1], name2var.get(k), want.get(k)), F.where(cf))

    # ---- CompareNumber variant -> Instruction::Call<variant> (generated to_instr) --------------
    ti = F.find("instructions::ClauseType::to_instr")
    var2instr = {}
    for mm in matches_in(F.hir(ti)["body"], src=None):
        for arm in mm["arms"]:
            pv = None
            for n in walk(arm["pat"]):
                rn = res_name(n) or ""
                if rn.startswith("instructions::CompareNumber::"):
                    pv = rn.rsplit("::", 1)[1]
            if pv:
                for n in walk(arm["body"]):
                    c = n.get("ctor") or ""
                    if c.startswith(repo.INSTR):
                        var2instr[pv] = c[len(repo.INSTR):]
    R.floor("CompareNumber to_instr arms", len(var2instr), 6)
    for base in ORACLE:
        R.ob("C04:to_instr:%s" % base, var2instr.get(base) == "Call" + base,
             "to_instr maps CompareNumber::%s to Instruction::%s" % (base, var2instr.get(base)), F.where(ti))

    # ---- Ord / PartialEq for Number -------------------------------------------------------------
    cmpf = F.find_impl("Number", "std::cmp::Ord", "cmp")
    eqf = F.find_impl("Number", "std::cmp::PartialEq", "eq", trait_args="")
    pcf = F.find_impl("Number", "std::cmp::PartialOrd", "partial_cmp", trait_args="")
    VARS = ["Fixnum", "Integer", "Rational", "Float"]

    def pair_table(fn):
        h = F.hir(fn)
        ms = [mm for mm in matches_in(h["body"], src=None) if mm["scrut"]["k"] == "Tup"]
        if len(ms) != 1:
            raise AnchorLost("%s: expected one match over a pair, found %d" % (fn, len(ms)))
        tbl, wildc = {}, 0
        for arm in ms[0]["arms"]:
            for leaf in pat_leaves(arm["pat"]):
                if leaf["k"] != "PTuple":
                    wildc += 1
                    continue
                vs = []
                for q in leaf["pats"]:
                    q = repo.strip_ref(q)
                    rn = res_name(q) or ""
                    vs.append(rn.rsplit("::", 1)[1] if rn.startswith("forms::Number::") else "*")
                if "*" in vs:
                    wildc += 1
                tbl.setdefault(tuple(vs), []).append(arm)
        return tbl, wildc

    def family(arm):
        """'float' if the arm converts through f64 (to_f64 / `as f64` / OrderedFloat ctor), else 'exact'."""
        fl = False
        for n in walk(arm["body"]):
            if n["k"] == "Cast" and n.get("ty") == "f64":
                fl = True
            if n["k"] in ("MethodCall", "Call"):
                r = n.get("resolved") or n.get("callee") or ""
                if r.endswith("::to_f64") or "OrderedFloat" in (n.get("ctor") or ""):
                    fl = True
            if n["k"] in ("MethodCall",) and "ordered_float::OrderedFloat<f64>" in (n["recv"].get("ty") or ""):
                fl = True
        return "float" if fl else "exact"

    CMP_METHODS = {"cmp": {"cmp", "num_cmp", "partial_cmp", "num_partial_cmp"}, "eq": {"eq", "num_eq", "ne"}}

    def bound_names(p):
        return {n["name"] for n in walk(p) if n["k"] == "PBind"}

    def locals_in(e):
        return {res_name(n) for n in walk(e) if n["k"] == "Path" and "local" in (n.get("res") or {})}

    def comparison_shape(arm, nm):
        """The arm's value must be ONE comparison call whose receiver is computed from the left
        operand's binding and whose argument from the right operand's binding (for cmp the sides
        must not be swapped); wrappers unwrap_or/unwrap_or_else around a partial comparison are
        transparent. Anything else (a constant ordering, a test of one operand only) is reported."""
        leaf = [l for l in pat_leaves(arm["pat"]) if l["k"] == "PTuple"][0]
        lb, rb = bound_names(leaf["pats"][0]), bound_names(leaf["pats"][1])
        e = arm["body"]
        while e["k"] == "Block" and not e["stmts"] and "expr" in e:
            e = e["expr"]
        while e["k"] == "MethodCall" and e["name"] in ("unwrap_or", "unwrap_or_else", "unwrap"):
            e = e["recv"]
        if e["k"] == "Binary" and e["op"] in ("Eq",) and nm == "eq":
            rl, al = locals_in(e["a"]), locals_in(e["b"])
        elif e["k"] == "MethodCall" and e["name"] in CMP_METHODS[nm]:
            rl, al = locals_in(e["recv"]), set().union(*[locals_in(x) for x in e["args"]]) if e["args"] else set()
        else:
            return False, "arm value is a %s, not a comparison of the two operand values" % (e["k"] + (":" + e.get("name", "") if e["k"] == "MethodCall" else ""))
        straight = bool(rl & lb) and bool(al & rb) and not (rl & rb) and not (al & lb)
        swapped = bool(rl & rb) and bool(al & lb) and not (rl & lb) and not (al & rb)
        if straight or (swapped and nm == "eq"):
            return True, "compares %s with %s" % (sorted(rl & (lb | rb)), sorted(al & (lb | rb)))
        if swapped:
            return False, "operands are swapped: receiver built from the right operand %s, argument from the left %s" % (sorted(rl), sorted(al))
        return False, "comparison does not use both operands: receiver uses %s, argument uses %s (left binds %s, right binds %s)" % (sorted(rl), sorted(al), sorted(lb), sorted(rb))

    ctab, cw = pair_table(cmpf)
    etab, ew = pair_table(eqf)
    R.ob("C04:Number::cmp:no-wildcard", cw == 0, "%d wildcard arms" % cw, F.where(cmpf))
    R.ob("C04:Number::eq:no-wildcard", ew == 0, "%d wildcard arms" % ew, F.where(eqf))
    for a in VARS:
        for b in VARS:
            k = (a, b)
            want_f = "float" if "Float" in k else "exact"
            for nm, tab, fn in (("cmp", ctab, cmpf), ("eq", etab, eqf)):
                arms_ = tab.get(k, [])
                ok = len(arms_) == 1
                R.ob("C04:Number::%s:pair:%s-%s:explicit-arm" % (nm, a, b), ok, "%d arms" % len(arms_), F.where(fn))
                if ok:
                    shape, detail = comparison_shape(arms_[0], nm)
                    R.ob("C04:Number::%s:pair:%s-%s:compares-both-values" % (nm, a, b), shape, detail,
                         "%s:%s" % (F.items[fn]["file"], arms_[0]["ln"]))
                    fam = family(arms_[0])
                    R.ob("C04:Number::%s:pair:%s-%s:conversion" % (nm, a, b), fam == want_f,
                         "arm compares through %s values, statement prescribes %s" % (fam, want_f),
                         "%s:%s" % (F.items[fn]["file"], arms_[0]["ln"]))
            if len(ctab.get(k, [])) == 1 and len(etab.get(k, [])) == 1:
                R.ob("C04:Number:eq-vs-cmp:%s-%s" % k, family(ctab[k][0]) == family(etab[k][0]),
                     "eq uses %s, cmp uses %s" % (family(etab[k][0]), family(ctab[k][0])), F.where(eqf))
    # partial_cmp == Some(cmp)
    ph = F.hir(pcf)
    calls = [r for _, r, _ in hir_calls(ph["body"])]
    ok = cmpf in calls and any((n.get("ctor") or "").endswith("Some") for n in walk(ph["body"])) and not list(matches_in(ph["body"], src=None))
    R.ob("C04:Number::partial_cmp:is-Some-cmp", ok, "callees %s" % sorted(set(short(c) for c in calls)), F.where(pcf))
    mixed_arms_convert_once_with_the_library_conversion(F, R)


def mixed_arms_convert_once_with_the_library_conversion(F, R):
    """A number of arbitrary precision (integer or rational) is compared with a float "after converting it to a double": one
    correctly rounded conversion, the one float/1 uses (dashu's to_f64). An arm of Ord for Number that builds the double
    itself (numerator.to_f64() / denominator.to_f64(), or through an in-crate helper) rounds twice and yields NaN or inf
    when the parts overflow, so R =:= F no longer agrees with float(R) =:= F."""
    import re
    cm = F.find_impl("Number", "std::cmp::Ord", "cmp")
    body = F.hir(cm)["body"]
    n = 0
    for m in walk(body):
        if m["k"] != "Match":
            continue
        for arm in m["arms"]:
            vs = [y["res"]["def"].rsplit("::", 1)[-1] for y in walk(arm["pat"]) if y.get("k") == "PTupleStruct" and re.search(r"::Number::(Fixnum|Integer|Rational|Float)$", (y.get("res") or {}).get("def") or "")]
            if len(vs) != 2 or "Float" not in vs or not (set(vs) & {"Integer", "Rational"}):
                continue
            n += 1
            convs = [x for x in walk(arm["body"]) if x["k"] == "MethodCall" and x["name"] == "to_f64"]
            lib = [x for x in convs if re.search(r"dashu|ConvertibleTo|Approximation|EstimatedLog2|to_f64", x.get("resolved") or x.get("callee") or "") and "scryer" not in (x.get("resolved") or "")]
            local_calls = [(x.get("resolved") or x.get("callee")) for x in walk(arm["body"]) if x["k"] == "Call" and (x.get("resolved") or x.get("callee") or "") in F.items]
            fdiv = [x["ln"] for x in walk(arm["body"]) if x["k"] == "Binary" and x["op"] in ("Div", "Mul") and x.get("ty") == "f64"]
            R.ob("C04:number-cmp:%s-%s:one-library-conversion-to-double" % tuple(vs), len(convs) == 1 and len(lib) == 1 and not local_calls and not fdiv,
                 "Ord for Number, arm (%s, %s): the exact number is not converted by exactly one library to_f64() in the arm itself (conversions: %d, in-crate helpers: %s, float "
                 "arithmetic at lines %s): the comparison then disagrees with float/1 of the same number" % (vs[0], vs[1], len(convs), local_calls, fdiv), F.where(cm))
    R.floor("mixed exact/float arms of Ord for Number", n, 4)

