"""C25 — All-solutions predicates collect exactly the solutions (skeleton of findall/3,4 and forall/2 only).

Decides the collection protocol that every all-solutions predicate is built on:
  * Prolog side (src/lib/builtins.pl, src/lib/iso_ext.pl, read by plread): findall/3 and findall/4
    remember the length of the solution store ("lifted heap") *before* they start, run the
    iteration under catch/3, and on an error cut the store back to that length and re-throw; the
    iteration predicate calls the goal, copies the template to the store *after* each solution and
    fails back into the goal; its last clause (reached when the goal has no more solutions) hands
    over the solutions collected since the remembered length; forall/2 is \\+ (G, \\+ T);
  * Rust side (typed HIR): '$copy_to_lh' stores a *copy* of the template (copy_term into the lifted
    heap), '$get_lh_from_offset[_diff]' copies the stored solutions back and cuts the store back to
    the remembered length, '$truncate_lh_to' cuts to its argument, '$lh_length' reports the length.
bagof/3, setof/3 (witness grouping, a Prolog algorithm), countall/2 and call_nth/2 are not decided.
"""
import os
import re
import sys

from .core import REPO, AnchorLost, hir_calls, res_name, short, walk
from . import orframe

sys.path.insert(0, os.path.join(os.path.dirname(os.path.abspath(__file__)), ".."))
from plread import plread as P  # noqa: E402

EXPLANATION = (
    "RF3 goal-order and variable-plumbing rules over the clauses of findall/3, findall/4, '$iterate_find_all'/4, "
    "'$iterate_find_all_diff'/5, findall_cleanup/2, truncate_lh_to/1 (builtins.pl) and forall/2 (iso_ext.pl) read by "
    "plread; RF2 effect summaries of the lifted-heap primitives (typed HIR)."
)
ASSUMPTIONS = ["plread parses these predicates as the system's own reader does",
               "catch/3 and failure-driven iteration behave as C12 / C07 / C11 decide"]


def strip_mod(g):
    while g[0] == "cmp" and g[1] == ":" and len(g[2]) == 2:
        g = g[2][1]
    return g


def goals(b):
    return [strip_mod(g) for g in P.conj(b)]


def idx(gs, name, arity=None):
    for i, g in enumerate(gs):
        if g[0] in ("cmp", "atom") and g[1] == name and (arity is None or (len(g[2]) if g[0] == "cmp" else 0) == arity):
            return i
    return None


def clauses_of(path, want):
    text = open(os.path.join(REPO, path)).read()
    cl = {}
    for t, line in P.read_clauses(text):
        if t[0] == "error":
            continue
        h, b = P.head_body(t)
        f = P.functor(h)
        if f in want:
            cl.setdefault(f, []).append((h, b, line))
    for f in want:
        if f not in cl:
            raise AnchorLost("%s: %s/%d not found or not parsed" % ((path,) + f))
    return cl


def run(ctx, R):
    F = ctx.facts()
    R.rule("RF3 goal order / variable plumbing of the findall skeleton; RF2 lifted-heap primitives")
    want = {("findall", 3), ("findall", 4), ("$iterate_find_all", 4), ("$iterate_find_all_diff", 5), ("findall_cleanup", 2), ("truncate_lh_to", 1)}
    cl = clauses_of("src/lib/builtins.pl", want)
    W = lambda f, i=0: "src/lib/builtins.pl:%s %s/%d" % (cl[f][i][2], f[0], f[1])

    for f, it_name, n_sol in ((("findall", 3), "$iterate_find_all", 1), (("findall", 4), "$iterate_find_all_diff", 2)):
        cs = cl[f]
        R.ob("C25:%s/%d:one-clause" % f, len(cs) == 1, "%s/%d has %d clauses" % (f[0], f[1], len(cs)), W(f))
        h, b, _ = cs[0]
        gs = goals(b)
        i_len, i_catch = idx(gs, "$lh_length", 1), idx(gs, "catch", 3)
        ok = None not in (i_len, i_catch) and i_len < i_catch
        R.ob("C25:%s/%d:remembers-store-length-before-iterating" % f, ok,
             "%s/%d must call '$lh_length'(L) before the iteration starts; goals: %s" % (f[0], f[1], [P.show(g) for g in gs]), W(f))
        if not ok:
            continue
        L = gs[i_len][2][0]
        goal_c, err_v, rec = gs[i_catch][2]
        goal_c, rec = strip_mod(goal_c), strip_mod(rec)
        tmpl, goal = h[2][0], h[2][1]
        sols = h[2][2:]
        R.ob("C25:%s/%d:iterates-with-own-arguments" % f,
             goal_c[0] == "cmp" and goal_c[1] == it_name and goal_c[2] == [tmpl, goal] + sols + [L] and L[0] == "var" and L not in h[2],
             "the protected goal must be %s(Template, Goal, %s, L) on the head's own arguments and the remembered length; found %s" % (it_name, "Solutions" if n_sol == 1 else "S0, S1", P.show(goal_c)), W(f))
        R.ob("C25:%s/%d:error-cuts-store-back-and-rethrows" % f,
             err_v[0] == "var" and rec[0] == "cmp" and rec[1] == "findall_cleanup" and rec[2] == [L, err_v],
             "the recovery must be findall_cleanup(L, Error) with the remembered length and the caught error; found catch(_, %s, %s)" % (P.show(err_v), P.show(rec)), W(f))

    # the iteration predicates
    for f, n_sol, trunc, getlh in ((("$iterate_find_all", 4), 1, "$truncate_if_no_lh_growth", "$get_lh_from_offset"),
                                   (("$iterate_find_all_diff", 5), 2, "$truncate_if_no_lh_growth_diff", "$get_lh_from_offset_diff")):
        cs = cl[f]
        R.ob("C25:%s/%d:two-clauses" % f, len(cs) == 2, "%s/%d has %d clauses (collect clause, hand-over clause)" % (f[0], f[1], len(cs)), W(f))
        if len(cs) != 2:
            continue
        h, b, _ = cs[0]
        tmpl, goal, off = h[2][0], h[2][1], h[2][-1]
        gs = goals(b)
        i_call = next((i for i, g in enumerate(gs) if g[0] == "cmp" and "call" in P.show(g) and goal in walk_terms(g)), None)
        i_copy, i_fail = idx(gs, "$copy_to_lh", 2), idx(gs, "$fail")
        ok = None not in (i_call, i_copy, i_fail) and i_call < i_copy < i_fail and i_fail == len(gs) - 1
        R.ob("C25:%s/%d:call-copy-fail" % f, ok, "the collect clause must call the goal, then copy the template to the store, then fail; found %s" % [P.show(g) for g in gs], W(f))
        if ok:
            R.ob("C25:%s/%d:copies-the-template-at-the-remembered-offset" % f, gs[i_copy][2] == [off, tmpl] and off[0] == "var" and tmpl[0] == "var" and off != tmpl,
                 "'$copy_to_lh' must be given the head's offset and template; found %s" % P.show(gs[i_copy]), W(f))
        h, b, _ = cs[1]
        off2 = h[2][-1]
        sols2 = h[2][2:-1]
        gs = goals(b)
        i_tr, i_get = idx(gs, trunc), idx(gs, getlh)
        ok = None not in (i_tr, i_get) and i_tr < i_get
        R.ob("C25:%s/%d:hand-over-order" % f, ok, "the last clause must finish the store ('%s') and then fetch the solutions ('%s'); found %s" % (trunc, getlh, [P.show(g) for g in gs]), W(f, 1))
        if ok:
            R.ob("C25:%s/%d:hands-over-from-the-remembered-offset" % f, gs[i_get][2] == [off2] + sols2 and gs[i_tr][2][0] == off2 and off2[0] == "var",
                 "'%s' must be given the head's offset and solution argument(s); found %s" % (getlh, P.show(gs[i_get])), W(f, 1))
        R.ob("C25:%s/%d:hand-over-for-any-template-and-goal" % f, all(x[0] == "var" and x[1].startswith("_") for x in h[2][:2]),
             "the last clause must not constrain template or goal; head %s" % P.show(h), W(f, 1))

    cs = cl[("findall_cleanup", 2)]
    h, b, _ = cs[0]
    gs = goals(b)
    i_tr, i_th = idx(gs, "truncate_lh_to", 1), idx(gs, "throw", 1)
    R.ob("C25:findall_cleanup/2:cuts-back-then-rethrows", len(cs) == 1 and None not in (i_tr, i_th) and i_tr < i_th and gs[i_tr][2] == [h[2][0]] and gs[i_th][2] == [h[2][1]],
         "findall_cleanup(L, E) must be truncate_lh_to(L), throw(E); found %s" % [P.show(g) for g in gs], W(("findall_cleanup", 2)))
    cs = cl[("truncate_lh_to", 1)]
    h, b, _ = cs[0]
    gs = goals(b)
    R.ob("C25:truncate_lh_to/1:calls-primitive", len(gs) == 1 and gs[0][0] == "cmp" and gs[0][1] == "$truncate_lh_to" and gs[0][2] == h[2], "truncate_lh_to(L) :- '$truncate_lh_to'(L)", W(("truncate_lh_to", 1)))

    bagof_setof_siblings(R)
    witnesses_rule(R)
    fa = clauses_of("src/lib/iso_ext.pl", {("forall", 2)})[("forall", 2)]
    h, b, line = fa[0]
    g_, t_ = h[2]
    want_b = ("cmp", "\\+", [("cmp", ",", [g_, ("cmp", "\\+", [t_])])])
    R.ob("C25:forall/2:is-not-generate-and-not-test", len(fa) == 1 and b == want_b and g_[0] == "var" and t_[0] == "var" and g_ != t_,
         "forall(G, T) must be \\+ (G, \\+ T); found %s" % P.show(b), "src/lib/iso_ext.pl:%s forall/2" % line)

    # ---- Rust primitives ------------------------------------------------------------------------------------------
    cp = F.find_impl("Machine", None, "copy_to_lifted_heap")
    names = [r for _, r, _ in hir_calls(F.hir(cp)["body"])]
    R.ob("C25:copy_to_lh:stores-a-copy", any(re.search(r"MachineState>?::copy_findall_solution$", c) for c in names), "'$copy_to_lh' must go through copy_findall_solution; calls %s" % [short(c) for c in names], F.where(cp))
    # the copy is made at the top of the heap and moved into the solution store: every cell of it that holds a heap
    # address is rebased by the same amount — the ordinary cells in one loop, the tail cells of copied strings in another
    import json as _json
    cpb = F.hir(cp)["body"]
    lets = {x["pat"]["name"]: x["init"] for x in walk(cpb) if x["k"] == "Let" and x["pat"]["k"] == "PBind" and "init" in x}

    def canon(n, depth=0):
        if isinstance(n, list):
            return [canon(x, depth) for x in n]
        if not isinstance(n, dict):
            return n
        if n.get("k") == "Path" and depth < 4 and (res_name(n) in lets) and res_name(n) not in ("lh_offset",):
            return canon(lets[res_name(n)], depth + 1)
        if n.get("k") in ("Paren", "DropTemps") and ("e" in n):
            return canon(n["e"], depth)
        return {k: canon(v, depth) for k, v in n.items() if k not in ("ln", "mac", "span", "adj_ty")}
    rebases = [x for x in walk(cpb) if x["k"] == "AssignOp" and str(x.get("op", "")).startswith("Sub") and x["lhs"].get("k") == "Index"
               and any(y.get("k") == "Field" and y.get("name") == "lifted_heap" for y in walk(x["lhs"]["base"]))]
    forms = {_json.dumps(canon(x["rhs"]), sort_keys=True) for x in rebases}
    if len(rebases) < 2:
        raise AnchorLost("copy_to_lifted_heap: the two rebasing subtractions (%d)" % len(rebases))
    R.ob("C25:copy_to_lh:every-copied-address-rebased-by-the-same-offset", len(forms) == 1,
         "copy_to_lifted_heap subtracts %d different offsets from the cells of one copied solution (lines %s): the tail cell of a copied string then points into another solution "
         "when the store is not empty (an all-solutions call nested in another one, second outer iteration, solutions containing strings)" % (len(forms), [x["ln"] for x in rebases]), F.where(cp))
    cf = F.find_impl("MachineState", None, "copy_findall_solution")
    ch = F.hir(cf)
    calls = [(r, n) for _, r, n in hir_calls(ch["body"])]
    ct = [n for r, n in calls if r.endswith("copier::copy_term")]
    tgt = [n for r, n in calls if re.search(r"CopyBallTerm(::<.*>)?::new$", r)]
    into_lh = bool(tgt) and any(x["k"] == "Field" and x["name"] == "lifted_heap" for x in walk(tgt[0]["args"]))
    R.ob("C25:copy_findall_solution:copies-into-the-store", bool(ct) and into_lh, "copy_findall_solution must copy_term the template into the lifted heap (solutions are copies, unaffected by backtracking)", F.where(cf))
    for nm in ("get_lifted_heap_from_offset", "get_lifted_heap_from_offset_diff"):
        g = F.find_impl("Machine", None, nm)
        gh = F.hir(g)
        names = [r for _, r, _ in hir_calls(gh["body"])]
        copy_i = next((i for i, c in enumerate(names) if re.search(r"MachineState>?::copy_lifted_heap_from_offset$", c)), None)
        truncs = [n for n in walk(gh["body"]) if n["k"] == "MethodCall" and n["name"] == "truncate" and (orframe.field_chain(n["recv"]) or ["?"])[-1] == "lifted_heap"]
        R.ob("C25:%s:copies-back-then-cuts-store" % nm, copy_i is not None and len(truncs) >= 1 and all(orframe.resolve(t["args"][0], gh["body"])[-1:] != ["cell_len()"] for t in truncs),
             "'%s' must copy the stored solutions to the heap and cut the store back to the offset it was given (nested findall calls share the store)" % nm, F.where(g))
    tl = F.find_impl("Machine", None, "truncate_lifted_heap_to")
    th = F.hir(tl)
    truncs = [n for n in walk(th["body"]) if n["k"] == "MethodCall" and n["name"] == "truncate" and (orframe.field_chain(n["recv"]) or ["?"])[-1] == "lifted_heap"]
    R.ob("C25:truncate_lh_to:cuts-store-to-argument", len(truncs) == 1 and any(x["k"] in ("MethodCall", "Call") and re.search(r"deref_register$|registers", (x.get("name") or "") + (x.get("resolved") or x.get("callee") or "")) for x in walk(th["body"])),
         "'$truncate_lh_to'(L) cuts the lifted heap back to L", F.where(tl))
    ll = F.find_impl("Machine", None, "lifted_heap_length")
    lh = F.hir(ll)
    R.ob("C25:lh_length:reports-store-length", any(n["k"] == "MethodCall" and n["name"] == "cell_len" and (orframe.field_chain(n["recv"]) or ["?"])[-1] == "lifted_heap" for n in walk(lh["body"])),
         "'$lh_length' reports lifted_heap.cell_len()", F.where(ll))


def walk_terms(t):
    out = [t]
    if t[0] == "cmp":
        for a in t[2]:
            out += walk_terms(a)
    return out


def bagof_setof_siblings(R):
    """bagof/3 and setof/3 are one algorithm (collect Witness-Template pairs, make variant witnesses identical, order the
    pairs, split them into groups) and differ only in the ordering step: keysort/2 (stable, keeps duplicates and solution
    order inside a group) for bagof, sort/2 (sorts and removes duplicates) for setof. Sibling agreement: the two clauses are
    the same goal sequence with the same variable plumbing up to that one goal; the ordering step comes after the witnesses
    were made identical (sorting first separates variants that are about to be unified) and before the split."""
    cl = clauses_of("src/lib/builtins.pl", {("bagof", 3), ("setof", 3)})
    shapes = {}
    for f in (("bagof", 3), ("setof", 3)):
        cs = cl[f]
        R.ob("C25:%s/3:one-clause" % f[0], len(cs) == 1, "%s/3 has %d clauses" % (f[0], len(cs)), "src/lib/builtins.pl:%s" % cs[0][2])
        h, b, line = cs[0]
        names = {}

        def canon(t):
            if t[0] == "var":
                if t[1] == "_":
                    return ("var", "_")
                names.setdefault(t[1], "V%d" % len(names))
                return ("var", names[t[1]])
            if t[0] == "cmp":
                return ("cmp", t[1], [canon(a) for a in t[2]])
            return t
        hc = canon(("cmp", "head", h[2]))
        gs = [canon(strip_mod(g)) for g in P.conj(b)]
        shapes[f[0]] = (hc, gs, line)
    for nm, sorter in (("bagof", "keysort"), ("setof", "sort")):
        hc, gs, line = shapes[nm]
        names_ = [g[1] if g[0] in ("cmp", "atom") else "?" for g in gs]
        i_u = names_.index("unify_variant_variables") if "unify_variant_variables" in names_ else None
        i_s = names_.index(sorter) if sorter in names_ else None
        i_p = names_.index("split_by_variant") if "split_by_variant" in names_ else None
        R.ob("C25:%s/3:orders-with-%s-after-unifying-variants" % (nm, sorter), None not in (i_u, i_s, i_p) and i_u < i_s < i_p,
             "%s/3 must make variant witnesses identical (unify_variant_variables), THEN order the pairs with %s/2, THEN split them into groups; found %s: ordering first leaves "
             "the variants of one witness scattered (setof(X, p(X,Y), L) with p(2,_). p(1,_). p(2,_). gives [2,1,2])" % (nm, sorter, names_), "src/lib/builtins.pl:%s" % line)
    b_h, b_g, _ = shapes["bagof"]
    s_h, s_g, sl = shapes["setof"]
    norm = lambda gs: [("cmp", "ORDER", g[2]) if g[0] == "cmp" and g[1] in ("sort", "keysort") else g for g in gs]
    R.ob("C25:bagof-setof:same-algorithm-up-to-the-ordering-step", b_h == s_h and norm(b_g) == norm(s_g),
         "bagof/3 and setof/3 must be the same goal sequence with the same variable plumbing except keysort/2 vs sort/2; bagof: %s; setof: %s"
         % ([P.show(g) for g in b_g], [P.show(g) for g in s_g]), "src/lib/builtins.pl:%s" % sl)


def witnesses_rule(R):
    """"bagof/3 and setof/3 group solutions by the free variables not bound by ^": in findall_with_existential the grouping
    witnesses of V^Goal are the goal's free variables MINUS the quantified ones. A prefix/concatenation relation between
    the two lists (lists:append) holds only when every free variable is quantified and makes the call fail otherwise."""
    cl = clauses_of("src/lib/builtins.pl", {("findall_with_existential", 5)})[("findall_with_existential", 5)]
    h, b, line = cl[0]
    w0, w = h[2][3], h[2][4]
    defining = []
    for g in walk_terms(b):
        if g[0] == "cmp" and g[1] not in (",", ";", "->", ":", "findall_with_existential") and w in g[2] and any(w0 == a for a in g[2]):
            defining.append(g)
    if not defining:
        raise AnchorLost("findall_with_existential/5: the goal that relates Witnesses0 and Witnesses")
    rel = [g for g in defining if g[1] != "="]
    names = sorted({g[1] for g in rel})
    ok = bool(rel) and "append" not in names
    helper_ok = True
    for nm in names:
        if nm == "append":
            continue
        hc = clauses_of("src/lib/builtins.pl", {(nm, len(rel[0][2]))}).get((nm, len(rel[0][2])), [])
        txt = " ".join(P.show(x[1]) for x in hc)
        helper_ok = helper_ok and "==(" in txt     # removes by identity, not by unification
    R.ob("C25:bagof-setof:witnesses-are-free-variables-minus-quantified", ok and helper_ok,
         "findall_with_existential relates the free variables (Witnesses0), the ^-quantified ones and the grouping witnesses through %s: the witnesses must be the set difference "
         "by identity (==); with lists:append the call fails whenever a free variable is left unquantified (bagof(X, Y^f(X,Y,Z), L) fails)" % names, "src/lib/builtins.pl:%s" % line)
