"""C20 — Strings behave exactly like the character lists they denote (representation clause).

Decides representation completeness of tag dispatch: wherever term-processing code has an
explicit arm for a list cell (Lis) it also has one for the packed string cell (PStrLoc), and vice
versa, unless the site is on the exception table with a reason. A dispatch that knows one of the
two spellings of a list and lets the other fall into a default arm treats "abc" and [a,b,c]
differently. Offset arithmetic of the string encoding is not decided here.
"""
import re

from .core import AnchorLost, hir_calls, matches_in, pat_leaves, res_name, short, walk

EXPLANATION = (
    "RF10/RF1 exhaustive-sibling rule over every match on HeapCellValueTag in the crate (typed HIR, "
    "i.e. every expanded read_heap_cell!): a site naming Lis must name PStrLoc and conversely; the "
    "minority sites found on the reviewed tree were read one by one and are listed with reasons."
)
ASSUMPTIONS = ["exception reasons were assigned by reading each site; they are keyed by function, so a new one-sided dispatch in another function is reported"]

TAG = "types::HeapCellValueTag::"

# function def-path suffix -> (which side is present, reason)
EXCEPTIONS = {
    "forward_if_referent_marked": ("Lis", "heap_iter bookkeeping: forwarding markers are list-tagged cells by construction; a PStrLoc holds a byte offset and carries no mark bit"),
    "offset_as_string": ("Lis", "printer: labels cyclic sub-terms by cell offset; only Lis/Str cells can be cycle roots recorded by the cycle detector"),
    "attr_vars_of_term": ("Lis", "walks the attribute list of an attributed variable: an internal list built cell by cell, never a packed string"),
    "copy_list": ("Lis", "copier bookkeeping: detects its own forwarding marker, which is list-tagged by construction"),
    "copy_var": ("Lis", "copier bookkeeping: forwarding markers"),
    "continue_backward": ("Lis", "cycle detector pointer reversal: only Lis/Str cells are reversed"),
    "check_for_list_pairs": ("Lis", "keysort/2 type check: elements of a packed string are characters, never Key-Value pairs; probed: keysort(\"ab\",_) and keysort([a,b],_) raise the same type_error(pair, a)"),
    "match_attribute": ("Lis", "walks the attribute list of an attributed variable (internal list)"),
    "unify_structure": ("Lis", "a '.'/2 *structure* cell against a packed string falls to the failing default; no construction of a '.'/2 Str cell was found (functor/3, =../2, the reader and copy_term all build Lis cells); recorded observation"),
    "is_string_terminator": ("PStrLoc", "asks whether a cell ends a string: a Lis cell never does, the default arm answers false"),
}


def run(ctx, R):
    F = ctx.facts()
    list_walkers(F, R)
    from . import c10
    c10.blind_structure_reads(F, R, "C20")   # a Str cell is a list cell only if its functor is '.'/2
    _c20_extra(F, R)                          # two strings order like the lists they denote: whole code points are compared
    pstr_positions_advance_by_bytes(F, R)
    tail_index_from_the_terminator(F, R)
    string_locations_never_step_by_a_constant(F, R)
    literal_zero_byte_is_not_its_end(F, R)
    R.rule("RF10/RF1: every tag dispatch that names Lis names PStrLoc (and conversely) or is a listed exception")
    n_both = 0
    n_one = 0
    used = set()
    for p, it in sorted(F.items.items()):
        if it["kind"] not in ("Fn", "AssocFn") or not it["file"].startswith("src/") or "::tests::" in p or it["file"].endswith("mock_wam.rs"):
            continue
        h = F.hir(p)
        idx = 0
        for m in matches_in(h["body"], src=None):
            if m["scrut"].get("ty") != "types::HeapCellValueTag":
                continue
            tags = set()
            for arm in m["arms"]:
                for leaf in pat_leaves(arm["pat"]):
                    rn = res_name(leaf) or ""
                    if rn.startswith(TAG):
                        tags.add(rn[len(TAG):])
            has_l, has_p = "Lis" in tags, "PStrLoc" in tags
            if not (has_l or has_p):
                continue
            if has_l and has_p:
                n_both += 1
                continue
            n_one += 1
            side = "Lis" if has_l else "PStrLoc"
            fname = p.rsplit("::", 1)[-1]
            exc = EXCEPTIONS.get(fname)
            key = "C20:one-sided-dispatch:%s#%d" % (short(p), idx)
            idx += 1
            if exc and exc[0] == side:
                used.add(fname)
                R.ob(key + ":exception", True, "names only %s; listed: %s" % (side, exc[1]), "%s (line %s)" % (F.where(p), m["ln"]))
            else:
                other = "PStrLoc" if has_l else "Lis"
                R.ob(key, False,
                     "tag dispatch has an explicit arm for %s but none for %s (arms: %s): a list written as a string and the same list built from "
                     "cons cells take different paths here" % (side, other, sorted(tags)), "%s (line %s)" % (F.where(p), m["ln"]))
            R.sample({"fn": short(p), "line": m["ln"], "names": side, "tags": sorted(tags)})
    # ---- sibling agreement inside compare_pstr_slices: every TailIndex(..) handed back for slice N must be
    # computed from slice N's scanned tail AND slice N's offset inside its first cell (a suffix view such as
    # [_,_,_|T] of "abcdefgh" is not cell-aligned); compare/3, ==/2, =/2 and head unification consume it.
    cps = F.find("machine::heap::compare_pstr_slices")
    ch = F.hir(cps)
    params = [q.get("name") for q in ch["params"]]
    origin = {}   # local -> (set of slice params, is_tail, is_align)

    def locals_of(e):
        return {res_name(x) for x in walk(e) if x["k"] == "Path" and "local" in (x.get("res") or {})}

    for n in walk(ch["body"]):
        if n["k"] == "Let" and n["pat"]["k"] == "PBind" and "init" in n:
            ls = locals_of(n["init"])
            src = {l for l in ls if l in params}
            for l in ls:
                if l in origin:
                    src |= origin[l][0]
            is_tail = any(x["k"] == "Call" and "f" in x and x["f"]["k"] == "Path" and res_name(x["f"]) == "find_tail" for x in walk(n["init"])) or \
                any((x.get("resolved") or "").endswith("scan_slice_to_str") for x in walk(n["init"]) if x["k"] == "Call")
            is_align = any(x["k"] == "MethodCall" and x["name"] == "align_offset" for x in walk(n["init"]))
            origin[n["pat"]["name"]] = (src, is_tail, is_align)
    n_tail = 0
    for n in walk(ch["body"]):
        if n["k"] == "Call" and (n.get("ctor") or "").endswith("PStrContinuable::TailIndex"):
            n_tail += 1
            used = locals_of(n)
            tails = {s for l in used if l in origin and origin[l][1] for s in origin[l][0]}
            aligns = {s for l in used if l in origin and origin[l][2] for s in origin[l][0]}
            R.ob("C20:pstr-tail-index@%d" % (n["ln"] - F.items[cps]["line"]), bool(tails) and tails == aligns,
                 "TailIndex is computed from the scanned tail of %s and the cell offset of %s: the tail cell of an unaligned string view is off by "
                 "one cell when the offset of the same slice is not added (siblings add it)" % (sorted(tails) or "nothing", sorted(aligns) or "nothing"),
                 "%s (line %s)" % (F.where(cps), n["ln"]))
    R.floor("TailIndex constructions in compare_pstr_slices", n_tail, 4)
    R.floor("tag dispatches naming both list spellings", n_both, 35)
    R.floor("one-sided dispatches examined", n_one, 8)
    R.notes.append("both-sided sites: %d, one-sided sites: %d, exceptions used: %s" % (n_both, n_one, sorted(used)))


def list_walkers(F, R):
    """try_from_list collects the elements of a list for sort/2, keysort/2, atom_chars/2, ...: a list may switch between
    cons cells and packed strings at any tail. Both entry walkers (try_from_inner_list for a cons cell, try_from_partial_string
    for a packed string) must continue with ONE tail loop that knows both spellings and classifies what remains the same way
    ([] ends, a variable is an instantiation error, anything else a type error)."""
    tag = "types::HeapCellValueTag::"
    il = F.find_impl("MachineState", None, "try_from_inner_list")
    ps = F.find_impl("MachineState", None, "try_from_partial_string")

    def summary(fn):
        h = F.hir(fn)
        tags = set()
        for m in matches_in(h["body"], src=None):
            if m["scrut"].get("ty") != "types::HeapCellValueTag":
                continue
            for arm in m["arms"]:
                for leaf in pat_leaves(arm["pat"]):
                    rn = res_name(leaf) or ""
                    if rn.startswith(tag):
                        tags.add(rn[len(tag):])
        calls = {r for _, r, _ in hir_calls(h["body"])}
        return tags, calls

    def reach(fn, depth=0, seen=None):
        """functions of the walker family reachable from fn (within machine_state_impl.rs)"""
        seen = seen if seen is not None else set()
        if fn in seen or depth > 3:
            return seen
        seen.add(fn)
        for c in summary(fn)[1]:
            if c in F.items and F.items[c]["file"] == F.items[fn]["file"] and re.search(r"::try_from_|::push_pstr_chars$", c):
                reach(c, depth + 1, seen)
        return seen

    for name, fn in (("cons", il), ("string", ps)):
        fam = reach(fn)
        tags = set()
        inst = ty = False
        for f in fam:
            t, calls = summary(f)
            tags |= t
            inst = inst or any(c.endswith("::instantiation_error") for c in calls)
            ty = ty or any(c.endswith("::type_error") for c in calls)
        R.ob("C20:list-walkers:%s-walker-continues-in-both-spellings" % name, {"Lis", "PStrLoc", "Atom"} <= tags,
             "starting from a %s cell, try_from_list must be able to continue at a cons-cell tail AND at a packed-string tail (tail dispatch reached: %s): "
             "partial_string(\"ba\", L, T), T = [1,2], sort(L, S) raised type_error(list, ..) while the same list of cons cells sorts" % (name, sorted(tags)), F.where(fn))
        R.ob("C20:list-walkers:%s-walker-tail-classification" % name, inst and ty,
             "the %s walker must raise instantiation_error at an unbound tail and type_error(list, _) at any other non-list tail (inst=%s, type=%s)" % (name, inst, ty), F.where(fn))


def _c20_extra(F, R):
    from .c13 import pstr_utf8_window
    pstr_utf8_window(F, R, "C20")


def pstr_positions_advance_by_bytes(F, R):
    """A packed string is addressed by a byte location; its characters have one to four bytes. The helpers that count the
    characters of a segment keep two counters (characters, bytes); a location inside the string is the start plus the
    BYTE counter. Rule: in those helpers every `pstr_loc + x` adds a local that is accumulated from len_utf8()."""
    fns = [p for p, it in F.items.items() if it["file"] == "src/machine/system_calls.rs" and it["kind"] == "Fn" and re.search(r"::pstr_segment_char_count_(up_to|and_tail)$", p)]
    if len(fns) != 2:
        raise AnchorLost("pstr_segment_char_count helpers (%d)" % len(fns))
    n = 0
    for fn in sorted(fns):
        body = F.hir(fn)["body"]
        bytes_locals = {res_name(x["lhs"]) for x in walk(body) if x["k"] == "AssignOp" and x["lhs"].get("k") == "Path"
                        and any(y["k"] == "MethodCall" and y["name"] == "len_utf8" for y in walk(x["rhs"]))}
        for x in walk(body):
            if x["k"] == "Binary" and x["op"] == "Add" and x["a"].get("k") == "Path" and res_name(x["a"]) == "pstr_loc":
                n += 1
                other = res_name(x["b"]) if x["b"].get("k") == "Path" else None
                R.ob("C20:pstr-position:advanced-by-the-byte-counter:%s@%d" % (short(fn), x["ln"] - F.items[fn]["line"]), other in bytes_locals,
                     "%s computes a location inside the string as pstr_loc + %s; only %s are byte counts (accumulated from len_utf8()): adding a character count lands inside "
                     "a multi-byte character or short of the position (skipping the first N elements of a string with non-ASCII text resumes at the wrong place)"
                     % (short(fn), other, sorted(bytes_locals)), F.where(fn))
    R.floor("locations computed inside a packed string by the counting helpers", n, 3)



def literal_zero_byte_is_not_its_end(F, R):
    """compare_pstr_slices reports `TailIndex` for a side as soon as that side has a zero byte (or no byte) at the place where
    the comparison stopped. For a string in the heap that is the end of a segment. For the literal of a get_partial_string
    instruction (a Rust &str handed over with as_bytes()) it is either the end of the literal or a NUL character the literal
    contains: an asserted clause whose head holds a list [a,'\\x0\\'|T] is compiled to the literal "a\\x0\\". A caller that
    tells the two results apart must therefore ask the literal how much of it is left in every arm that takes the literal's
    TailIndex; otherwise the NUL ends the literal early and the clause head matches "abcd" and rejects the equal string."""
    tgt = [p for p in F.items if p.endswith("heap::compare_pstr_slices")]
    if len(tgt) != 1:
        raise AnchorLost("compare_pstr_slices (%d)" % len(tgt))
    n = 0
    for p in sorted(F.calls):
        top = re.sub(r"(::\{closure#\d+\})+$", "", p)
        if p != top or top not in F.items or not F.items[top]["file"].startswith("src/"):
            continue
        if not any((c.get("resolved") or c.get("callee")) == tgt[0] for c in F.calls[p]):
            continue
        body = F.hir(top)["body"]
        lits = set()
        for x in walk(body):
            if x["k"] == "Call" and (x.get("resolved") or x.get("callee")) == tgt[0] and len(x.get("args", [])) == 2:
                a = x["args"][1]
                if a["k"] == "MethodCall" and a["name"] == "as_bytes" and a["recv"]["k"] == "Path" and "local" in a["recv"].get("res", {}):
                    lits.add(a["recv"]["res"]["local"])
        if not lits:
            continue
        for m in walk(body):
            if m["k"] != "Match" or m["scrut"]["k"] != "Tup" or len(m["scrut"]["elems"]) != 2:
                continue
            if not all("PStrContinuable" in (e.get("ty") or "") for e in m["scrut"]["elems"]):
                continue
            for arm in m["arms"]:
                pt = arm["pat"]
                if pt["k"] != "PTuple" or len(pt["pats"]) != 2:
                    continue
                first, second = pt["pats"]
                if second["k"] != "PTupleStruct" or not second["res"].get("def", "").endswith("PStrContinuable::TailIndex"):
                    continue
                asked = False
                for y in walk(arm["body"]):
                    c = y.get("cond") if y["k"] == "If" else (y.get("init") if y["k"] == "LetCond" else None)
                    if c is None:
                        continue
                    if any(z["k"] == "Path" and z.get("res", {}).get("local") in lits for z in walk(c)):
                        asked = True
                kind = (first.get("res", {}).get("def", "") or first["k"]).rsplit("::", 1)[-1]
                n += 1
                R.ob("C20:pstr-literal:zero-byte-is-not-its-end:%s:heap-%s" % (short(top), kind), asked,
                     "%s (arm at line %s) takes the literal's TailIndex from compare_pstr_slices as the end of the literal without asking the literal how much of it is "
                     "left: a NUL inside the literal (an asserted head [a,'\\x0\\'|T]) ends it early" % (short(top), arm["ln"]), F.where(top))
    R.floor("arms taking the literal's TailIndex", n, 2)

def tail_index_from_the_terminator(F, R):
    """The tail cell of a packed string is found from the location of its terminating zero byte (Heap::pstr_tail_idx). A
    caller standing at a character gets there by adding the bytes it has walked over; handing the function the location of
    a character itself lands on the padding of the same cell for most lengths (arg(2, LastCons, T) then returns a zeroed
    cell). Every argument of pstr_tail_idx is a sum `location + bytes` (directly or through one local)."""
    tgt = [p for p in F.items if p.endswith("heap::Heap::pstr_tail_idx")]
    if len(tgt) != 1:
        raise AnchorLost("Heap::pstr_tail_idx (%d)" % len(tgt))
    n = 0
    for p, cs in sorted(F.calls.items()):
        if not any((c.get("resolved") or c.get("callee")) == tgt[0] for c in cs):
            continue
        top = re.sub(r"(::\{closure#\d+\})+$", "", p)
        if top not in F.items or not F.items[top]["file"].startswith("src/") or p != top:
            continue
        body = F.hir(top)["body"]
        lets = {x["pat"]["name"]: x["init"] for x in walk(body) if x["k"] == "Let" and x["pat"]["k"] == "PBind" and "init" in x}
        k = 0
        for x in walk(body):
            if x["k"] == "Call" and (x.get("resolved") or x.get("callee")) == tgt[0] and x.get("args"):
                a = x["args"][0]
                if a["k"] == "Path" and res_name(a) in lets:
                    a = lets[res_name(a)]
                n += 1
                R.ob("C20:pstr-tail:found-from-the-terminator:%s#%d" % (short(top), k), a["k"] == "Binary" and a.get("op") == "Add",
                     "%s calls pstr_tail_idx (line %s) with a location that has not been advanced past the last character: the tail cell of the string is then computed from "
                     "inside the string" % (short(top), x["ln"]), F.where(top))
                k += 1
    R.floor("callers of pstr_tail_idx", n, 4)


# functions that add a constant to a string location for a reason other than stepping over a character
CONSTANT_STEP_EXCEPTIONS = {
    "gc": "the sweep asks its hit set for the next recorded location AFTER this one (a range bound, not a position in the text)",
}


def string_locations_never_step_by_a_constant(F, R):
    """A location inside a packed string is a byte location and characters have one to four bytes: stepping over a character
    adds its len_utf8(). `pstr_loc + 1` is right for ASCII text only — arg(2, "éa", T) then points into the middle of the
    first character. Crate-wide: no function adds an integer literal to a local named *pstr_loc, outside the table."""
    n = 0
    lits = 0
    for p, it in sorted(F.items.items()):
        if not it["file"].startswith("src/") or it["kind"] not in ("Fn", "AssocFn"):
            continue
        try:
            body = F.hir(p)["body"]
        except AnchorLost:
            continue
        k = 0
        for x in walk(body):
            if x["k"] == "Binary" and x["op"] == "Add" and x["a"].get("k") == "Path" and re.search(r"pstr_loc$", res_name(x["a"]) or ""):
                n += 1
                if x["b"]["k"] == "Lit" and "int" in x["b"]["lit"]:
                    lits += 1
                    mod = it["file"].rsplit("/", 1)[-1][:-3]
                    R.ob("C20:pstr-position:never-stepped-by-a-constant:%s#%d" % (short(p), k), mod in CONSTANT_STEP_EXCEPTIONS,
                         "%s adds the constant %s to a string location (line %s): characters have one to four bytes, so the next character is at + len_utf8() of the one read"
                         % (short(p), x["b"]["lit"]["int"], x["ln"]), F.where(p))
                    k += 1
    R.floor("additions to a string location", n, 8)
    R.notes.append("additions to a *pstr_loc local: %d, of which %d add a literal (table: %s)" % (n, lits, CONSTANT_STEP_EXCEPTIONS))

