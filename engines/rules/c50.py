"""C50 — In-memory reading and writing match stream reading and writing (shared core).

Decides: write_term/3 and write_term_to_chars/3 obtain their printer from the same function with
the same operator table and print through the same entry; stream read_term and the from-chars
readers parse with the same parser entry and operator source, write the term to the heap with
the same function, bind the read options through the same function on success AND on end of
input, and neither side has private option handling. Equality of results beyond this sharing is
not decided.
"""
import re

from .core import AnchorLost, CallGraph, hir_calls, res_name, short, walk
from . import orframe

EXPLANATION = (
    "RF1 sibling agreement over typed HIR and the whole-crate call graph: the in-memory and the stream "
    "variants of reading/writing must call the same core functions (MachineState::write_term, "
    "HCPrinter::print, Parser::read_term with CompositeOpDir::new(op_dir, None), write_term_to_heap, "
    "read_term_body, write_read_term_options) in the same roles."
)
ASSUMPTIONS = ["ByteStream/CharReader deliver the same characters as a file stream holding the same text (C18)"]

WT = re.compile(r"MachineState>?::write_term$")
PRINT = re.compile(r"HCPrinter<.*>::print$|HCPrinter::<.*>::print$")


def called(F, fn):
    return [(short(r), n) for _, r, n in hir_calls(F.hir(fn)["body"])]


def run(ctx, R):
    F = ctx.facts()
    R.rule("RF1 shared printer construction / print entry; RF1 shared parser entry, heap writer and option writer for stream and in-memory reads")
    # ---- writing ---------------------------------------------------------------------------------------
    ws = F.find_impl("Machine", None, "write_term")
    wc = F.find_impl("Machine", None, "write_term_to_chars")
    for label, fn in (("write_term", ws), ("write_term_to_chars", wc)):
        h = F.hir(fn)
        wt = [n for _, r, n in hir_calls(h["body"]) if WT.search(r)]
        pr = [n for _, r, n in hir_calls(h["body"]) if PRINT.search(r)]
        own = [n for n in walk(h["body"]) if n["k"] in ("Struct", "Call") and "heap_print::HCPrinter" in ((n.get("ctor") or res_name(n) or "") if n["k"] == "Struct" else (n.get("resolved") or "")) and n["k"] == "Struct"]
        args_ok = len(wt) == 1 and orframe.field_chain(wt[0]["args"][0])[-2:] == ["indices", "op_dir"]
        R.ob("C50:%s:printer-from-shared-constructor" % label, len(wt) == 1 and args_ok and not own,
             "%s must obtain its printer from MachineState::write_term(&self.indices.op_dir) (same option parsing, same operator table); found %d calls, own printer constructions %d" % (label, len(wt), len(own)), F.where(fn))
        R.ob("C50:%s:prints-through-shared-entry" % label, len(pr) == 1, "%s must call HCPrinter::print exactly once (%d)" % (label, len(pr)), F.where(fn))
    # ---- reading ---------------------------------------------------------------------------------------
    cg = CallGraph(F)
    pr_entry = [p for p in F.items if p.endswith("::read_term") and F.items[p]["file"] == "src/parser/parser.rs"]
    w2h = [p for p in F.items if p.endswith("::write_term_to_heap") and F.items[p]["kind"] == "Fn"]
    if len(pr_entry) != 1 or len(w2h) != 1:
        raise AnchorLost("parser entry %s / write_term_to_heap %s" % (pr_entry, w2h))
    rs = F.find_impl("MachineState", None, "read_term")
    rd = F.find_impl("MachineState", None, "read")
    rc = F.find_impl("Machine", None, "read_term_from_chars")
    rfc = F.find_impl("Machine", None, "read_from_chars")
    helper = F.find_impl("Machine", None, "read_term_and_write_to_heap")
    for label, fn in (("stream:MachineState::read", rd), ("chars:read_term_and_write_to_heap", helper)):
        h = F.hir(fn)
        calls = [r for _, r, _ in hir_calls(h["body"])]
        R.ob("C50:%s:parser-entry" % label, pr_entry[0] in calls, "%s must parse through Parser::read_term" % label, F.where(fn))
        R.ob("C50:%s:heap-writer" % label, w2h[0] in calls, "%s must write the term with write_term_to_heap" % label, F.where(fn))
        opd = [n for _, r, n in hir_calls(h["body"]) if r.endswith("CompositeOpDir::<'a, 'b>::new") or r.endswith("CompositeOpDir::new")]
        second_none = len(opd) == 1 and (res_name(opd[0]["args"][1]) or "").endswith("::None")
        R.ob("C50:%s:operator-source" % label, second_none, "%s must read with CompositeOpDir::new(op_dir, None) (the session operator table only)" % label, F.where(fn))
        toks = [res_name(x) for x in walk(h["body"]) if x["k"] == "Path" and (res_name(x) or "").startswith("parser::parser::Tokens::")]
        R.ob("C50:%s:token-source" % label, toks == ["parser::parser::Tokens::Default"], "%s reads with %s" % (label, toks), F.where(fn))
    # success -> read_term_body ; end of input -> write_read_term_options([], [])
    for label, fn in (("stream:read_term", rs), ("chars:read_term_from_chars", rc)):
        h = F.hir(fn)
        names = [short(r) for _, r, _ in hir_calls(h["body"])]
        R.ob("C50:%s:options-bound-on-success" % label, "MachineState::read_term_body" in names, "%s must bind term and read options through read_term_body" % label, F.where(fn))
        R.ob("C50:%s:options-bound-on-end-of-input" % label, "MachineState::write_read_term_options" in names,
             "%s must bind variable_names/variables/singletons to [] when the input is exhausted (write_read_term_options(vec![], [])), as the other reader does" % label, F.where(fn))
    seen = cg.reach([rc, rfc])
    R.ob("C50:chars-readers:reach-shared-helper", helper in seen and pr_entry[0] in seen, "read_term_from_chars / read_from_chars must go through the shared helper and Parser::read_term", F.where(rc))
    # end_of_file atom on exhausted input in both
    def eof_atom(fn):
        from .core import atom_of
        return any(atom_of(x) == "end_of_file" for x in walk(F.hir(fn)["body"]))
    R.ob("C50:chars:end_of_file-term", eof_atom(helper), "exhausted text must read as end_of_file", F.where(helper))
    fabricated_names(R)
    term_unified_after_options(R)


def fabricated_names(R):
    """write_term_to_chars/3 names every variable the caller did not name (charsio.pl). The text denotes the term only if
    the fabricated names are distinct from each other and from the caller's, which rests on two small pieces of
    arithmetic in Prolog: (a) fabricate_var_name/3 writes N in a letter + N // 26 notation — the letter comes from N mod
    D, the suffix from N // D with the same D, and the suffix is left out exactly when the quotient is zero; (b)
    make_new_var_name/6 threads a counter: when a fabricated name is already taken it retries with the next number and the
    counter handed back is the one after the name finally chosen."""
    import os
    import sys
    sys.path.insert(0, os.path.dirname(os.path.dirname(os.path.abspath(__file__))))
    from plread import plread as P
    from .core import REPO
    rel = "src/lib/charsio.pl"
    text = open(os.path.join(REPO, rel)).read()
    cl = {}
    for t, line in P.read_clauses(text):
        head, body = P.head_body(t)
        f = P.functor(head)
        if f in (("fabricate_var_name", 3), ("make_new_var_name", 6)):
            cl.setdefault(f, []).append((line, head, body))
    if set(cl) != {("fabricate_var_name", 3), ("make_new_var_name", 6)} or any(len(v) != 1 for v in cl.values()):
        raise AnchorLost("charsio.pl: fabricate_var_name/3 and make_new_var_name/6 (one clause each) not found: %s" % {k: len(v) for k, v in cl.items()})

    def goals(t):
        out, st = [], [t]
        while st:
            g = st.pop()
            if g[0] == "cmp" and g[1] in (",", ";", "->") and len(g[2]) == 2:
                st.extend(reversed(g[2]))
            else:
                out.append(g)
        return out

    def conds(t):
        """conditions of if-then-elses at the control level"""
        out, st = [], [t]
        while st:
            g = st.pop()
            if g[0] == "cmp" and g[1] == "->" and len(g[2]) == 2:
                out.append(g[2][0])
                st.append(g[2][1])
            elif g[0] == "cmp" and g[1] in (",", ";") and len(g[2]) == 2:
                st.extend(g[2])
        return out
    # (a)
    line, head, body = cl[("fabricate_var_name", 3)][0]
    n = head[2][2]
    gs = goals(body)
    mods = [(g[2][0], y[2][1]) for g in gs if P.functor(g) == ("is", 2) for y in [x for x in _sub(g[2][1]) if x[0] == "cmp" and x[1] == "mod" and len(x[2]) == 2 and x[2][0] == n]]
    divs = [(g[2][0], g[2][1][2][1]) for g in gs if P.functor(g) == ("is", 2) and g[2][1][0] == "cmp" and g[2][1][1] == "//" and g[2][1][2][0] == n]
    guard = None
    for c in conds(body):
        if c[0] == "cmp" and len(c[2]) == 2:
            a, b = c[2]
            if c[1] in ("=:=", "==") and divs and a == divs[0][0] and b == ("int", 0):
                guard = ("quotient-is-zero", None)
            elif a == n and b[0] == "int" and c[1] in ("<", "@<"):
                guard = ("below", b[1])
            elif a == n and b[0] == "int" and c[1] in ("=<", "@=<"):
                guard = ("below", b[1] + 1)
    ok = len(mods) == 1 and len(divs) == 1 and mods[0][1][0] == "int" and mods[0][1] == divs[0][1] and guard is not None and \
        (guard[0] == "quotient-is-zero" or guard[1] == mods[0][1][1])
    R.ob("C50:fabricated-names:letter-and-suffix-use-one-radix", ok,
         "fabricate_var_name/3: letter from N mod %s, suffix from N // %s, suffix omitted when %s: with different radices or a guard that is not `quotient = 0` two numbers "
         "get the same name (the 27th variable is called A again) and the text written by write_term_to_chars/3 denotes another term"
         % ([P.show(m[1]) for m in mods], [P.show(d[1]) for d in divs], guard), "%s (line %s)" % (rel, line))
    # (b)
    line, head, body = cl[("make_new_var_name", 6)][0]
    n_in, n_out = head[2][3], head[2][4]
    its = [c for c in _sub(body) if c[0] == "cmp" and c[1] == ";" and len(c[2]) == 2 and c[2][0][0] == "cmp" and c[2][0][1] == "->"]
    if len(its) != 1:
        raise AnchorLost("make_new_var_name/6: one if-then-else expected (%d)" % len(its))
    then, els = its[0][2][0][2][1], its[0][2][1]
    rec = [g for g in goals(then) if P.functor(g) == ("make_new_var_name", 6)]
    nxt = [g for g in goals(then) if P.functor(g) == ("is", 2) and g[2][1] == ("cmp", "+", [n_in, ("int", 1)])]
    rec_ok = len(rec) == 1 and len(nxt) == 1 and rec[0][2][3] == nxt[0][2][0] and rec[0][2][4] == n_out
    els_out = [g for g in goals(els) if P.functor(g) == ("is", 2) and g[2][0] == n_out and g[2][1] == ("cmp", "+", [n_in, ("int", 1)])]
    outside = [g for g in goals(body) if P.functor(g) == ("is", 2) and g[2][0] == n_out and g not in goals(then) and g not in goals(els)]
    R.ob("C50:fabricated-names:counter-is-the-one-after-the-name-taken", rec_ok and len(els_out) == 1 and not outside,
         "make_new_var_name/6: when the fabricated name is taken the retry must run with N + 1 and hand ITS resulting counter back (recursive call ok: %s), otherwise "
         "the counter is N + 1 (else branch ok: %s; counter computed outside the branches: %s): a counter that falls behind gives the next variable the name just used"
         % (rec_ok, len(els_out) == 1, bool(outside)), "%s (line %s)" % (rel, line))


def _sub(t):
    yield t
    if t[0] == "cmp":
        for a in t[2]:
            yield from _sub(a)


def term_unified_after_options(R):
    """read_term(S, T, Options): variables/1, variable_names/1 and singletons/1 describe the term READ; only then is that
    term unified with T. A T that is already partly instantiated must not change them. Both Prolog wrappers (stream and
    from-chars) hand the primitive a fresh variable and unify the caller's term afterwards."""
    import os
    import sys
    sys.path.insert(0, os.path.dirname(os.path.dirname(os.path.abspath(__file__))))
    from plread import plread as P
    from .core import REPO
    for rel, f, prim in (("src/lib/builtins.pl", ("read_term", 3), "$read_term"), ("src/lib/charsio.pl", ("read_term_from_chars", 3), "$read_term_from_chars")):
        text = open(os.path.join(REPO, rel)).read()
        cls = []
        for t, line in P.read_clauses(text):
            head, body = P.head_body(t)
            if P.functor(head) == f:
                cls.append((line, head, body))
        if len(cls) != 1:
            raise AnchorLost("%s: %s/%d (%d clauses)" % (rel, f[0], f[1], len(cls)))
        line, head, body = cls[0]
        term = head[2][1]
        gs = P.conj(body)
        pi = [i for i, g in enumerate(gs) if g[0] == "cmp" and g[1] == prim]
        if len(pi) != 1:
            raise AnchorLost("%s: %s/%d does not call %s once" % (rel, f[0], f[1], prim))
        parg = gs[pi[0]][2][1]
        later = [g for g in gs[pi[0] + 1:] if g[0] == "cmp" and g[1] == "=" and len(g[2]) == 2 and set(map(str, g[2])) == {str(term), str(parg)}]
        R.ob("C50:term-argument-unified-after-the-options-are-made:%s/%d" % f, parg[0] == "var" and parg != term and len(later) == 1,
             "%s/%d hands its own Term argument to %s: the primitive unifies it with the term read before it makes the variable lists, so a variable of the text that meets an "
             "instantiated part of Term is missing from them (f(X,Y). read into f(a,_) reports ['Y'=_] where the other reader reports ['X'=a,'Y'=_])" % (f[0], f[1], prim),
             "%s (line %s)" % (rel, line))
