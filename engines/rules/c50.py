"""C50 — In-memory reading and writing match stream reading and writing (shared core).

Decides: write_term/3 and write_term_to_chars/3 obtain their printer from the same function with
the same operator table and print through the same entry; stream read_term and the from-chars
readers parse with the same parser entry and operator source, write the term to the heap with
the same function, bind the read options through the same function on success AND on end of
input, and neither side has private option handling. Equality of results beyond this sharing is
not decided.
"""
import re

from .core import AnchorLost, CallGraph, hir_calls, res_name, short, walk
from . import orframe

EXPLANATION = (
    "RF1 sibling agreement over typed HIR and the whole-crate call graph: the in-memory and the stream "
    "variants of reading/writing must call the same core functions (MachineState::write_term, "
    "HCPrinter::print, Parser::read_term with CompositeOpDir::new(op_dir, None), write_term_to_heap, "
    "read_term_body, write_read_term_options) in the same roles."
)
ASSUMPTIONS = ["ByteStream/CharReader deliver the same characters as a file stream holding the same text (C18)"]

WT = re.compile(r"MachineState>?::write_term$")
PRINT = re.compile(r"HCPrinter<.*>::print$|HCPrinter::<.*>::print$")


def called(F, fn):
    return [(short(r), n) for _, r, n in hir_calls(F.hir(fn)["body"])]


def run(ctx, R):
    F = ctx.facts()
    R.rule("RF1 shared printer construction / print entry; RF1 shared parser entry, heap writer and option writer for stream and in-memory reads")
    # ---- writing ---------------------------------------------------------------------------------------
    ws = F.find_impl("Machine", None, "write_term")
    wc = F.find_impl("Machine", None, "write_term_to_chars")
    for label, fn in (("write_term", ws), ("write_term_to_chars", wc)):
        h = F.hir(fn)
        wt = [n for _, r, n in hir_calls(h["body"]) if WT.search(r)]
        pr = [n for _, r, n in hir_calls(h["body"]) if PRINT.search(r)]
        own = [n for n in walk(h["body"]) if n["k"] in ("Struct", "Call") and "heap_print::HCPrinter" in ((n.get("ctor") or res_name(n) or "") if n["k"] == "Struct" else (n.get("resolved") or "")) and n["k"] == "Struct"]
        args_ok = len(wt) == 1 and orframe.field_chain(wt[0]["args"][0])[-2:] == ["indices", "op_dir"]
        R.ob("C50:%s:printer-from-shared-constructor" % label, len(wt) == 1 and args_ok and not own,
             "%s must obtain its printer from MachineState::write_term(&self.indices.op_dir) (same option parsing, same operator table); found %d calls, own printer constructions %d" % (label, len(wt), len(own)), F.where(fn))
        R.ob("C50:%s:prints-through-shared-entry" % label, len(pr) == 1, "%s must call HCPrinter::print exactly once (%d)" % (label, len(pr)), F.where(fn))
    # ---- reading ---------------------------------------------------------------------------------------
    cg = CallGraph(F)
    pr_entry = [p for p in F.items if p.endswith("::read_term") and F.items[p]["file"] == "src/parser/parser.rs"]
    w2h = [p for p in F.items if p.endswith("::write_term_to_heap") and F.items[p]["kind"] == "Fn"]
    if len(pr_entry) != 1 or len(w2h) != 1:
        raise AnchorLost("parser entry %s / write_term_to_heap %s" % (pr_entry, w2h))
    rs = F.find_impl("MachineState", None, "read_term")
    rd = F.find_impl("MachineState", None, "read")
    rc = F.find_impl("Machine", None, "read_term_from_chars")
    rfc = F.find_impl("Machine", None, "read_from_chars")
    helper = F.find_impl("Machine", None, "read_term_and_write_to_heap")
    for label, fn in (("stream:MachineState::read", rd), ("chars:read_term_and_write_to_heap", helper)):
        h = F.hir(fn)
        calls = [r for _, r, _ in hir_calls(h["body"])]
        R.ob("C50:%s:parser-entry" % label, pr_entry[0] in calls, "%s must parse through Parser::read_term" % label, F.where(fn))
        R.ob("C50:%s:heap-writer" % label, w2h[0] in calls, "%s must write the term with write_term_to_heap" % label, F.where(fn))
        opd = [n for _, r, n in hir_calls(h["body"]) if r.endswith("CompositeOpDir::<'a, 'b>::new") or r.endswith("CompositeOpDir::new")]
        second_none = len(opd) == 1 and (res_name(opd[0]["args"][1]) or "").endswith("::None")
        R.ob("C50:%s:operator-source" % label, second_none, "%s must read with CompositeOpDir::new(op_dir, None) (the session operator table only)" % label, F.where(fn))
        toks = [res_name(x) for x in walk(h["body"]) if x["k"] == "Path" and (res_name(x) or "").startswith("parser::parser::Tokens::")]
        R.ob("C50:%s:token-source" % label, toks == ["parser::parser::Tokens::Default"], "%s reads with %s" % (label, toks), F.where(fn))
    # success -> read_term_body ; end of input -> write_read_term_options([], [])
    for label, fn in (("stream:read_term", rs), ("chars:read_term_from_chars", rc)):
        h = F.hir(fn)
        names = [short(r) for _, r, _ in hir_calls(h["body"])]
        R.ob("C50:%s:options-bound-on-success" % label, "MachineState::read_term_body" in names, "%s must bind term and read options through read_term_body" % label, F.where(fn))
        R.ob("C50:%s:options-bound-on-end-of-input" % label, "MachineState::write_read_term_options" in names,
             "%s must bind variable_names/variables/singletons to [] when the input is exhausted (write_read_term_options(vec![], [])), as the other reader does" % label, F.where(fn))
    seen = cg.reach([rc, rfc])
    R.ob("C50:chars-readers:reach-shared-helper", helper in seen and pr_entry[0] in seen, "read_term_from_chars / read_from_chars must go through the shared helper and Parser::read_term", F.where(rc))
    # end_of_file atom on exhausted input in both
    def eof_atom(fn):
        from .core import atom_of
        return any(atom_of(x) == "end_of_file" for x in walk(F.hir(fn)["body"]))
    R.ob("C50:chars:end_of_file-term", eof_atom(helper), "exhausted text must read as end_of_file", F.where(helper))
