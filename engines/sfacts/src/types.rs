// Type facts: enums, structs, impls, evaluated consts.
use crate::json::J;
use rustc_hir::def::DefKind;
use rustc_hir::{ImplItemKind, ItemKind};
use rustc_middle::ty::{self, Ty, TyCtxt};

pub fn ty_str<'tcx>(t: Ty<'tcx>) -> String {
    ty::print::with_no_trimmed_paths!(format!("{}", t))
}

fn const_val<'tcx>(tcx: TyCtxt<'tcx>, did: rustc_hir::def_id::DefId) -> J {
    let generics = tcx.generics_of(did);
    if generics.count() != 0 {
        return J::Null;
    }
    match tcx.const_eval_poly(did) {
        Ok(cv) => {
            if let Some(s) = cv.try_to_scalar_int() {
                let ty = tcx.type_of(did).instantiate_identity().skip_norm_wip();
                let bits = s.to_bits_unchecked();
                let size = s.size();
                let signed = matches!(ty.kind(), ty::Int(_));
                let v: i128 = if signed {
                    size.sign_extend(bits) as i128
                } else {
                    bits as i128
                };
                J::Obj(vec![
                    ("int", J::Str(v.to_string())),
                    ("ty", J::Str(ty_str(ty))),
                ])
            } else {
                J::Null
            }
        }
        Err(_) => J::Null,
    }
}

pub fn dump<'tcx>(tcx: TyCtxt<'tcx>) -> J {
    let mut enums = vec![];
    let mut structs = vec![];
    let mut impls = vec![];
    let mut consts = vec![];
    let mut statics = vec![];
    for id in tcx.hir_free_items() {
        let item = tcx.hir_item(id);
        let did = item.owner_id.def_id;
        let path = tcx.def_path_str(did.to_def_id());
        let (file, line) = crate::loc(tcx, item.span);
        match &item.kind {
            ItemKind::Enum(..) => {
                let adt = tcx.adt_def(did);
                let mut vs = vec![];
                for (vi, discr) in adt.discriminants(tcx) {
                    let vd = adt.variant(vi);
                    let fields: Vec<J> = vd
                        .fields
                        .iter()
                        .map(|f| {
                            J::Arr(vec![
                                J::Str(f.name.to_string()),
                                J::Str(ty_str(
                                    tcx.type_of(f.did).instantiate_identity().skip_norm_wip(),
                                )),
                            ])
                        })
                        .collect();
                    vs.push(J::Obj(vec![
                        ("name", J::Str(vd.name.to_string())),
                        ("discr", J::Str(discr.val.to_string())),
                        ("fields", J::Arr(fields)),
                    ]));
                }
                enums.push(J::Obj(vec![
                    ("path", J::Str(path)),
                    ("file", J::Str(file)),
                    ("line", J::n(line as i128)),
                    ("variants", J::Arr(vs)),
                ]));
            }
            ItemKind::Struct(..) | ItemKind::Union(..) => {
                let adt = tcx.adt_def(did);
                let vd = adt.non_enum_variant();
                let fields: Vec<J> = vd
                    .fields
                    .iter()
                    .map(|f| {
                        J::Arr(vec![
                            J::Str(f.name.to_string()),
                            J::Str(ty_str(
                                tcx.type_of(f.did).instantiate_identity().skip_norm_wip(),
                            )),
                        ])
                    })
                    .collect();
                structs.push(J::Obj(vec![
                    ("path", J::Str(path)),
                    ("file", J::Str(file)),
                    ("line", J::n(line as i128)),
                    ("fields", J::Arr(fields)),
                ]));
            }
            ItemKind::Impl(imp) => {
                let st = tcx.type_of(did).instantiate_identity().skip_norm_wip();
                let mut v = vec![
                    ("self_ty", J::Str(ty_str(st))),
                    ("file", J::Str(file)),
                    ("line", J::n(line as i128)),
                    (
                        "derived",
                        J::Bool(tcx.is_automatically_derived(did.to_def_id())),
                    ),
                ];
                if let Some(tr) = tcx.impl_opt_trait_ref(did.to_def_id()) {
                    let tr = tr.instantiate_identity().skip_norm_wip();
                    v.push(("trait", J::Str(tcx.def_path_str(tr.def_id))));
                    v.push(("trait_ref", J::Str(format!("{:?}", tr))));
                }
                let mut its = vec![];
                for ii in imp.items {
                    let iid = ii.owner_id.def_id;
                    let ipath = tcx.def_path_str(iid.to_def_id());
                    let it = tcx.hir_impl_item(*ii);
                    let k = match it.kind {
                        ImplItemKind::Const(..) => {
                            consts.push(J::Obj(vec![
                                ("path", J::Str(ipath.clone())),
                                ("val", const_val(tcx, iid.to_def_id())),
                            ]));
                            "const"
                        }
                        ImplItemKind::Fn(..) => "fn",
                        ImplItemKind::Type(..) => "type",
                    };
                    its.push(J::Arr(vec![J::Str(ipath), J::s(k)]));
                }
                v.push(("items", J::Arr(its)));
                impls.push(J::Obj(v));
            }
            ItemKind::Const(..) => {
                consts.push(J::Obj(vec![
                    ("path", J::Str(path)),
                    ("file", J::Str(file)),
                    ("line", J::n(line as i128)),
                    ("val", const_val(tcx, did.to_def_id())),
                ]));
            }
            ItemKind::Static(..) => {
                let t = tcx.type_of(did).instantiate_identity().skip_norm_wip();
                statics.push(J::Obj(vec![
                    ("path", J::Str(path)),
                    ("ty", J::Str(ty_str(t))),
                ]));
            }
            _ => {}
        }
        let _ = DefKind::Fn;
    }
    J::Obj(vec![
        ("enums", J::Arr(enums)),
        ("structs", J::Arr(structs)),
        ("impls", J::Arr(impls)),
        ("consts", J::Arr(consts)),
        ("statics", J::Arr(statics)),
    ])
}
