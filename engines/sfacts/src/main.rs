// sfacts: rustc_private driver that dumps the resolved program (items, MIR, typed HIR, type
// facts) of selected crates as JSON. Used through RUSTC_WORKSPACE_WRAPPER under `cargo +nightly
// check`. Environment: SFACTS_OUT (directory), SFACTS_CRATES (comma list of crate names,
// default "scryer_prolog,build_script_main").
#![feature(rustc_private)]
#![allow(clippy::all)]

extern crate rustc_abi;
extern crate rustc_ast;
extern crate rustc_driver;
extern crate rustc_hir;
extern crate rustc_interface;
extern crate rustc_middle;
extern crate rustc_span;

mod hirdump;
mod json;
mod mirdump;
mod types;

use json::J;
use rustc_driver::Compilation;
use rustc_hir::def::DefKind;
use rustc_interface::interface::Compiler;
use rustc_middle::ty::TyCtxt;
use rustc_span::def_id::LOCAL_CRATE;
use std::collections::BTreeMap;

struct Cb;

impl rustc_driver::Callbacks for Cb {
    fn after_analysis<'tcx>(&mut self, _c: &Compiler, tcx: TyCtxt<'tcx>) -> Compilation {
        let name = tcx.crate_name(LOCAL_CRATE).to_string();
        let wanted = std::env::var("SFACTS_CRATES")
            .unwrap_or_else(|_| "scryer_prolog,build_script_main".to_string());
        if wanted.split(',').any(|w| w == name) {
            if let Ok(out) = std::env::var("SFACTS_OUT") {
                emit(tcx, &name, &out);
            }
        }
        Compilation::Continue
    }
}

pub fn loc<'tcx>(tcx: TyCtxt<'tcx>, span: rustc_span::Span) -> (String, usize) {
    let sp = span.source_callsite();
    let sm = tcx.sess.source_map();
    let p = sm.lookup_char_pos(sp.lo());
    let f = match &p.file.name {
        rustc_span::FileName::Real(r) => match r.local_path() {
            Some(p) => p.to_string_lossy().to_string(),
            None => format!("{:?}", r),
        },
        o => format!("{:?}", o),
    };
    (f, p.line)
}

/// Expansion chain of a span, innermost first: (macro name, call-site snippet (truncated)).
pub fn mac_chain<'tcx>(tcx: TyCtxt<'tcx>, span: rustc_span::Span) -> Vec<(String, String)> {
    let mut v = vec![];
    let mut sp = span;
    let sm = tcx.sess.source_map();
    let mut n = 0;
    while sp.from_expansion() && n < 12 {
        let d = sp.ctxt().outer_expn_data();
        let name = match d.kind {
            rustc_span::hygiene::ExpnKind::Macro(_, s) => s.to_string(),
            rustc_span::hygiene::ExpnKind::Desugaring(k) => format!("desugar:{:?}", k),
            rustc_span::hygiene::ExpnKind::AstPass(k) => format!("astpass:{:?}", k),
            rustc_span::hygiene::ExpnKind::Root => "root".to_string(),
        };
        let mut snip = sm.span_to_snippet(d.call_site).unwrap_or_default();
        if snip.len() > 96 {
            let mut cut = 96;
            while !snip.is_char_boundary(cut) {
                cut -= 1;
            }
            snip.truncate(cut);
        }
        v.push((name, snip));
        sp = d.call_site;
        n += 1;
    }
    v
}

fn emit<'tcx>(tcx: TyCtxt<'tcx>, crate_name: &str, out: &str) {
    let dir = format!("{}/{}", out, crate_name);
    let _ = std::fs::remove_dir_all(&dir);
    std::fs::create_dir_all(&dir).unwrap();

    let mut items: Vec<J> = vec![];
    // per source file: list of body facts
    let mut mir_by_file: BTreeMap<String, Vec<J>> = BTreeMap::new();
    let mut hir_by_file: BTreeMap<String, Vec<J>> = BTreeMap::new();
    let mut calls: Vec<J> = vec![];
    let mut nbodies = 0usize;

    for did in tcx.hir_body_owners() {
        let kind = tcx.def_kind(did);
        let path = tcx.def_path_str(did.to_def_id());
        let span = tcx.def_span(did);
        let (file, line) = loc(tcx, span);
        let full_span = tcx.hir_span_with_body(tcx.local_def_id_to_hir_id(did));
        let (_, line_end) = {
            let sm = tcx.sess.source_map();
            let p = sm.lookup_char_pos(full_span.source_callsite().hi());
            (0, p.line)
        };
        let mut it = vec![
            ("path", J::s(&path)),
            ("kind", J::s(&format!("{:?}", kind))),
            ("file", J::s(&file)),
            ("line", J::n(line as i128)),
            ("line_end", J::n(line_end as i128)),
            ("from_macro", J::Bool(span.from_expansion())),
        ];
        let parent = tcx.local_parent(did);
        it.push(("parent", J::s(&tcx.def_path_str(parent.to_def_id()))));
        match kind {
            DefKind::Fn | DefKind::AssocFn => {
                let sig = tcx.fn_sig(did).instantiate_identity().skip_norm_wip();
                let sig = sig.skip_binder();
                let ins: Vec<J> = sig
                    .inputs()
                    .iter()
                    .map(|t| J::s(&types::ty_str(*t)))
                    .collect();
                it.push(("inputs", J::Arr(ins)));
                it.push(("output", J::s(&types::ty_str(sig.output()))));
                it.push((
                    "vis",
                    J::s(&format!("{:?}", tcx.visibility(did.to_def_id()))),
                ));
                if kind == DefKind::AssocFn {
                    if let Some(imp) = tcx.impl_of_assoc(did.to_def_id()) {
                        let st = tcx.type_of(imp).instantiate_identity().skip_norm_wip();
                        it.push(("self_ty", J::s(&types::ty_str(st))));
                        if let Some(tr) = tcx.impl_opt_trait_ref(imp) {
                            let tr = tr.instantiate_identity().skip_norm_wip();
                            it.push(("trait", J::s(&tcx.def_path_str(tr.def_id))));
                            it.push(("trait_ref", J::s(&format!("{:?}", tr))));
                        }
                    } else if let Some(tr) = tcx.trait_of_assoc(did.to_def_id()) {
                        it.push(("in_trait", J::s(&tcx.def_path_str(tr))));
                    }
                }
            }
            _ => {}
        }
        let has_mir = matches!(
            kind,
            DefKind::Fn | DefKind::AssocFn | DefKind::Closure | DefKind::SyntheticCoroutineBody
        );
        if has_mir {
            let body = tcx.optimized_mir(did.to_def_id());
            let (mj, cj) = mirdump::dump(tcx, did, body);
            calls.push(J::Obj(vec![("path", J::s(&path)), ("calls", cj)]));
            mir_by_file
                .entry(file.clone())
                .or_default()
                .push(J::Obj(vec![("path", J::s(&path)), ("mir", mj)]));
        }
        if kind != DefKind::Closure && kind != DefKind::SyntheticCoroutineBody {
            let hj = hirdump::dump(tcx, did);
            hir_by_file
                .entry(file.clone())
                .or_default()
                .push(J::Obj(vec![("path", J::s(&path)), ("hir", hj)]));
        }
        items.push(J::Obj(it));
        nbodies += 1;
    }

    let tj = types::dump(tcx);

    // file naming: sanitised relative path
    let sanitize = |f: &str| -> String {
        f.chars()
            .map(|c| if c.is_ascii_alphanumeric() { c } else { '_' })
            .collect()
    };
    let mut files_idx: Vec<J> = vec![];
    for (f, v) in mir_by_file {
        let name = format!("mir__{}.json", sanitize(&f));
        std::fs::write(format!("{}/{}", dir, name), J::Arr(v).to_string()).unwrap();
        files_idx.push(J::Obj(vec![
            ("file", J::s(&f)),
            ("kind", J::s("mir")),
            ("name", J::s(&name)),
        ]));
    }
    for (f, v) in hir_by_file {
        let name = format!("hir__{}.json", sanitize(&f));
        std::fs::write(format!("{}/{}", dir, name), J::Arr(v).to_string()).unwrap();
        files_idx.push(J::Obj(vec![
            ("file", J::s(&f)),
            ("kind", J::s("hir")),
            ("name", J::s(&name)),
        ]));
    }
    std::fs::write(format!("{}/calls.json", dir), J::Arr(calls).to_string()).unwrap();
    std::fs::write(format!("{}/types.json", dir), tj.to_string()).unwrap();
    let idx = J::Obj(vec![
        ("crate", J::s(crate_name)),
        ("nbodies", J::n(nbodies as i128)),
        ("items", J::Arr(items)),
        ("files", J::Arr(files_idx)),
    ]);
    // index.json written last: its presence means the dump is complete.
    std::fs::write(format!("{}/index.json", dir), idx.to_string()).unwrap();
}

fn main() {
    let mut args: Vec<String> = std::env::args().collect();
    // RUSTC_WORKSPACE_WRAPPER passes the real rustc path as argv[1]
    if args.len() > 1 && (args[1].ends_with("rustc") || args[1].contains("/rustc")) {
        args.remove(1);
    }
    rustc_driver::run_compiler(&args, &mut Cb);
}
