// MIR facts of one body + its call edges.
use crate::json::J;
use crate::types::ty_str;
use rustc_hir::def_id::LocalDefId;
use rustc_middle::mir::*;
use rustc_middle::ty::{self, Instance, TyCtxt, TypingEnv};

struct Cx<'a, 'tcx> {
    tcx: TyCtxt<'tcx>,
    body: &'a Body<'tcx>,
    env: TypingEnv<'tcx>,
    calls: Vec<J>,
    file: String,
}

fn path_of<'tcx>(tcx: TyCtxt<'tcx>, did: rustc_hir::def_id::DefId) -> String {
    ty::print::with_no_trimmed_paths!(tcx.def_path_str(did))
}

impl<'a, 'tcx> Cx<'a, 'tcx> {
    fn line(&self, si: SourceInfo) -> (usize, Vec<String>, bool) {
        let (f, l) = crate::loc(self.tcx, si.span);
        let macs: Vec<String> = if si.span.from_expansion() {
            crate::mac_chain(self.tcx, si.span)
                .into_iter()
                .map(|(n, _)| n)
                .collect()
        } else {
            vec![]
        };
        (l, macs, f == self.file)
    }

    fn place(&self, p: &Place<'tcx>) -> J {
        let mut v = vec![J::n(p.local.as_usize() as i128)];
        for (base, elem) in p.iter_projections() {
            match elem {
                ProjectionElem::Deref => v.push(J::s("*")),
                ProjectionElem::Field(f, _) => {
                    let pt = base.ty(&self.body.local_decls, self.tcx);
                    let mut name = format!(".{}", f.as_usize());
                    if let ty::Adt(def, _) = pt.ty.kind() {
                        if def.is_struct() || def.is_union() || def.is_enum() {
                            let vi = pt.variant_index.unwrap_or(rustc_abi::FIRST_VARIANT);
                            if vi.as_usize() < def.variants().len() {
                                let vd = def.variant(vi);
                                if f.as_usize() < vd.fields.len() {
                                    name = format!(".{}", vd.fields[f].name);
                                }
                            }
                        }
                    }
                    v.push(J::Str(name));
                }
                ProjectionElem::Index(l) => v.push(J::Str(format!("[_{}]", l.as_usize()))),
                ProjectionElem::ConstantIndex {
                    offset, from_end, ..
                } => v.push(J::Str(format!(
                    "[{}{}]",
                    if from_end { "-" } else { "" },
                    offset
                ))),
                ProjectionElem::Subslice { from, to, from_end } => v.push(J::Str(format!(
                    "[{}..{}{}]",
                    from,
                    if from_end { "-" } else { "" },
                    to
                ))),
                ProjectionElem::Downcast(name, vi) => v.push(J::Str(match name {
                    Some(n) => format!("as {}", n),
                    None => format!("as #{}", vi.as_usize()),
                })),
                ProjectionElem::OpaqueCast(_) => v.push(J::s("opaque")),
                ProjectionElem::UnwrapUnsafeBinder(_) => v.push(J::s("unbind")),
            }
        }
        J::Arr(v)
    }

    fn operand(&mut self, o: &Operand<'tcx>, is_callee: bool) -> J {
        match o {
            Operand::Copy(p) => J::Obj(vec![("p", self.place(p))]),
            Operand::Move(p) => J::Obj(vec![("p", self.place(p)), ("mv", J::Bool(true))]),
            Operand::Constant(c) => {
                let t = c.const_.ty();
                let mut v = vec![
                    ("c", J::Str(format!("{}", c.const_))),
                    ("ty", J::Str(ty_str(t))),
                ];
                if let ty::FnDef(did, args) = t.kind() {
                    let p = path_of(self.tcx, *did);
                    v.push(("fn", J::Str(p.clone())));
                    if !is_callee {
                        let (l, _, _) = self.line(SourceInfo::outermost(c.span));
                        let mut e = vec![("ref", J::Str(p)), ("ln", J::n(l as i128))];
                        if let Ok(Some(inst)) =
                            Instance::try_resolve(self.tcx, self.env, *did, args)
                        {
                            e.push(("resolved", J::Str(path_of(self.tcx, inst.def_id()))));
                        }
                        self.calls.push(J::Obj(e));
                    }
                }
                if let Some(si) = c.const_.try_eval_scalar_int(self.tcx, self.env) {
                    let bits = si.to_bits_unchecked();
                    v.push(("bits", J::Str(bits.to_string())));
                }
                J::Obj(v)
            }
            #[allow(unreachable_patterns)]
            _ => J::Obj(vec![("other", J::Str(format!("{:?}", o)))]),
        }
    }

    fn rvalue(&mut self, rv: &Rvalue<'tcx>) -> J {
        match rv {
            Rvalue::Use(o, ..) => {
                let o = self.operand(o, false);
                J::Obj(vec![("k", J::s("Use")), ("a", o)])
            }
            Rvalue::Repeat(o, _) => {
                let o = self.operand(o, false);
                J::Obj(vec![("k", J::s("Repeat")), ("a", o)])
            }
            Rvalue::Ref(_, bk, p) => J::Obj(vec![
                ("k", J::s("Ref")),
                ("mut", J::Bool(matches!(bk, BorrowKind::Mut { .. }))),
                ("p", self.place(p)),
            ]),
            Rvalue::RawPtr(k, p) => J::Obj(vec![
                ("k", J::s("RawPtr")),
                ("kind", J::Str(format!("{:?}", k))),
                ("p", self.place(p)),
            ]),
            Rvalue::Cast(kind, o, t) => {
                let from = o.ty(&self.body.local_decls, self.tcx);
                let oj = self.operand(o, false);
                J::Obj(vec![
                    ("k", J::s("Cast")),
                    ("kind", J::Str(format!("{:?}", kind))),
                    ("a", oj),
                    ("from", J::Str(ty_str(from))),
                    ("to", J::Str(ty_str(*t))),
                ])
            }
            Rvalue::BinaryOp(op, ab) => {
                let (a, b) = &**ab;
                let ta = a.ty(&self.body.local_decls, self.tcx);
                let aj = self.operand(a, false);
                let bj = self.operand(b, false);
                J::Obj(vec![
                    ("k", J::s("BinaryOp")),
                    ("op", J::Str(format!("{:?}", op))),
                    ("a", aj),
                    ("b", bj),
                    ("ty", J::Str(ty_str(ta))),
                ])
            }
            Rvalue::UnaryOp(op, a) => {
                let ta = a.ty(&self.body.local_decls, self.tcx);
                let aj = self.operand(a, false);
                J::Obj(vec![
                    ("k", J::s("UnaryOp")),
                    ("op", J::Str(format!("{:?}", op))),
                    ("a", aj),
                    ("ty", J::Str(ty_str(ta))),
                ])
            }
            Rvalue::Discriminant(p) => {
                let t = p.ty(&self.body.local_decls, self.tcx).ty;
                J::Obj(vec![
                    ("k", J::s("Discriminant")),
                    ("p", self.place(p)),
                    ("ty", J::Str(ty_str(t))),
                ])
            }
            Rvalue::Aggregate(kind, ops) => {
                let mut v = vec![("k", J::s("Aggregate"))];
                match &**kind {
                    AggregateKind::Adt(did, vi, _, _, _) => {
                        let def = self.tcx.adt_def(*did);
                        v.push(("adt", J::Str(path_of(self.tcx, *did))));
                        if vi.as_usize() < def.variants().len() {
                            v.push(("variant", J::Str(def.variant(*vi).name.to_string())));
                        }
                    }
                    AggregateKind::Closure(did, _) | AggregateKind::Coroutine(did, _) => {
                        let p = path_of(self.tcx, *did);
                        v.push(("closure", J::Str(p.clone())));
                        self.calls.push(J::Obj(vec![("closure", J::Str(p))]));
                    }
                    AggregateKind::CoroutineClosure(did, _) => {
                        let p = path_of(self.tcx, *did);
                        v.push(("closure", J::Str(p.clone())));
                        self.calls.push(J::Obj(vec![("closure", J::Str(p))]));
                    }
                    AggregateKind::Tuple => v.push(("tuple", J::Bool(true))),
                    AggregateKind::Array(_) => v.push(("array", J::Bool(true))),
                    AggregateKind::RawPtr(..) => v.push(("rawptr", J::Bool(true))),
                }
                let ops: Vec<J> = ops.iter().map(|o| self.operand(o, false)).collect();
                v.push(("ops", J::Arr(ops)));
                J::Obj(v)
            }
            Rvalue::CopyForDeref(p) => {
                J::Obj(vec![("k", J::s("CopyForDeref")), ("p", self.place(p))])
            }
            other => J::Obj(vec![
                ("k", J::s("Other")),
                ("d", J::Str(format!("{:?}", other))),
            ]),
        }
    }

    fn stmt(&mut self, s: &Statement<'tcx>) -> Option<J> {
        match &s.kind {
            StatementKind::Assign(b) => {
                let (p, rv) = &**b;
                let (l, macs, same) = self.line(s.source_info);
                let mut v = vec![
                    ("l", self.place(p)),
                    ("rv", self.rvalue(rv)),
                    ("ln", J::n(l as i128)),
                ];
                if !macs.is_empty() {
                    v.push(("mac", J::Arr(macs.iter().map(|m| J::s(m)).collect())));
                }
                if !same {
                    v.push(("xfile", J::Bool(true)));
                }
                Some(J::Obj(v))
            }
            StatementKind::SetDiscriminant {
                place,
                variant_index,
            } => Some(J::Obj(vec![
                ("setdiscr", self.place(place)),
                ("variant", J::n(variant_index.as_usize() as i128)),
            ])),
            StatementKind::Intrinsic(i) => Some(J::Obj(vec![(
                "intrinsic",
                J::Str(format!("{:?}", i)),
            )])),
            _ => None,
        }
    }

    fn term(&mut self, bb: usize, t: &Terminator<'tcx>) -> J {
        let (l, macs, same) = self.line(t.source_info);
        let mut v: Vec<(&'static str, J)> = vec![("ln", J::n(l as i128))];
        if !macs.is_empty() {
            v.push(("mac", J::Arr(macs.iter().map(|m| J::s(m)).collect())));
        }
        if !same {
            v.push(("xfile", J::Bool(true)));
        }
        let bbj = |b: BasicBlock| J::n(b.as_usize() as i128);
        let unw = |u: &UnwindAction| match u {
            UnwindAction::Cleanup(b) => J::n(b.as_usize() as i128),
            _ => J::Null,
        };
        match &t.kind {
            TerminatorKind::Goto { target } => {
                v.push(("k", J::s("Goto")));
                v.push(("succ", J::Arr(vec![bbj(*target)])));
            }
            TerminatorKind::SwitchInt { discr, targets } => {
                v.push(("k", J::s("SwitchInt")));
                let dt = discr.ty(&self.body.local_decls, self.tcx);
                v.push(("discr", self.operand(discr, false)));
                v.push(("dty", J::Str(ty_str(dt))));
                let mut vals = vec![];
                let mut succ = vec![];
                for (val, tgt) in targets.iter() {
                    vals.push(J::Str(val.to_string()));
                    succ.push(bbj(tgt));
                }
                succ.push(bbj(targets.otherwise()));
                v.push(("vals", J::Arr(vals)));
                v.push(("succ", J::Arr(succ)));
            }
            TerminatorKind::UnwindResume => v.push(("k", J::s("Resume"))),
            TerminatorKind::UnwindTerminate(_) => v.push(("k", J::s("Terminate"))),
            TerminatorKind::Return => v.push(("k", J::s("Return"))),
            TerminatorKind::Unreachable => v.push(("k", J::s("Unreachable"))),
            TerminatorKind::Drop {
                place,
                target,
                unwind,
                ..
            } => {
                v.push(("k", J::s("Drop")));
                v.push(("p", self.place(place)));
                let t = place.ty(&self.body.local_decls, self.tcx).ty;
                v.push(("ty", J::Str(ty_str(t))));
                v.push(("succ", J::Arr(vec![bbj(*target)])));
                v.push(("unwind", unw(unwind)));
            }
            TerminatorKind::Call {
                func,
                args,
                destination,
                target,
                unwind,
                ..
            } => {
                v.push(("k", J::s("Call")));
                let fj = self.operand(func, true);
                let mut ce: Vec<(&'static str, J)> = vec![
                    ("ln", J::n(l as i128)),
                    ("bb", J::n(bb as i128)),
                ];
                if !macs.is_empty() {
                    ce.push(("mac", J::Arr(macs.iter().map(|m| J::s(m)).collect())));
                }
                if !same {
                    ce.push(("xfile", J::Bool(true)));
                }
                if let Some((did, ga)) = func.const_fn_def() {
                    let p = path_of(self.tcx, did);
                    let inst = ty::print::with_no_trimmed_paths!(
                        self.tcx.def_path_str_with_args(did, ga)
                    );
                    v.push(("callee", J::Str(p.clone())));
                    v.push(("inst", J::Str(inst.clone())));
                    ce.push(("callee", J::Str(p)));
                    ce.push(("inst", J::Str(inst)));
                    ce.push(("krate", J::Str(self.tcx.crate_name(did.krate).to_string())));
                    match Instance::try_resolve(self.tcx, self.env, did, ga) {
                        Ok(Some(inst)) => {
                            let rp = path_of(self.tcx, inst.def_id());
                            let kind = match inst.def {
                                ty::InstanceKind::Item(_) => "item",
                                ty::InstanceKind::Virtual(..) => "virtual",
                                ty::InstanceKind::ClosureOnceShim { .. } => "closure_once",
                                ty::InstanceKind::FnPtrShim(..) => "fnptr_shim",
                                ty::InstanceKind::DropGlue(..) => "drop_glue",
                                ty::InstanceKind::CloneShim(..) => "clone_shim",
                                ty::InstanceKind::Intrinsic(_) => "intrinsic",
                                _ => "other",
                            };
                            v.push(("resolved", J::Str(rp.clone())));
                            ce.push(("resolved", J::Str(rp)));
                            ce.push(("rkind", J::s(kind)));
                            ce.push((
                                "rkrate",
                                J::Str(self.tcx.crate_name(inst.def_id().krate).to_string()),
                            ));
                        }
                        _ => {}
                    }
                    let sig = self.tcx.fn_sig(did).instantiate(self.tcx, ga).skip_norm_wip();
                    let out = sig.skip_binder().output();
                    ce.push(("ret", J::Str(ty_str(out))));
                } else {
                    let ft = func.ty(&self.body.local_decls, self.tcx);
                    v.push(("indirect", J::Str(ty_str(ft))));
                    ce.push(("indirect", J::Str(ty_str(ft))));
                }
                if let Some(a0) = args.first() {
                    let t0 = a0.node.ty(&self.body.local_decls, self.tcx);
                    ce.push(("a0ty", J::Str(ty_str(t0))));
                }
                v.push(("func", fj));
                let aj: Vec<J> = args.iter().map(|a| self.operand(&a.node, false)).collect();
                v.push(("args", J::Arr(aj)));
                v.push(("dest", self.place(destination)));
                let dt = destination.ty(&self.body.local_decls, self.tcx).ty;
                v.push(("dty", J::Str(ty_str(dt))));
                let mut succ = vec![];
                if let Some(t) = target {
                    succ.push(bbj(*t));
                }
                v.push(("succ", J::Arr(succ)));
                v.push(("unwind", unw(unwind)));
                self.calls.push(J::Obj(ce));
            }
            TerminatorKind::TailCall { func, .. } => {
                v.push(("k", J::s("TailCall")));
                let fj = self.operand(func, false);
                v.push(("func", fj));
            }
            TerminatorKind::Assert {
                cond,
                expected,
                msg,
                target,
                unwind,
            } => {
                v.push(("k", J::s("Assert")));
                let kind = match &**msg {
                    AssertKind::BoundsCheck { .. } => "BoundsCheck".to_string(),
                    AssertKind::Overflow(op, ..) => format!("Overflow({:?})", op),
                    AssertKind::OverflowNeg(_) => "OverflowNeg".to_string(),
                    AssertKind::DivisionByZero(_) => "DivisionByZero".to_string(),
                    AssertKind::RemainderByZero(_) => "RemainderByZero".to_string(),
                    AssertKind::MisalignedPointerDereference { .. } => "Misaligned".to_string(),
                    AssertKind::NullPointerDereference => "NullDeref".to_string(),
                    other => {
                        let s = format!("{:?}", other);
                        s.split(|c: char| !c.is_alphanumeric())
                            .next()
                            .unwrap_or("")
                            .to_string()
                    }
                };
                v.push(("assert", J::Str(kind.clone())));
                v.push(("cond", self.operand(cond, false)));
                v.push(("expected", J::Bool(*expected)));
                v.push(("succ", J::Arr(vec![bbj(*target)])));
                v.push(("unwind", unw(unwind)));
                let mut ce: Vec<(&'static str, J)> = vec![
                    ("assert", J::Str(kind)),
                    ("ln", J::n(l as i128)),
                    ("bb", J::n(bb as i128)),
                ];
                if !macs.is_empty() {
                    ce.push(("mac", J::Arr(macs.iter().map(|m| J::s(m)).collect())));
                }
                if let AssertKind::BoundsCheck { .. } = &**msg {
                    // type being indexed is not directly available; leave to rules
                }
                self.calls.push(J::Obj(ce));
            }
            TerminatorKind::Yield { resume, .. } => {
                v.push(("k", J::s("Yield")));
                v.push(("succ", J::Arr(vec![bbj(*resume)])));
            }
            TerminatorKind::CoroutineDrop => v.push(("k", J::s("CoroutineDrop"))),
            TerminatorKind::FalseEdge { real_target, .. } => {
                v.push(("k", J::s("Goto")));
                v.push(("succ", J::Arr(vec![bbj(*real_target)])));
            }
            TerminatorKind::FalseUnwind { real_target, .. } => {
                v.push(("k", J::s("Goto")));
                v.push(("succ", J::Arr(vec![bbj(*real_target)])));
            }
            TerminatorKind::InlineAsm { .. } => v.push(("k", J::s("InlineAsm"))),
        }
        J::Obj(v)
    }
}

pub fn dump<'tcx>(tcx: TyCtxt<'tcx>, did: LocalDefId, body: &Body<'tcx>) -> (J, J) {
    let (file, _) = crate::loc(tcx, body.span);
    let mut cx = Cx {
        tcx,
        body,
        env: TypingEnv::post_analysis(tcx, did.to_def_id()),
        calls: vec![],
        file,
    };
    let locals: Vec<J> = body
        .local_decls
        .iter()
        .map(|d| J::Str(ty_str(d.ty)))
        .collect();
    let mut names = vec![];
    for vdi in &body.var_debug_info {
        if let VarDebugInfoContents::Place(p) = &vdi.value {
            names.push(J::Arr(vec![cx.place(p), J::Str(vdi.name.to_string())]));
        }
    }
    let mut blocks = vec![];
    for (bb, data) in body.basic_blocks.iter_enumerated() {
        let mut ss = vec![];
        for s in &data.statements {
            if let Some(j) = cx.stmt(s) {
                ss.push(j);
            }
        }
        let t = cx.term(bb.as_usize(), data.terminator());
        let mut b = vec![("s", J::Arr(ss)), ("t", t)];
        if data.is_cleanup {
            b.push(("cleanup", J::Bool(true)));
        }
        blocks.push(J::Obj(b));
    }
    let mj = J::Obj(vec![
        ("argc", J::n(body.arg_count as i128)),
        ("locals", J::Arr(locals)),
        ("names", J::Arr(names)),
        ("blocks", J::Arr(blocks)),
    ]);
    (mj, J::Arr(cx.calls))
}
