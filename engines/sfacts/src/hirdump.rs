// Typed HIR facts: the macro-expanded, type-resolved expression tree of one body owner
// (closures are emitted inline inside their parent).
use crate::json::J;
use crate::types::ty_str;
use rustc_hir as hir;
use rustc_hir::def::Res;
use rustc_hir::def_id::LocalDefId;
use rustc_middle::ty::{self, Instance, TyCtxt, TypeckResults, TypingEnv};
use rustc_span::hygiene::SyntaxContext;

struct Cx<'tcx> {
    tcx: TyCtxt<'tcx>,
    tr: &'tcx TypeckResults<'tcx>,
    env: TypingEnv<'tcx>,
}

fn path_of<'tcx>(tcx: TyCtxt<'tcx>, did: rustc_hir::def_id::DefId) -> String {
    ty::print::with_no_trimmed_paths!(tcx.def_path_str(did))
}

type O = Vec<(&'static str, J)>;

impl<'tcx> Cx<'tcx> {
    fn head(&self, k: &'static str, span: rustc_span::Span, pctxt: SyntaxContext) -> O {
        let (_, l) = crate::loc(self.tcx, span);
        let mut o: O = vec![("k", J::s(k)), ("ln", J::n(l as i128))];
        if span.from_expansion() && span.ctxt() != pctxt {
            let ch = crate::mac_chain(self.tcx, span);
            o.push((
                "mac",
                J::Arr(
                    ch.into_iter()
                        .map(|(n, s)| J::Arr(vec![J::Str(n), J::Str(s)]))
                        .collect(),
                ),
            ));
        }
        o
    }

    fn res(&self, r: Res) -> J {
        match r {
            Res::Local(hid) => J::Obj(vec![("local", J::Str(self.tcx.hir_name(hid).to_string()))]),
            Res::Def(kind, did) => J::Obj(vec![
                ("def", J::Str(path_of(self.tcx, did))),
                ("dk", J::Str(format!("{:?}", kind))),
            ]),
            Res::SelfCtor(did) => J::Obj(vec![("selfctor", J::Str(path_of(self.tcx, did)))]),
            Res::SelfTyAlias { alias_to, .. } => {
                J::Obj(vec![("selfty", J::Str(path_of(self.tcx, alias_to)))])
            }
            other => J::Obj(vec![("res", J::Str(format!("{:?}", other)))]),
        }
    }

    fn fn_ref(
        &self,
        o: &mut O,
        did: rustc_hir::def_id::DefId,
        args: ty::GenericArgsRef<'tcx>,
    ) {
        o.push(("callee", J::Str(path_of(self.tcx, did))));
        o.push((
            "inst",
            J::Str(ty::print::with_no_trimmed_paths!(
                self.tcx.def_path_str_with_args(did, args)
            )),
        ));
        if let Ok(Some(inst)) = Instance::try_resolve(self.tcx, self.env, did, args) {
            o.push(("resolved", J::Str(path_of(self.tcx, inst.def_id()))));
        }
    }

    fn lit(&self, l: &hir::Lit) -> J {
        use rustc_ast::LitKind;
        match &l.node {
            LitKind::Str(s, _) => J::Obj(vec![("str", J::Str(s.to_string()))]),
            LitKind::ByteStr(b, _) => J::Obj(vec![(
                "bytes",
                J::Str(String::from_utf8_lossy(b.as_byte_str()).to_string()),
            )]),
            LitKind::Byte(b) => J::Obj(vec![("byte", J::n(*b as i128))]),
            LitKind::Char(c) => J::Obj(vec![("char", J::Str(c.to_string()))]),
            LitKind::Int(n, _) => J::Obj(vec![("int", J::Str(n.get().to_string()))]),
            LitKind::Float(s, _) => J::Obj(vec![("float", J::Str(s.to_string()))]),
            LitKind::Bool(b) => J::Obj(vec![("bool", J::Bool(*b))]),
            other => J::Obj(vec![("lit", J::Str(format!("{:?}", other)))]),
        }
    }

    fn qpath_str(&self, q: &hir::QPath<'tcx>) -> String {
        rustc_hir_pretty_qpath(q)
    }

    fn pat_expr(&self, pe: &hir::PatExpr<'tcx>, pctxt: SyntaxContext) -> J {
        let mut o = self.head("PLit", pe.span, pctxt);
        match &pe.kind {
            hir::PatExprKind::Lit { lit, negated } => {
                o.push(("lit", self.lit(lit)));
                if *negated {
                    o.push(("neg", J::Bool(true)));
                }
            }
            hir::PatExprKind::Path(q) => {
                o[0] = ("k", J::s("PPath"));
                let r = self.tr.qpath_res(q, pe.hir_id);
                o.push(("res", self.res(r)));
                if let Res::Def(_, did) = r {
                    if let Some(v) = self.const_int(did) {
                        o.push(("val", J::Str(v)));
                    }
                }
            }
            #[allow(unreachable_patterns)]
            _ => o.push(("other", J::Str("constblock".into()))),
        }
        J::Obj(o)
    }

    fn const_int(&self, did: rustc_hir::def_id::DefId) -> Option<String> {
        let dk = self.tcx.def_kind(did);
        if !matches!(
            dk,
            rustc_hir::def::DefKind::Const { .. } | rustc_hir::def::DefKind::AssocConst { .. }
        ) {
            return None;
        }
        if self.tcx.generics_of(did).count() != 0 {
            return None;
        }
        let cv = self.tcx.const_eval_poly(did).ok()?;
        let s = cv.try_to_scalar_int()?;
        Some(s.to_bits_unchecked().to_string())
    }

    fn pat(&self, p: &hir::Pat<'tcx>, pctxt: SyntaxContext) -> J {
        use hir::PatKind::*;
        let c = p.span.ctxt();
        let mut o: O;
        match &p.kind {
            Wild => {
                o = self.head("PWild", p.span, pctxt);
            }
            Binding(mode, _, ident, sub) => {
                o = self.head("PBind", p.span, pctxt);
                o.push(("name", J::Str(ident.name.to_string())));
                o.push(("mode", J::Str(format!("{:?}", mode))));
                if let Some(s) = sub {
                    o.push(("sub", self.pat(s, c)));
                }
            }
            Struct(q, fields, _) => {
                o = self.head("PStruct", p.span, pctxt);
                let r = self.tr.qpath_res(q, p.hir_id);
                o.push(("res", self.res(r)));
                let fs: Vec<J> = fields
                    .iter()
                    .map(|f| J::Arr(vec![J::Str(f.ident.name.to_string()), self.pat(f.pat, c)]))
                    .collect();
                o.push(("fields", J::Arr(fs)));
            }
            TupleStruct(q, pats, _) => {
                o = self.head("PTupleStruct", p.span, pctxt);
                let r = self.tr.qpath_res(q, p.hir_id);
                o.push(("res", self.res(r)));
                o.push(("pats", J::Arr(pats.iter().map(|x| self.pat(x, c)).collect())));
            }
            Or(pats) => {
                o = self.head("POr", p.span, pctxt);
                o.push(("pats", J::Arr(pats.iter().map(|x| self.pat(x, c)).collect())));
            }
            Tuple(pats, _) => {
                o = self.head("PTuple", p.span, pctxt);
                o.push(("pats", J::Arr(pats.iter().map(|x| self.pat(x, c)).collect())));
            }
            Box(x) | Deref(x) | Ref(x, ..) => {
                o = self.head("PRef", p.span, pctxt);
                o.push(("sub", self.pat(x, c)));
            }
            Expr(pe) => {
                return self.pat_expr(pe, pctxt);
            }
            Range(a, b, end) => {
                o = self.head("PRange", p.span, pctxt);
                if let Some(a) = a {
                    o.push(("lo", self.pat_expr(a, c)));
                }
                if let Some(b) = b {
                    o.push(("hi", self.pat_expr(b, c)));
                }
                o.push(("end", J::Str(format!("{:?}", end))));
            }
            Slice(a, m, b) => {
                o = self.head("PSlice", p.span, pctxt);
                o.push(("pre", J::Arr(a.iter().map(|x| self.pat(x, c)).collect())));
                if let Some(m) = m {
                    o.push(("mid", self.pat(m, c)));
                }
                o.push(("post", J::Arr(b.iter().map(|x| self.pat(x, c)).collect())));
            }
            Guard(x, g) => {
                o = self.head("PGuard", p.span, pctxt);
                o.push(("sub", self.pat(x, c)));
                o.push(("guard", self.expr(g, c)));
            }
            other => {
                o = self.head("POther", p.span, pctxt);
                o.push((
                    "d",
                    J::Str(
                        format!("{:?}", other)
                            .split(|ch: char| !ch.is_alphanumeric())
                            .next()
                            .unwrap_or("")
                            .to_string(),
                    ),
                ));
            }
        }
        // type of the pattern (useful for variant patterns)
        if let Some(t) = self.tr.node_type_opt(p.hir_id) {
            if matches!(p.kind, Struct(..) | TupleStruct(..) | Binding(..)) {
                o.push(("ty", J::Str(ty_str(t))));
            }
        }
        J::Obj(o)
    }

    fn block(&self, b: &hir::Block<'tcx>, pctxt: SyntaxContext) -> J {
        let mut o = self.head("Block", b.span, pctxt);
        let c = b.span.ctxt();
        let mut ss = vec![];
        for s in b.stmts {
            match &s.kind {
                hir::StmtKind::Let(l) => {
                    let mut lo = self.head("Let", s.span, c);
                    lo.push(("pat", self.pat(l.pat, s.span.ctxt())));
                    if let Some(i) = l.init {
                        lo.push(("init", self.expr(i, s.span.ctxt())));
                    }
                    if let Some(e) = l.els {
                        lo.push(("else", self.block(e, s.span.ctxt())));
                    }
                    ss.push(J::Obj(lo));
                }
                hir::StmtKind::Item(_) => {}
                hir::StmtKind::Expr(e) | hir::StmtKind::Semi(e) => ss.push(self.expr(e, c)),
            }
        }
        o.push(("stmts", J::Arr(ss)));
        if let Some(e) = b.expr {
            o.push(("expr", self.expr(e, c)));
        }
        if !matches!(b.rules, hir::BlockCheckMode::DefaultBlock) {
            o.push(("unsafe", J::Bool(true)));
        }
        J::Obj(o)
    }

    fn expr(&self, e: &hir::Expr<'tcx>, pctxt: SyntaxContext) -> J {
        use hir::ExprKind::*;
        let c = e.span.ctxt();
        let mut o: O;
        let mut want_ty = true;
        match &e.kind {
            Block(b, label) => {
                let mut j = self.block(b, pctxt);
                if let (Some(l), J::Obj(v)) = (label, &mut j) {
                    v.push(("label", J::Str(l.ident.name.to_string())));
                }
                return j;
            }
            DropTemps(x) => return self.expr(x, pctxt),
            Use(x, _) => return self.expr(x, pctxt),
            Array(xs) => {
                o = self.head("Array", e.span, pctxt);
                o.push(("elems", J::Arr(xs.iter().map(|x| self.expr(x, c)).collect())));
            }
            Tup(xs) => {
                o = self.head("Tup", e.span, pctxt);
                o.push(("elems", J::Arr(xs.iter().map(|x| self.expr(x, c)).collect())));
            }
            Call(f, args) => {
                o = self.head("Call", e.span, pctxt);
                let ft = self.tr.expr_ty(f);
                if let ty::FnDef(did, ga) = ft.kind() {
                    self.fn_ref(&mut o, *did, ga);
                } else {
                    o.push(("f", self.expr(f, c)));
                }
                // tuple-struct / variant constructors are calls too
                if let Path(q) = &f.kind {
                    let r = self.tr.qpath_res(q, f.hir_id);
                    if let Res::Def(rustc_hir::def::DefKind::Ctor(..), did) = r {
                        o.push(("ctor", J::Str(path_of(self.tcx, did))));
                    }
                }
                o.push(("args", J::Arr(args.iter().map(|x| self.expr(x, c)).collect())));
            }
            MethodCall(seg, recv, args, _) => {
                o = self.head("MethodCall", e.span, pctxt);
                o.push(("name", J::Str(seg.ident.name.to_string())));
                if let Some(did) = self.tr.type_dependent_def_id(e.hir_id) {
                    let ga = self.tr.node_args(e.hir_id);
                    self.fn_ref(&mut o, did, ga);
                }
                o.push(("recv", self.expr(recv, c)));
                o.push(("args", J::Arr(args.iter().map(|x| self.expr(x, c)).collect())));
            }
            Binary(op, a, b) => {
                o = self.head("Binary", e.span, pctxt);
                o.push(("op", J::Str(format!("{:?}", op.node))));
                if let Some(did) = self.tr.type_dependent_def_id(e.hir_id) {
                    let ga = self.tr.node_args(e.hir_id);
                    self.fn_ref(&mut o, did, ga);
                }
                o.push(("a", self.expr(a, c)));
                o.push(("b", self.expr(b, c)));
            }
            Unary(op, a) => {
                o = self.head("Unary", e.span, pctxt);
                o.push(("op", J::Str(format!("{:?}", op))));
                if let Some(did) = self.tr.type_dependent_def_id(e.hir_id) {
                    let ga = self.tr.node_args(e.hir_id);
                    self.fn_ref(&mut o, did, ga);
                }
                o.push(("a", self.expr(a, c)));
            }
            Lit(l) => {
                o = self.head("Lit", e.span, pctxt);
                o.push(("lit", self.lit(l)));
            }
            Cast(a, _) => {
                o = self.head("Cast", e.span, pctxt);
                o.push(("a", self.expr(a, c)));
            }
            Type(a, _) => return self.expr(a, pctxt),
            Let(l) => {
                o = self.head("LetCond", e.span, pctxt);
                o.push(("pat", self.pat(l.pat, c)));
                o.push(("init", self.expr(l.init, c)));
                want_ty = false;
            }
            If(cond, th, el) => {
                o = self.head("If", e.span, pctxt);
                o.push(("cond", self.expr(cond, c)));
                o.push(("then", self.expr(th, c)));
                if let Some(el) = el {
                    o.push(("else", self.expr(el, c)));
                }
            }
            Loop(b, label, src, _) => {
                o = self.head("Loop", e.span, pctxt);
                o.push(("src", J::Str(format!("{:?}", src))));
                if let Some(l) = label {
                    o.push(("label", J::Str(l.ident.name.to_string())));
                }
                o.push(("body", self.block(b, c)));
                want_ty = false;
            }
            Match(scrut, arms, src) => {
                o = self.head("Match", e.span, pctxt);
                o.push(("src", J::Str(format!("{:?}", src))));
                o.push(("scrut", self.expr(scrut, c)));
                let mut aj = vec![];
                for arm in *arms {
                    let ac = arm.span.ctxt();
                    let mut ao = self.head("Arm", arm.span, c);
                    ao.push(("pat", self.pat(arm.pat, ac)));
                    if let Some(g) = arm.guard {
                        ao.push(("guard", self.expr(g, ac)));
                    }
                    ao.push(("body", self.expr(arm.body, ac)));
                    aj.push(J::Obj(ao));
                }
                o.push(("arms", J::Arr(aj)));
            }
            Closure(cl) => {
                o = self.head("Closure", e.span, pctxt);
                o.push(("def", J::Str(path_of(self.tcx, cl.def_id.to_def_id()))));
                let body = self.tcx.hir_body(cl.body);
                let ps: Vec<J> = body.params.iter().map(|p| self.pat(p.pat, c)).collect();
                o.push(("params", J::Arr(ps)));
                o.push(("body", self.expr(body.value, c)));
                want_ty = false;
            }
            Assign(l, r, _) => {
                o = self.head("Assign", e.span, pctxt);
                o.push(("lhs", self.expr(l, c)));
                o.push(("rhs", self.expr(r, c)));
                want_ty = false;
            }
            AssignOp(op, l, r) => {
                o = self.head("AssignOp", e.span, pctxt);
                o.push(("op", J::Str(format!("{:?}", op.node))));
                if let Some(did) = self.tr.type_dependent_def_id(e.hir_id) {
                    let ga = self.tr.node_args(e.hir_id);
                    self.fn_ref(&mut o, did, ga);
                }
                o.push(("lhs", self.expr(l, c)));
                o.push(("rhs", self.expr(r, c)));
                want_ty = false;
            }
            Field(b, ident) => {
                o = self.head("Field", e.span, pctxt);
                o.push(("name", J::Str(ident.name.to_string())));
                o.push(("base", self.expr(b, c)));
            }
            Index(b, i, _) => {
                o = self.head("Index", e.span, pctxt);
                if let Some(did) = self.tr.type_dependent_def_id(e.hir_id) {
                    let ga = self.tr.node_args(e.hir_id);
                    self.fn_ref(&mut o, did, ga);
                }
                o.push(("base", self.expr(b, c)));
                o.push(("idx", self.expr(i, c)));
            }
            Path(q) => {
                o = self.head("Path", e.span, pctxt);
                let r = self.tr.qpath_res(q, e.hir_id);
                o.push(("res", self.res(r)));
                if let Res::Def(_, did) = r {
                    if let Some(v) = self.const_int(did) {
                        o.push(("val", J::Str(v)));
                    }
                }
                let _ = self.qpath_str(q);
            }
            AddrOf(_, m, a) => {
                o = self.head("AddrOf", e.span, pctxt);
                o.push(("mut", J::Bool(matches!(m, hir::Mutability::Mut))));
                o.push(("a", self.expr(a, c)));
                want_ty = false;
            }
            Break(dest, val) => {
                o = self.head("Break", e.span, pctxt);
                if let Some(l) = dest.label {
                    o.push(("label", J::Str(l.ident.name.to_string())));
                }
                if let Some(v) = val {
                    o.push(("val", self.expr(v, c)));
                }
                want_ty = false;
            }
            Continue(dest) => {
                o = self.head("Continue", e.span, pctxt);
                if let Some(l) = dest.label {
                    o.push(("label", J::Str(l.ident.name.to_string())));
                }
                want_ty = false;
            }
            Ret(val) => {
                o = self.head("Ret", e.span, pctxt);
                if let Some(v) = val {
                    o.push(("val", self.expr(v, c)));
                }
                want_ty = false;
            }
            Struct(q, fields, base) => {
                o = self.head("Struct", e.span, pctxt);
                let r = self.tr.qpath_res(q, e.hir_id);
                o.push(("res", self.res(r)));
                let fs: Vec<J> = fields
                    .iter()
                    .map(|f| J::Arr(vec![J::Str(f.ident.name.to_string()), self.expr(f.expr, c)]))
                    .collect();
                o.push(("fields", J::Arr(fs)));
                if let hir::StructTailExpr::Base(b) = base {
                    o.push(("base", self.expr(b, c)));
                }
            }
            Repeat(a, _) => {
                o = self.head("Repeat", e.span, pctxt);
                o.push(("a", self.expr(a, c)));
            }
            Yield(a, _) => {
                o = self.head("Yield", e.span, pctxt);
                o.push(("a", self.expr(a, c)));
            }
            ConstBlock(cb) => {
                o = self.head("ConstBlock", e.span, pctxt);
                let body = self.tcx.hir_body(cb.body);
                let _ = body;
            }
            other => {
                o = self.head("Other", e.span, pctxt);
                o.push((
                    "d",
                    J::Str(
                        format!("{:?}", other)
                            .split(|ch: char| !ch.is_alphanumeric())
                            .next()
                            .unwrap_or("")
                            .to_string(),
                    ),
                ));
            }
        }
        if want_ty {
            if let Some(t) = self.tr.expr_ty_opt(e) {
                if !t.is_unit() && !t.is_never() {
                    o.push(("ty", J::Str(ty_str(t))));
                }
            }
            // adjusted type differs (auto-deref/ref) — record when an overloaded deref is applied
            let adj = self.tr.expr_adjustments(e);
            if !adj.is_empty() {
                if let Some(last) = adj.last() {
                    o.push(("adj_ty", J::Str(ty_str(last.target))));
                }
            }
        }
        J::Obj(o)
    }
}

fn rustc_hir_pretty_qpath(_q: &hir::QPath<'_>) -> String {
    String::new()
}

pub fn dump<'tcx>(tcx: TyCtxt<'tcx>, did: LocalDefId) -> J {
    let tr = tcx.typeck(did);
    let cx = Cx {
        tcx,
        tr,
        env: TypingEnv::post_analysis(tcx, did.to_def_id()),
    };
    let body = tcx.hir_body_owned_by(did);
    let root = SyntaxContext::root();
    let ps: Vec<J> = body.params.iter().map(|p| cx.pat(p.pat, root)).collect();
    J::Obj(vec![
        ("params", J::Arr(ps)),
        ("body", cx.expr(body.value, root)),
    ])
}
