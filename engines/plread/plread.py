"""plread — a small ISO-Prolog reader (tokenizer + operator-precedence parser) used only to read
clauses of src/lib/*.pl for table rules (C37, C43, C44). It never runs Prolog.

Terms: ('atom', name) | ('var', name) | ('int', n) | ('float', x) | ('str', s) |
       ('cmp', functor, [args])   — lists are '.'/2 with ('atom','[]').
read_clauses(text) yields (term, line) for every clause/directive; `:- op(P,T,N)` directives met
in the file extend the operator table for what follows.
"""
import re

SYMCH = set("+-*/\\^<>=~:.?@#&$")
SOLO = set("!,;|")
PUNCT = set("()[]{}")


class PlSyntaxError(Exception):
    pass


def tokenize(text):
    i, n, line = 0, len(text), 1
    toks = []
    while i < n:
        c = text[i]
        if c == "\n":
            line += 1
            i += 1
            continue
        if c.isspace():
            i += 1
            continue
        if c == "%":
            while i < n and text[i] != "\n":
                i += 1
            continue
        if c == "/" and text[i:i + 2] == "/*":
            j = text.find("*/", i + 2)
            j = n if j < 0 else j + 2
            line += text.count("\n", i, j)
            i = j
            continue
        start_line = line
        prev_layout = i == 0 or text[i - 1].isspace() or text[i - 1] in "([{,|"
        if c.isdigit():
            if c == "0" and i + 1 < n and text[i + 1] == "'":
                # character code
                j = i + 2
                if j < n and text[j] == "\\":
                    m = re.match(r"\\(x[0-9a-fA-F]+\\|[0-7]+\\|.)", text[j:], re.S)
                    j += len(m.group(0))
                elif text[j:j + 2] == "''":
                    j += 2
                else:
                    j += 1
                toks.append(("int", 0, start_line, prev_layout))
                i = j
                continue
            m = re.match(r"0x[0-9a-fA-F]+|0o[0-7]+|0b[01]+|\d[\d_]*(\.\d+([eE][+-]?\d+)?)?", text[i:])
            s = m.group(0)
            if "." in s:
                toks.append(("float", float(s.replace("_", "")), start_line, prev_layout))
            else:
                s2 = s.replace("_", "")
                toks.append(("int", int(s2, 0) if s2[:2] in ("0x", "0o", "0b") else int(s2), start_line, prev_layout))
            i += len(s)
            continue
        if c == "_" or c.isalpha():
            m = re.match(r"[A-Za-z0-9_]+", text[i:])
            s = m.group(0)
            if c == "_" or c.isupper():
                toks.append(("var", s, start_line, prev_layout))
            else:
                toks.append(("atom", s, start_line, prev_layout))
            i += len(s)
            continue
        if c in "'\"`":
            q = c
            j = i + 1
            out = []
            while True:
                if j >= n:
                    raise PlSyntaxError("unterminated quoted item at line %d" % start_line)
                d = text[j]
                if d == q:
                    if text[j + 1:j + 2] == q:
                        out.append(q)
                        j += 2
                        continue
                    j += 1
                    break
                if d == "\\":
                    e = text[j + 1:j + 2]
                    if e == "\n":
                        j += 2
                        line += 1
                        continue
                    m = re.match(r"\\(x[0-9a-fA-F]+\\|[0-7]+\\)", text[j:])
                    if m:
                        body = m.group(1)[:-1]
                        out.append(chr(int(body[1:], 16) if body[0] == "x" else int(body, 8)))
                        j += len(m.group(0))
                        continue
                    out.append({"n": "\n", "t": "\t", "r": "\r", "a": "\a", "b": "\b", "f": "\f", "v": "\v", "0": "\0", "e": "\x1b", "s": " "}.get(e, e))
                    j += 2
                    continue
                if d == "\n":
                    line += 1
                out.append(d)
                j += 1
            kind = {"'": "qatom", '"': "str", "`": "bq"}[q]
            toks.append((kind, "".join(out), start_line, prev_layout))
            i = j
            continue
        if c in PUNCT:
            toks.append(("punct", c, start_line, prev_layout))
            i += 1
            continue
        if c in SOLO:
            toks.append(("atom" if c != "," and c != "|" else "punct", c, start_line, prev_layout))
            i += 1
            continue
        if c in SYMCH:
            j = i
            while j < n and text[j] in SYMCH:
                j += 1
            s = text[i:j]
            if s == "." and (j >= n or text[j].isspace() or text[j] == "%"):
                toks.append(("end", ".", start_line, prev_layout))
                i = j
                continue
            if s.endswith(".") and len(s) > 1 and (j >= n or text[j].isspace() or text[j] == "%") and s != "=..":
                # symbol atom immediately followed by the end token, e.g. `X = a-.`: rare; split
                toks.append(("atom", s[:-1], start_line, prev_layout))
                toks.append(("end", ".", start_line, False))
                i = j
                continue
            toks.append(("atom", s, start_line, prev_layout))
            i = j
            continue
        raise PlSyntaxError("unexpected character %r at line %d" % (c, line))
    return toks


DEFAULT_OPS = [
    (1200, "xfx", [":-", "-->"]), (1200, "fx", [":-", "?-"]), (1100, "xfy", [";", "|"]), (1105, "xfy", ["|"]), (1050, "xfy", ["->"]),
    (1000, "xfy", [","]), (900, "fy", ["\\+"]), (700, "xfx", ["=", "\\=", "==", "\\==", "@<", "@>", "@=<", "@>=", "=..", "is", "=:=", "=\\=", "<", ">", "=<", ">="]),
    (600, "xfy", [":"]), (500, "yfx", ["+", "-", "/\\", "\\/"]), (400, "yfx", ["*", "/", "//", "rem", "mod", "div", "<<", ">>", "divmod", "rdiv"]),
    (200, "xfx", ["**"]), (200, "xfy", ["^"]), (200, "fy", ["-", "+", "\\"]), (100, "yfx", ["."]), (1, "fx", ["$"]),
    (1150, "fx", ["non_counted_backtracking", "attribute"]),
    (1150, "fx", ["dynamic", "discontiguous", "initialization", "meta_predicate", "module_transparent", "multifile", "public", "thread_local", "table"]),
]


class Ops:
    def __init__(self):
        self.prefix, self.infix, self.postfix = {}, {}, {}
        for p, t, names in DEFAULT_OPS:
            for nm in names:
                self.add(p, t, nm)

    def add(self, p, t, nm):
        d = self.prefix if t in ("fy", "fx") else self.infix if t in ("xfx", "xfy", "yfx") else self.postfix
        if p == 0:
            d.pop(nm, None)
        else:
            d[nm] = (p, t)


class Parser:
    def __init__(self, toks, ops):
        self.t, self.i, self.ops = toks, 0, ops

    def peek(self):
        return self.t[self.i] if self.i < len(self.t) else ("eof", None, -1, True)

    def next(self):
        tok = self.peek()
        self.i += 1
        return tok

    def expect(self, kind, val):
        tok = self.next()
        if tok[0] != kind or tok[1] != val:
            raise PlSyntaxError("expected %s %r, got %r at line %s" % (kind, val, tok[:2], tok[2]))

    def is_term_start(self, tok):
        if tok[0] in ("end", "eof"):
            return False
        if tok[0] == "punct" and tok[1] in (")", "]", "}", ",", "|"):
            return False
        if tok[0] == "atom" and tok[1] in self.ops.infix and tok[1] not in self.ops.prefix:
            return False
        return True

    def parse(self, maxp):
        left, lp = self.primary(maxp)
        return self.infix_loop(left, lp, maxp)

    def arglist(self):
        args = [self.parse(999)]
        while self.peek()[:2] == ("punct", ","):
            self.next()
            args.append(self.parse(999))
        return args

    def primary(self, maxp):
        tok = self.next()
        k, v = tok[0], tok[1]
        if k == "int":
            return ("int", v), 0
        if k == "float":
            return ("float", v), 0
        if k == "var":
            return ("var", v), 0
        if k == "str":
            return ("str", v), 0
        if k == "bq":
            return ("str", v), 0
        if k == "punct":
            if v == "(":
                nx = self.peek()
                if nx[0] == "punct" and nx[1] in ("|", ",") and self.i + 1 < len(self.t) and self.t[self.i + 1][:2] == ("punct", ")"):
                    self.next()
                    self.next()
                    return ("atom", nx[1]), 0   # (|) and (,) denote the atoms
                t = self.parse(1200)
                self.expect("punct", ")")
                return t, 0
            if v == "[":
                if self.peek()[:2] == ("punct", "]"):
                    self.next()
                    return self.atom_or_compound("[]", tok, maxp)
                items = self.arglist()
                tail = ("atom", "[]")
                if self.peek()[:2] == ("punct", "|"):
                    self.next()
                    tail = self.parse(999)
                self.expect("punct", "]")
                for it in reversed(items):
                    tail = ("cmp", ".", [it, tail])
                return tail, 0
            if v == "{":
                if self.peek()[:2] == ("punct", "}"):
                    self.next()
                    return self.atom_or_compound("{}", tok, maxp)
                t = self.parse(1200)
                self.expect("punct", "}")
                return ("cmp", "{}", [t]), 0
            if v == "|" or v == ",":
                raise PlSyntaxError("unexpected %r at line %s" % (v, tok[2]))
            raise PlSyntaxError("unexpected %r at line %s" % (v, tok[2]))
        if k in ("atom", "qatom"):
            return self.atom_or_compound(v, tok, maxp, quoted=(k == "qatom"))
        raise PlSyntaxError("unexpected token %r at line %s" % (tok[:2], tok[2]))

    def atom_or_compound(self, name, tok, maxp, quoted=False):
        nxt = self.peek()
        if nxt[:2] == ("punct", "(") and not nxt[3]:
            self.next()
            args = self.arglist()
            self.expect("punct", ")")
            return ("cmp", name, args), 0
        if not quoted and name == "-" and nxt[0] in ("int", "float") and not nxt[3]:
            self.next()
            return (nxt[0], -nxt[1]), 0
        if not quoted and name in self.ops.prefix and self.is_term_start(nxt):
            p, t = self.ops.prefix[name]
            if p > maxp:
                p = 999 if maxp >= 999 else maxp
            argmax = p if t == "fy" else p - 1
            # an infix operator following means the prefix op is an atom operand
            if nxt[0] == "atom" and nxt[1] in self.ops.infix and not (nxt[1] in self.ops.prefix):
                return ("atom", name), (self.ops.prefix[name][0] if name in self.ops.infix else 0)
            save = self.i
            try:
                arg = self.parse(argmax)
                return ("cmp", name, [arg]), p
            except PlSyntaxError:
                self.i = save
        pri = 0
        if not quoted and (name in self.ops.infix or name in self.ops.prefix):
            pri = max(self.ops.infix.get(name, (0,))[0], self.ops.prefix.get(name, (0,))[0])
            if pri > maxp:
                pri = 0
        return ("atom", name), pri

    def infix_loop(self, left, lp, maxp):
        while True:
            tok = self.peek()
            name = None
            if tok[0] == "atom":
                name = tok[1]
            elif tok[0] == "punct" and tok[1] in (",", "|"):
                name = tok[1]
            if name is None or name not in self.ops.infix:
                return left
            p, t = self.ops.infix[name]
            la = p - 1 if t in ("xfx", "xfy") else p
            ra = p - 1 if t in ("xfx", "yfx") else p
            if p > maxp or lp > la:
                return left
            self.next()
            right = self.parse(ra)
            left, lp = ("cmp", name, [left, right]), p


def read_clauses(text):
    """Yield (term, line) per clause. A clause that cannot be parsed is yielded as
    (('error', message), line): callers decide whether it matters."""
    toks = tokenize(text)
    ops = Ops()
    i = 0
    while i < len(toks):
        j = i
        while j < len(toks) and toks[j][0] != "end":
            j += 1
        chunk = toks[i:j]
        line = chunk[0][2] if chunk else (toks[j][2] if j < len(toks) else -1)
        i = j + 1
        if not chunk:
            continue
        try:
            p = Parser(chunk, ops)
            term = p.parse(1200)
            if p.i != len(chunk):
                raise PlSyntaxError("trailing tokens at line %s: %r" % (chunk[p.i][2], chunk[p.i][:2]))
        except (PlSyntaxError, IndexError, RecursionError) as e:
            yield ("error", str(e)), line
            continue
        if term[0] == "cmp" and term[1] == ":-" and len(term[2]) == 1:
            d = term[2][0]
            if d[0] == "cmp" and d[1] == "op" and len(d[2]) == 3:
                pr, ty, nm = d[2]
                names = list_items(nm) if nm[0] == "cmp" and nm[1] == "." else [nm]
                if pr[0] == "int" and ty[0] == "atom":
                    for x in names or []:
                        if x[0] == "atom":
                            ops.add(pr[1], ty[1], x[1])
        yield term, line


def list_items(t):
    out = []
    while t[0] == "cmp" and t[1] == "." and len(t[2]) == 2:
        out.append(t[2][0])
        t = t[2][1]
    return out if t == ("atom", "[]") else None


def head_body(term):
    if term[0] == "cmp" and term[1] == ":-" and len(term[2]) == 2:
        return term[2][0], term[2][1]
    return term, ("atom", "true")


def functor(t):
    if t[0] == "cmp":
        return (t[1], len(t[2]))
    if t[0] == "atom":
        return (t[1], 0)
    return None


def conj(t):
    if t[0] == "cmp" and t[1] == "," and len(t[2]) == 2:
        return conj(t[2][0]) + conj(t[2][1])
    return [t]


def show(t):
    k = t[0]
    if k in ("atom", "var"):
        return t[1]
    if k in ("int", "float"):
        return str(t[1])
    if k == "str":
        return '"%s"' % t[1]
    if k == "cmp":
        return "%s(%s)" % (t[1], ",".join(show(a) for a in t[2]))
    return str(t)
