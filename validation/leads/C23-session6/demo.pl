:- use_module(library(lists)).

% arg/3 against the term model: a string "c1 c2 ..." is the list '.'(c1, Rest).
check(Chars) :-
    atom_chars(A, Chars), atom_chars(A, S0),   % S0: a fresh heap string
    S0 = [C|Rest],
    ( arg(1, S0, A1), A1 == C -> true ; throw(arg1_wrong(Chars)) ),
    ( arg(2, S0, A2) -> true ; throw(arg2_failed(Chars)) ),
    ( A2 == Rest -> true ; throw(arg2_wrong(Chars, A2)) ),
    S0 =.. [F, U1, U2],
    ( F == '.', U1 == C, U2 == Rest -> true ; throw(univ_wrong(Chars)) ),
    ( \+ arg(3, S0, _) -> true ; throw(arg3(Chars)) ).

run :-
    check([a,b,c]),
    check([a,b]),
    check([a]),
    check([a,'é',b]),
    check(['é']),
    check(['é',b]),
    check(['é',a,b,c,d,e,f,g,h,i]),
    check(['日','本','語']),
    check(['😀',x,y]),
    write(ok), nl.
