#!/bin/sh
# usage: demo.sh /path/to/scryer-prolog
here=$(cd "$(dirname "$0")" && pwd)
bin=${1:-scryer-prolog}
out=$(timeout 60 "$bin" -f --no-add-history "$here/demo.pl" -g "catch(run,E,(write(E),nl,halt(1))),halt." </dev/null 2>&1)
rc=$?
echo "$out"
[ $rc -eq 0 ] || exit 1
[ "$out" = "ok" ] || exit 1
exit 0
