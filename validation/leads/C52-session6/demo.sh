#!/bin/sh
# usage: demo.sh /path/to/scryer-prolog
BIN="${1:-/tmp/wt/n4/target/debug/scryer-prolog}"
DIR="$(cd "$(dirname "$0")" && pwd)"
out=$(timeout 120 "$BIN" -f --no-add-history "$DIR/demo.pl" -g "run,halt(2)." </dev/null 2>&1)
rc=$?
echo "$out"
[ $rc -eq 0 ] && echo "$out" | grep -q '^ok$'
