:- use_module(library(random)).
:- use_module(library(between)).
:- use_module(library(lists)).
:- use_module(library(format)).

% Narrow ranges placed around every power of two from 2^50 to 2^70:
% each sample must satisfy L =< X < H.
bad(L, H, X) :-
    between(50, 70, E),
    P is 2^E,
    member(DL, [-3,-2,-1,0,1]),
    member(W, [1,2,3]),
    L is P + DL,
    H is L + W,
    between(1, 40, _),
    random_integer(L, H, X),
    \+ ( integer(X), L =< X, X < H ).
bad(L, H, X) :-
    between(50, 70, E),
    member(DL, [-3,-2,-1,0,1]),
    member(W, [1,2,3]),
    H is -(2^E) + DL,
    L is H - W,
    between(1, 40, _),
    random_integer(L, H, X),
    \+ ( integer(X), L =< X, X < H ).

run :-
    set_random(seed(20240922)),
    (   bad(L, H, X) ->
        format("FAIL: random_integer(~w, ~w, X) gave X = ~w~n", [L, H, X]),
        halt(1)
    ;   format("ok~n", []),
        halt(0)
    ).
