:- use_module(library(iso_ext)).
:- use_module(library(lists)).
:- use_module(library(format)).

count(N, N) :- !.
count(I, N) :- I1 is I + 1, count(I1, N).

% spends some inferences under the outer limit, then runs a nested limit
% whose own budget is smaller than the outer one but which, added to what
% was already spent, reaches past the outer limit.
outer_goal(Pre, InnerL, InnerR) :-
    count(0, Pre),
    call_with_inference_limit(count(0, 1000), InnerL, InnerR),
    count(0, 1000).

% the goal needs well over 2000 inferences, so every outer limit below that
% must report inference_limit_exceeded whatever the nested limit does.
outcome(OuterL, Pre, InnerL, R) :-
    call_with_inference_limit(outer_goal(Pre, InnerL, _), OuterL, R),
    !.

check(OuterL, Pre, InnerL) :-
    outcome(OuterL, Pre, InnerL, R),
    (   R == inference_limit_exceeded -> true
    ;   format("outer limit ~d (pre ~d, inner limit ~d): got ~w~n", [OuterL, Pre, InnerL, R]),
        fail
    ).

run :-
    % monotone in L: once exceeded at L, exceeded at every smaller L too;
    % here every L in the list is far below the full count.
    findall(O-P-I,
            ( member(O, [40, 60, 100, 200]),
              member(P, [0, 5, 10, 20]),
              member(I, [10, 30, 39, 59, 99, 150]) ),
            Cases),
    findall(C, ( member(C, Cases), C = O-P-I, \+ check(O, P, I) ), Bad),
    (   Bad == [] -> format("ok~n", []), halt(0)
    ;   format("failed cases: ~w~n", [Bad]), halt(1)
    ).
