#!/bin/sh
# usage: demo.sh /path/to/scryer-prolog
BIN="${1:-/tmp/wt/n2/target/debug/scryer-prolog}"
DIR="$(cd "$(dirname "$0")" && pwd)"
OUT="$(timeout 60 "$BIN" -f --no-add-history "$DIR/demo.pl" -g "run" -g "halt(2)" </dev/null 2>&1)"
RC=$?
echo "$OUT"
[ $RC -eq 0 ] || exit 1
echo "$OUT" | grep -qx "ok" || exit 1
exit 0
