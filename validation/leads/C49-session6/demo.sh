#!/bin/sh
# usage: demo.sh /path/to/scryer-prolog
BIN="${1:-/tmp/wt/n3/target/debug/scryer-prolog}"
DIR="$(cd "$(dirname "$0")" && pwd)"
# bound the memory so that a runaway allocation ends as an error, not as an OOM of the machine
ulimit -v 4000000 2>/dev/null
OUT=$(timeout 60 "$BIN" -f --no-add-history "$DIR/demo.pl" -g "run,halt(2)." </dev/null 2>&1)
RC=$?
echo "$OUT"
[ $RC -eq 0 ] && [ "$OUT" = "ok" ]
