:- use_module(library(lists)).
:- use_module(library(between)).
:- use_module(library(iso_ext)).

% A list whose spine is two partial-string segments followed by an open tail:
%   L = [a,b,c,d,e,f|T]
seg2(L, T) :- partial_string("abc", L, T0), partial_string("def", T0, T).

% reference length relation on partial lists, for a given integer N
ref_length(L, N, Res) :-
    open_prefix(L, K, Tail),
    (  Tail == [] -> ( K =:= N -> Res = true ; Res = false )
    ;  var(Tail)  -> ( K =< N -> Res = true ; Res = false )
    ;  Res = false
    ).

open_prefix(L, 0, L) :- var(L), !.
open_prefix([], 0, []) :- !.
open_prefix([_|Xs], K, T) :- !, open_prefix(Xs, K0, T), K is K0+1.
open_prefix(X, 0, X).

obs_length(L, N, Res) :-
    catch(( length(L, N) -> proper(L, N, Res) ; Res = false ), error(E, _), Res = error(E)).

proper(L, N, Res) :-
    open_prefix(L, K, T),
    (  T == [], K =:= N -> Res = true ; Res = wrong_answer(K) ).

check(N) :-
    seg2(L1, _), ref_length(L1, N, Ref),
    seg2(L2, _), obs_length(L2, N, Obs),
    (  Ref == Obs -> true
    ;  write(mismatch(n(N), expected(Ref), got(Obs))), nl, fail
    ).

run :-
    findall(N, (between(0, 9, N), \+ check(N)), Bad),
    (  Bad == [] -> write(ok), nl, halt(0)
    ;  write(bad(Bad)), nl, halt(1)
    ).
